"""C09 / C10 / C13 (/ C06) -- a *label calculus* for the state / operator conventions of quimb's site-structured networks.

Abstract domain
---------------
* An *index id* (the format string "k{}", "b{}", a fresh uuid + "{}", ...) is an element of the uninterpreted sort
  ``IndId``; only equality is known.  String literals of the source are distinct constants (two different texts are
  two different ids), ``rand_uuid()`` returns an id distinct from every id that exists at that moment (FRESHNESS: the
  trusted axiom of this domain).  A *label* is a pair (id, site): ``id.format(site)``; distinct pairs are distinct
  labels (injectivity of formatting over the ids in play: trusted).
* Everything is stated for ONE ARBITRARY ("skolem") site s: a statement proved for s holds for every site.  Sets of
  sites (``gen_sites_present()``, ``where=``, ``keep``) are abstract values carrying the single Boolean "s is a member".
* A network object (heap ``Ref`` of kind "TN") has the declared ids ``_site_ind_id`` (vector like) or ``_upper_ind_id`` /
  ``_lower_ind_id`` (operator like) and the ghost tuple ``layers``.  A *layer* is one original vector / operator that
  was put into the network; it carries ghost ``conj`` (is it the element-wise conjugate of the original), ``present``
  (has it a tensor at s) and, per physical LEG of the original object ("site" for vectors, "up" / "lo" for operators),
  the id of the label that sits on that leg at s (``slots``).  Legs never change their meaning: whatever the declared
  ids are renamed to, "up" is the leg that indexes the ROWS of the original operator's dense form.
* CONVENTION (fixed here, checked at run time by the bounded drivers): dense rows = upper labels; ``A.apply(x)``
  contracts A's lower labels with x; ``tn.H`` is element-wise conjugation only; the matrix element <b|A|k> is the network in
  which the CONJUGATED vector shares its labels with A's up leg and the unconjugated one with A's lo leg.  Two networks
  combined with ``|`` / ``&`` are contracted over the labels they share (a label carried by two legs is summed).

Trusted leaves: ``TensorNetwork.reindex(map)`` replaces every occurrence of a key label by its value and nothing else;
``copy`` / ``.H`` / ``conj_`` / ``|`` / ``&`` / ``|=`` / ``view_as_``; contraction (``^``), ``fuse_multibonds_``, ``compress``,
``drop_tags``, ``add_tag``, ``>>=`` do not rename outer labels.  ``f_ = partialmethod(f, inplace=True)``.
"""

import ast

import z3

from vf.pyvc import (And, Contract, If, Implies, Loop, NS, Not, Opaque, Or, PyRaise, Ref, StarArg, SymIter,
                     Unsupported, is_int, is_z3, register, REGISTRY)

TNAG = "quimb/tensor/tnag/core.py"
TN1D = "quimb/tensor/tn1d/core.py"
DMRGF = "quimb/tensor/tn1d/dmrg.py"
GATING = "quimb/tensor/gating.py"

Id = z3.DeclareSort("IndId")
SITE = z3.Int("s!site")  # the skolem site

# ------------------------------------------------------------------------------------------------------------
# ids
# ------------------------------------------------------------------------------------------------------------

LIT = {}


def lit(text):
    """the id denoted by a string literal (same text -> same constant; different texts are distinct, see lit_axiom)"""
    if text not in LIT:
        LIT[text] = z3.Const("id:" + text, Id)
    return LIT[text]


for _t in ("k{}", "b{}", "__ind_a{}__", "__ind_b{}__", "__ind_c{}__", "__ham2{}__", "_bra{}"):
    lit(_t)


def gen_level(j):
    """the documented automatic id of level j+1 of tensor_network_align: "__ind_a{}__", "__ind_b{}__", ..."""
    return lit(f"__ind_{chr(ord('a') + j)}{{}}__")


def lit_axiom():
    xs = list(LIT.values())
    return z3.Distinct(*xs) if len(xs) > 1 else z3.BoolVal(True)


def is_id(v):
    return is_z3(v) and v.sort() == Id


def reg(cx, *ids):
    cx.ghost.setdefault("ids", []).extend(ids)


def mk_id(cx, name):
    c = z3.Const(cx._name(name), Id)
    reg(cx, c)
    return c


def as_id(cx, v):
    if is_id(v):
        return v
    if isinstance(v, str):
        if v not in LIT:
            c = lit(v)
            cx.assume(And(*[c != o for t, o in LIT.items() if t != v]))
        return lit(v)
    raise Unsupported(f"not an index id: {v!r}")


def fresh_id(cx):
    """rand_uuid(): distinct from every id in existence (inputs, literals, earlier uuids) -- FRESHNESS axiom"""
    c = z3.Const(cx._name("uuid"), Id)
    others = list(cx.ghost.get("ids", [])) + list(LIT.values())
    if others:
        cx.assume(And(*[c != o for o in others]))
    reg(cx, c)
    return c


# ------------------------------------------------------------------------------------------------------------
# layers, networks, site sets, labels
# ------------------------------------------------------------------------------------------------------------


class Layer:
    """one original vector / operator inside a network, seen at the skolem site"""

    def __init__(self, origin, roles, slots, conj, present):
        self.origin, self.roles, self.slots, self.conj, self.present = origin, tuple(roles), tuple(slots), conj, present

    def slot(self, role):
        return self.slots[self.roles.index(role)]

    def replace(self, **kw):
        d = dict(origin=self.origin, roles=self.roles, slots=self.slots, conj=self.conj, present=self.present)
        d.update(kw)
        return Layer(**d)

    def __repr__(self):
        return f"Layer({self.origin}:{dict(zip(self.roles, self.slots))}, conj={self.conj}, present={self.present})"


class SiteSet:
    """a collection of sites; ``has`` : the skolem site is a member"""

    def __init__(self, has, note=""):
        self.has, self.note = has, note


class SliceSet(SiteSet):
    """a python slice of sites (1D): ``has`` : the skolem site lies in the slice"""


class SiteElem:
    """the generic element of a SiteSet (comprehension variable)"""

    def __init__(self, of):
        self.of = of


class Label:
    """id.format(site)"""

    def __init__(self, fam, site):
        self.fam, self.site = fam, site


class LabelMap:
    """{key.fam.format(x): val.fam.format(x) for x in where}"""

    def __init__(self, where, key, val):
        self.where, self.key, self.val = where, key, val


class Marker:
    def __init__(self, name):
        self.name = name

    def __repr__(self):
        return f"<{self.name}>"


ALL = Marker("all")
OR_ = Marker("operator.or_")

ID_FIELDS = {"vec": ("_site_ind_id",), "op": ("_upper_ind_id", "_lower_ind_id"), "plain": ()}
PUBLIC = {"site_ind_id": ("vec", "_site_ind_id"), "upper_ind_id": ("op", "_upper_ind_id"),
          "lower_ind_id": ("op", "_lower_ind_id")}


def new_vec(cx, name, conj=None):
    sid = mk_id(cx, f"{name}_site")
    slot = mk_id(cx, f"{name}_slot")
    lay = Layer(name, ("site",), (slot,), cx.Bool(f"{name}_conj") if conj is None else conj, cx.Bool(f"{name}_present"))
    return cx.new_obj("TN", cls="vec", _site_ind_id=sid, layers=(lay,), cyclic=cx.Bool(f"{name}_cyclic"),
                      L=cx.Int(f"{name}_L"), _site_tag_id=mk_id(cx, f"{name}_tagid"))


def new_op(cx, name, conj=None):
    up, lo = mk_id(cx, f"{name}_upper"), mk_id(cx, f"{name}_lower")
    su, sl = mk_id(cx, f"{name}_upslot"), mk_id(cx, f"{name}_loslot")
    lay = Layer(name, ("up", "lo"), (su, sl), cx.Bool(f"{name}_conj") if conj is None else conj,
                cx.Bool(f"{name}_present"))
    return cx.new_obj("TN", cls="op", _upper_ind_id=up, _lower_ind_id=lo, layers=(lay,),
                      cyclic=cx.Bool(f"{name}_cyclic"), L=cx.Int(f"{name}_L"), _site_tag_id=mk_id(cx, f"{name}_tagid"))


def is_tn(v):
    return isinstance(v, Ref) and v.kind == "TN"


def wf(f):
    """representation invariant of a freshly made vector / operator: one layer whose labels are the declared ones"""
    if len(f["layers"]) != 1:
        return False
    lay = f["layers"][0]
    # (labels exist only where the network has a tensor: nothing is said about the slots of an absent site)
    if f["cls"] == "vec":
        return lay.roles == ("site",) and Implies(lay.present, lay.slots[0] == f["_site_ind_id"])
    if f["cls"] == "op":
        return lay.roles == ("up", "lo") and And(Implies(lay.present, And(lay.slots[0] == f["_upper_ind_id"],
                                                                          lay.slots[1] == f["_lower_ind_id"])),
                                                  f["_upper_ind_id"] != f["_lower_ind_id"])
    return False


def present_any(layers):
    return Or(*[l.present for l in layers])


def spec_reindex(layers, has, keyfam, valfam):
    """reindex({keyfam.format(x): valfam.format(x) for x in W}) seen at the skolem site (has: s in W)"""
    return tuple(l.replace(slots=tuple(If(And(has, sl == keyfam), valfam, sl) for sl in l.slots)) for l in layers)


def layers_eq(A, B, flags=True, slots=True):
    if len(A) != len(B):
        return False
    out = []
    for a, b in zip(A, B):
        if a.roles != b.roles or a.origin != b.origin:
            return False
        if slots:
            out += [x == y for x, y in zip(a.slots, b.slots)]
        if flags:
            out += [a.conj == b.conj, a.present == b.present]
    return And(*out)


def same_state(f, g):
    """two field dicts describe the same abstract network"""
    if f["cls"] != g["cls"]:
        return False
    return And(layers_eq(f["layers"], g["layers"]), *[f[k] == g[k] for k in ID_FIELDS[f["cls"]]])


def fresh_like(cx, f, name):
    """field dict of the same shape with arbitrary contents (havoc)"""
    g = dict(f)
    for k in ID_FIELDS[f["cls"]]:
        g[k] = z3.Const(cx._name(f"{name}{k}"), Id)
    g["layers"] = tuple(Layer(l.origin, l.roles, tuple(z3.Const(cx._name(f"{name}_{l.origin}_{r}"), Id) for r in l.roles),
                              cx.Bool(f"{name}_{l.origin}_conj"), cx.Bool(f"{name}_{l.origin}_present"))
                        for l in f["layers"])
    return g


def copy_obj(cx, ref, flip=False):
    f = dict(cx.fields(ref))
    if flip:
        f["layers"] = tuple(l.replace(conj=Not(l.conj)) for l in f["layers"])
    return cx.new_obj("TN", **f)


def combined(cx, a, b):
    """a | b, a & b: a new network holding the tensors of both; the class (declared ids) of the left operand survives
    only for structure-compatible operands, which no carrier relies on: the result is a plain network"""
    fa, fb = cx.fields(a), cx.fields(b)
    return cx.new_obj("TN", cls="plain", layers=fa["layers"] + fb["layers"], cyclic=Or(fa["cyclic"], fb["cyclic"]),
                      L=fa["L"])


def layer_of(layers, origin):
    xs = [l for l in layers if l.origin == origin]
    return xs[0] if len(xs) == 1 else None


# ------------------------------------------------------------------------------------------------------------
# shared modelling of the network API
# ------------------------------------------------------------------------------------------------------------


class LabelContract(Contract):
    property_ids = ("C09", "C10", "C13")
    safety = False
    methods = {}  # method name -> registered target
    drops = "decorators, docstring, annotations"

    # -- inputs: literal ids are pairwise distinct (different strings)
    def inputs(self, cx, case):
        cx.assume(lit_axiom())
        return self.mk_inputs(cx, case)

    # -- f-strings: plain text when every part is text (generated ids such as "__ind_a{}__")
    def on_fstring(self, cx, n):
        parts = []
        for v in n.values:
            if isinstance(v, ast.Constant):
                parts.append(v.value)
            else:
                parts.append(cx.ev(v.value))
        if all(isinstance(p, str) for p in parts):
            return "".join(parts)
        return cx.Opaque("fstr")

    # -- {f(x): g(x) for x in <site set>}
    def on_dictcomp(self, cx, n):
        if len(n.generators) != 1 or n.generators[0].ifs or not isinstance(n.generators[0].target, ast.Name):
            return NotImplemented
        g = n.generators[0]
        it = cx.ev(g.iter)
        if it is None:
            raise PyRaise("TypeError", n.lineno)  # iteration over None
        if isinstance(it, (tuple, list, dict, range)):
            return NotImplemented
        if not isinstance(it, SiteSet):
            raise Unsupported(f"dict comprehension over {it!r}")
        saved = dict(cx.env)
        x = SiteElem(it)
        cx.env[g.target.id] = x
        k, v = cx.ev(n.key), cx.ev(n.value)
        cx.env = saved
        if not (isinstance(k, Label) and isinstance(v, Label) and k.site is x and v.site is x):
            raise Unsupported("dict comprehension that is not a per-site label map")
        return LabelMap(it, k, v)

    def attr(self, cx, base, attr, node):
        if base is None:
            if attr == "all":
                return ALL
            if attr in ("operator", "functools", "qu", "np", "MatrixProductOperator", "TensorNetwork1DFlat",
                        "TensorNetworkGenOperator", "TensorNetworkGenVector", "Tensor", "TensorNetwork"):
                return Marker(attr)
            return NotImplemented
        if isinstance(base, Marker) and base.name == "operator" and attr == "or_":
            return OR_
        if is_tn(base):
            f = cx.fields(base)
            if attr in PUBLIC:
                cls, priv = PUBLIC[attr]
                if f["cls"] != cls:
                    raise PyRaise("AttributeError", node.lineno)
                return f[priv]
            if attr == "H":
                return copy_obj(cx, base, flip=True)
            if attr == "_NDIMS":
                return Marker("_NDIMS")
            if attr in ("_site_inds", "_upper_inds", "_lower_inds"):
                return None
        return NotImplemented

    def havoc_heap(self, cx):
        for oid, f in cx.heap.items():
            if "layers" in f:
                cx.heap[oid] = fresh_like(cx, f, f"hv{oid}")

    def frame_inv(self, key):
        """loop invariant: every network is as it was when the loop was reached (the loop bodies of the carriers only
        contract / fuse / drop tags, which rename no outer label)"""

        def inv(v):
            cx = v.cx
            snap = cx.ghost.get(key)
            if snap is None:
                snap = cx.ghost[key] = {oid: dict(f) for oid, f in cx.heap.items() if "layers" in f}
            return {f"frame-obj{oid}": same_state(cx.heap[oid], f) for oid, f in snap.items()}

        return inv

    # -- callee use: assert requires, havoc the frame (shape preserving), fresh result, assume ensures
    def apply(self, cx, a, node, case=None):
        case = case or self.case_of_call(cx, a)
        name = self.target.split("::")[-1]
        for lab, c in self.requires_at(cx, a, case).items():
            cx.oblige(f"call-pre@{node.lineno}:{name}:{lab}", "call-pre", c, node.lineno)
        pre = {k: dict(v) for k, v in cx.heap.items()}
        for ref, fields in self.modifies(a, case):
            g = fresh_like(cx, cx.heap[ref.oid], f"m{ref.oid}")
            for fld in fields:
                cx.heap[ref.oid][fld] = g[fld]
        saved = cx.pre_heap
        cx.pre_heap = pre
        try:
            res = self.fresh_result(cx, a, case)
            for lab, c in self.ensures(a, res, cx, case).items():
                cx.assume(c)
        finally:
            cx.pre_heap = saved
        return res

    def requires_at(self, cx, a, case):
        """requires evaluated at a call site (current heap)"""
        saved = cx.pre_heap
        cx.pre_heap = cx.heap
        try:
            return self.requires_cx(cx, a, case)
        finally:
            cx.pre_heap = saved

    def requires_cx(self, cx, a, case):
        """pre-conditions over the pre-state ``cx.pre``; used both for the body proof and at call sites"""
        return {}

    def requires(self, a, case):
        cx = a.__dict__.get("_cx")
        return self.requires_cx(cx, a, case) if cx is not None else {}

    # -- calls
    def call(self, cx, name, args, kwargs, node):
        if name == "hasattr":
            obj, attr = args
            if is_tn(obj) and attr in PUBLIC:
                return cx.fields(obj)["cls"] == PUBLIC[attr][0]
            raise Unsupported(f"hasattr({obj!r}, {attr!r})")
        if name == "get_coordinate_formatter":
            return "{}"  # the placeholder of a site coordinate (one slot per lattice dimension)
        if name == "rand_uuid":
            return fresh_id(cx)
        if name == "get_symbol":
            if isinstance(args[0], int) and 0 <= args[0] < 26:
                return chr(ord("a") + args[0])  # cotengra's symbol table starts a, b, c, ... (trusted)
            raise Unsupported("get_symbol of a symbolic / large index")
        if name == "__eq__":
            x, y = args
            if (is_id(x) or isinstance(x, str)) and (is_id(y) or isinstance(y, str)):
                return as_id(cx, x) == as_id(cx, y)
            return NotImplemented
        if name == "__binop__":
            op, x, y = args
            if op == "Add" and is_id(x) and (isinstance(y, (str, Opaque))):
                return x  # uuid + "{}": the id with its site placeholder
            if op in ("BitOr", "BitAnd") and is_tn(x) and is_tn(y):
                if isinstance(node, ast.AugAssign):
                    fx = cx.fields(x)
                    fx["layers"] = fx["layers"] + cx.fields(y)["layers"]  # x |= y : y's tensors are added to x
                    return x
                return combined(cx, x, y)
            if op == "BitXor" and is_tn(x):
                if isinstance(node, ast.AugAssign):
                    return x  # contracting the tensors of a tag renames no outer label
                return NS(contracted=x, what=y, layers=cx.fields(x)["layers"])
            if op == "RShift" and is_tn(x) and isinstance(node, ast.AugAssign):
                return x  # cumulative contraction
            return NotImplemented
        if name == "tuple" and len(args) == 1 and isinstance(args[0], SiteSet):
            return args[0]
        if name == "__iter__" and isinstance(args[0], SiteSet):
            n = cx.Int("n_sites")
            cx.assume(n >= 0)
            f = z3.Function("site_at", z3.IntSort(), z3.IntSort())
            return (n, lambda t: f(t))
        if name == "__setattr__":
            base, attr, val = args
            if is_tn(base) and attr in PUBLIC:
                cls, priv = PUBLIC[attr]
                if cx.fields(base)["cls"] != cls:
                    raise Unsupported(f"store to .{attr} of a {cx.fields(base)['cls']} network")
                tgt = SETTERS[attr]
                if self.target == tgt:
                    return NotImplemented
                cx.call_contract(REGISTRY[tgt], [as_id(cx, val)], {}, node, recv=base)
                return None
            return NotImplemented
        if name == ".format" and (is_id(args[0]) or isinstance(args[0], str)) and len(args) == 2:
            return Label(as_id(cx, args[0]), args[1])
        if name == ".extend" and isinstance(args[0], list):
            args[0].extend(list(args[1]))
            return None
        if name.startswith(".") and is_tn(args[0]):
            return self.tn_method(cx, name[1:], args[0], args[1:], kwargs, node)
        return NotImplemented

    def tn_method(self, cx, m, tn, args, kwargs, node):
        f = cx.fields(tn)
        if m == "copy":
            return copy_obj(cx, tn)
        if m == "conj_":
            f["layers"] = tuple(l.replace(conj=Not(l.conj)) for l in f["layers"])
            return tn
        if m == "conj":
            return copy_obj(cx, tn, flip=True)
        if m == "gen_sites_present":
            return SiteSet(present_any(f["layers"]), "sites present")
        if m in ("site_ind", "upper_ind", "lower_ind"):
            cls, priv = PUBLIC[m + "_id"]
            if f["cls"] != cls:
                raise PyRaise("AttributeError", node.lineno)
            return Label(f[priv], args[0])
        if m == "reindex":
            return self.leaf_reindex(cx, tn, args[0], kwargs.get("inplace", args[1] if len(args) > 1 else False), node)
        if m == "reindex_":
            return self.leaf_reindex(cx, tn, args[0], True, node)
        if m in ("fuse_multibonds_", "compress", "add_tag", "drop_tags", "retag_", "replace_section_with_svd",
                 "reset_cached_properties"):
            return None if m != "fuse_multibonds_" else tn  # rename no outer label
        if m in ("phys_dim", "bond_size"):
            return cx.Opaque(m)
        inplace_alias = False
        tgt = self.methods.get(m)
        if tgt is None and m.endswith("_") and m[:-1] in self.methods:
            tgt, inplace_alias = self.methods[m[:-1]], True
        if tgt is not None and tgt in REGISTRY and tgt != self.target:
            kw = dict(kwargs, inplace=True) if inplace_alias else kwargs
            return cx.call_contract(REGISTRY[tgt], list(args), kw, node, recv=tn)
        return NotImplemented

    def leaf_reindex(self, cx, tn, m, inplace, node):
        """TensorNetwork.reindex(map, inplace) [trusted leaf]: every occurrence of a key label is replaced by its value"""
        if not isinstance(inplace, bool):
            raise Unsupported("reindex with symbolic inplace")
        tgt = tn if inplace else copy_obj(cx, tn)
        f = cx.fields(tgt)
        if isinstance(m, LabelMap):
            f["layers"] = spec_reindex(f["layers"], m.where.has, m.key.fam, m.val.fam)
            return tgt
        raise Unsupported(f"reindex with {m!r}")


SETTERS = {"site_ind_id": f"{TNAG}::TensorNetworkGenVector.site_ind_id",
           "upper_ind_id": f"{TNAG}::TensorNetworkGenOperator.upper_ind_id",
           "lower_ind_id": f"{TNAG}::TensorNetworkGenOperator.lower_ind_id"}

LabelContract.methods = {
    "reindex_sites": f"{TNAG}::TensorNetworkGenVector.reindex_sites",
    "reindex_upper_sites": f"{TNAG}::TensorNetworkGenOperator.reindex_upper_sites",
    "reindex_lower_sites": f"{TNAG}::TensorNetworkGenOperator.reindex_lower_sites",
    "align": f"{TNAG}::TensorNetworkGen.align",
    "apply": f"{TNAG}::TensorNetworkGenOperator.apply",
}


def with_cx(cx, d):
    """inputs dict that lets ``requires`` see the context (pre-state fields)"""
    d = dict(d)
    d["_cx"] = cx
    return d


def general_net(cx, cls, name):
    """a network of the given class in an ARBITRARY label state: two layers (an operator and a vector layer) whose
    labels are unrelated to the declared ids -- the partial-rename functions and the setters are specified for these"""
    f = {"cls": cls, "cyclic": cx.Bool(f"{name}_cyclic"), "L": cx.Int(f"{name}_L")}
    for k in ID_FIELDS[cls]:
        f[k] = mk_id(cx, f"{name}{k}")
    f["layers"] = (Layer(f"{name}.o", ("up", "lo"), (mk_id(cx, f"{name}_o_up"), mk_id(cx, f"{name}_o_lo")),
                         cx.Bool(f"{name}_o_conj"), cx.Bool(f"{name}_o_present")),
                   Layer(f"{name}.v", ("site",), (mk_id(cx, f"{name}_v_site"),), cx.Bool(f"{name}_v_conj"),
                         cx.Bool(f"{name}_v_present")))
    return cx.new_obj("TN", **f)


# ------------------------------------------------------------------------------------------------------------
# partial renames:  reindex_sites / reindex_upper_sites / reindex_lower_sites
# ------------------------------------------------------------------------------------------------------------


class ReindexBase(LabelContract):
    """reindex_X_sites(new_id, where, inplace): on the sites of ``where`` (default: all present sites) the label of
    the DECLARED X id becomes new_id's label, every other label and the declared ids are unchanged"""

    cls, priv = "vec", "_site_ind_id"
    floor = 8

    def cases(self):
        return [NS(name=f"where={w},inplace={i}", where=w, inplace=i) for w in ("None", "given") for i in (True, False)]

    def case_of_call(self, cx, a):
        if not isinstance(a.inplace, bool):
            raise Unsupported("symbolic inplace")
        return NS(name="call", where="None" if a.where is None else "given", inplace=a.inplace)

    def mk_inputs(self, cx, case):
        return with_cx(cx, dict(self=general_net(cx, self.cls, "T"), new_id=mk_id(cx, "new_id"),
                                where=None if case.where == "None" else SiteSet(cx.Bool("s_in_where"), "where"),
                                inplace=case.inplace))

    def requires_cx(self, cx, a, case):
        # the generic versions iterate over ``where``: a python slice is only understood by the 1D override
        return {"where-is-a-collection-of-sites": a.where is None or type(a.where) is SiteSet}

    def modifies(self, a, case):
        return [(a.self, ["layers"])] if case.inplace else []

    def fresh_result(self, cx, a, case):
        if case.inplace:
            return a.self
        f = cx.pre(a.self)
        return cx.new_obj("TN", **fresh_like(cx, f, "ri"))

    def ensures(self, a, r, cx, case):
        d = {"result-is-network": is_tn(r)}
        if not is_tn(r):
            return d
        old, new = cx.pre(a.self), cx.fields(r)
        d["result-identity"] = (r == a.self) if case.inplace else (r != a.self and r.oid not in cx.pre_heap)
        if not isinstance(a.where, (SiteSet, type(None))):
            raise Unsupported("where of unknown kind")
        has = present_any(old["layers"]) if a.where is None else a.where.has
        new_id = as_id(cx, a.new_id)
        d["renamed-exactly-where-asked"] = layers_eq(new["layers"], spec_reindex(old["layers"], has, old[self.priv], new_id))
        d["declared-ids-unchanged"] = And(*[new[k] == old[k] for k in ID_FIELDS[self.cls]]) if new["cls"] == self.cls else False
        if not case.inplace:
            d["receiver-untouched"] = same_state(cx.fields(a.self), old)
        return d


@register
class ReindexSites(ReindexBase):
    target = f"{TNAG}::TensorNetworkGenVector.reindex_sites"
    cls, priv = "vec", "_site_ind_id"


@register
class ReindexUpperSites(ReindexBase):
    target = f"{TNAG}::TensorNetworkGenOperator.reindex_upper_sites"
    cls, priv = "op", "_upper_ind_id"


@register
class ReindexLowerSites(ReindexBase):
    target = f"{TNAG}::TensorNetworkGenOperator.reindex_lower_sites"
    cls, priv = "op", "_lower_ind_id"


# ------------------------------------------------------------------------------------------------------------
# the declared-id setters (property setters: last definition of the name in the class body)
# ------------------------------------------------------------------------------------------------------------


class SetterBase(LabelContract):
    """X_ind_id = new_id: the declared id becomes new_id and the labels of the OLD declared id become new_id's on every
    present site; the other declared id is untouched.  Operators: raises ValueError iff new_id is the other id."""

    cls, priv, other = "vec", "_site_ind_id", None
    floor = 3

    def cases(self):
        return [NS(name="distinct", clash=False)] + ([NS(name="clash", clash=True)] if self.other else [])

    def case_of_call(self, cx, a):
        return NS(name="call", clash=False)

    def mk_inputs(self, cx, case):
        return with_cx(cx, dict(self=general_net(cx, self.cls, "T"), new_id=mk_id(cx, "new_id")))

    def requires_cx(self, cx, a, case):
        if self.other is None:
            return {}
        c = as_id(cx, a.new_id) == cx.pre(a.self)[self.other]
        return {"ids-distinct": Not(c)} if not case.clash else {"clash": c}

    def modifies(self, a, case):
        return [(a.self, ["layers", self.priv])]

    def fresh_result(self, cx, a, case):
        return None

    def ensures_raise(self, a, exc, cx, case):
        if exc == "ValueError" and case.clash:
            return {"raise-on-clash-state-unchanged": same_state(cx.fields(a.self), cx.pre(a.self))}
        return {f"no-raise-{exc}": False}

    def ensures(self, a, r, cx, case):
        if case.clash:
            return {"must-raise-on-clash": False}
        old, new = cx.pre(a.self), cx.fields(a.self)
        new_id = as_id(cx, a.new_id)
        d = {"declared-id-set": new[self.priv] == new_id,
             "labels-follow": layers_eq(new["layers"], spec_reindex(old["layers"], present_any(old["layers"]),
                                                                     old[self.priv], new_id)),
             "returns-none": r is None}
        if self.other:
            d["other-id-untouched"] = new[self.other] == old[self.other]
        return d


@register
class SetSiteIndId(SetterBase):
    target = SETTERS["site_ind_id"]
    cls, priv, other = "vec", "_site_ind_id", None


@register
class SetUpperIndId(SetterBase):
    target = SETTERS["upper_ind_id"]
    cls, priv, other = "op", "_upper_ind_id", "_lower_ind_id"


@register
class SetLowerIndId(SetterBase):
    target = SETTERS["lower_ind_id"]
    cls, priv, other = "op", "_lower_ind_id", "_upper_ind_id"


# ------------------------------------------------------------------------------------------------------------
# tensor_network_align
# ------------------------------------------------------------------------------------------------------------


def out_field(cls):
    return "_site_ind_id" if cls == "vec" else "_lower_ind_id"


def in_field(cls):
    return "_site_ind_id" if cls == "vec" else "_upper_ind_id"


def out_leg(cls):
    return "site" if cls == "vec" else "lo"


def in_leg(cls):
    return "site" if cls == "vec" else "up"


def align_levels(P, ind_ids):
    """the id of every level (between network j and j+1) as DOCUMENTED: the given ones, or
    (first network's own id, "__ind_a{}__", "__ind_b{}__", ...)"""
    n = len(P)
    if ind_ids is not None:
        return list(ind_ids[:n - 1])
    return [P[0][out_field(P[0]["cls"])]] + [gen_level(j) for j in range(n - 2)]


def kinds_of(cx, tns, pre=False):
    return tuple("v" if (cx.pre(t) if pre else cx.fields(t))["cls"] == "vec" else "o" for t in tns)


@register
class Align(LabelContract):
    """tensor_network_align(*tns, ind_ids, trace, inplace): network j is joined with network j+1 -- the id below j
    (site id of a vector, LOWER id of an operator) is the id above j+1 (site id / UPPER id): a FIRST vector therefore sits
    on the operator's UPPER (row) labels and a LAST vector on the LOWER (column) labels."""

    target = f"{TNAG}::tensor_network_align"
    floor = 700

    def cases(self):
        import itertools
        out = []
        for n in (2, 3, 4):
            for kinds in itertools.product("vo", repeat=n):
                for ids in ("None", "given"):
                    for trace in (False, True):
                        if trace and not (kinds[0] == "o" and kinds[-1] == "o"):
                            continue  # trace reads tns[0].upper_ind_id / sets tns[-1].lower_ind_id: operators only
                        for inplace in (False, True):
                            out.append(NS(name=f"{''.join(kinds)},ids={ids},trace={trace},inplace={inplace}", kinds=kinds,
                                          ids=ids, trace=trace, inplace=inplace))
        return out

    def case_of_call(self, cx, a):
        tns = a.tns
        if any(isinstance(t, StarArg) or not is_tn(t) for t in tns):
            raise Unsupported("tensor_network_align on a collection of unknown size")
        if not isinstance(a.trace, bool) or not isinstance(a.inplace, bool):
            raise Unsupported("symbolic trace / inplace")
        return NS(name="call", kinds=kinds_of(cx, tns), ids="None" if a.ind_ids is None else "given", trace=a.trace,
                  inplace=a.inplace)

    def mk_inputs(self, cx, case):
        tns = tuple(new_vec(cx, f"t{i}") if k == "v" else new_op(cx, f"t{i}") for i, k in enumerate(case.kinds))
        ids = None if case.ids == "None" else tuple(mk_id(cx, f"level{j}") for j in range(len(tns) - 1))
        return with_cx(cx, dict(tns=tns, ind_ids=ids, trace=case.trace, inplace=case.inplace))

    @staticmethod
    def middle_vector(kinds):
        return any(k == "v" for k in kinds[1:-1])

    def requires_cx(self, cx, a, case):
        P = [cx.pre(t) for t in a.tns]
        n = len(P)
        d = {f"wf-{i}": wf(p) for i, p in enumerate(P)}
        if a.ind_ids is not None:
            d["enough-level-ids"] = len(a.ind_ids) >= n - 1
            if not d["enough-level-ids"]:
                return d
        lv = [as_id(cx, x) for x in align_levels(P, a.ind_ids)]
        # the operator setters refuse an id equal to the operator's OTHER id at that moment (ValueError)
        for i, p in enumerate(P):
            if p["cls"] != "op":
                continue
            up_new = lv[i - 1] if i > 0 else p["_upper_ind_id"]
            if i > 0:
                d[f"ids-distinct-upper-{i}"] = lv[i - 1] != p["_lower_ind_id"]
            if i < n - 1:
                d[f"ids-distinct-lower-{i}"] = lv[i] != up_new
        if case.trace and n >= 2:
            d["ids-distinct-trace"] = P[0]["_upper_ind_id"] != lv[n - 2]
        return d

    def modifies(self, a, case):
        if not case.inplace:
            return []
        return [(t, ["layers"] + list(ID_FIELDS["vec" if k == "v" else "op"])) for t, k in zip(a.tns, case.kinds)]

    def fresh_result(self, cx, a, case):
        if self.middle_vector(case.kinds):
            raise PyRaise("ValueError")
        if case.inplace:
            return list(a.tns)
        return [cx.new_obj("TN", **fresh_like(cx, cx.pre(t), f"al{i}")) for i, t in enumerate(a.tns)]

    def ensures_raise(self, a, exc, cx, case):
        if exc == "ValueError":
            return {"raise-only-for-a-vector-in-the-middle": self.middle_vector(case.kinds)}
        return {f"no-raise-{exc}": False}

    def ensures(self, a, r, cx, case):
        if self.middle_vector(case.kinds):
            return {"vector-in-the-middle-must-raise": False}
        n = len(a.tns)
        d = {"result-is-list-of-networks": isinstance(r, (list, tuple)) and len(r) == n and all(is_tn(x) for x in r)}
        if not d["result-is-list-of-networks"]:
            return d
        P = [cx.pre(t) for t in a.tns]
        F = [cx.fields(x) for x in r]
        if case.inplace:
            d["inplace-returns-the-inputs"] = all(x == t for x, t in zip(r, a.tns))
        else:
            d["copies-are-new-objects"] = all(x.oid not in cx.pre_heap for x in r) and len({x.oid for x in r}) == n
            for i, t in enumerate(a.tns):
                d[f"input-{i}-untouched"] = same_state(cx.fields(t), P[i])
        for i in range(n):
            d[f"kind-{i}-kept"] = F[i]["cls"] == P[i]["cls"]
            if not d[f"kind-{i}-kept"]:
                return d
            d[f"aligned-wf-{i}"] = wf(F[i])
            d[f"conj-and-presence-{i}-unchanged"] = layers_eq(F[i]["layers"], P[i]["layers"], slots=False)
        for i in range(n - 1):
            c0, c1 = F[i]["cls"], F[i + 1]["cls"]
            lab = f"joins-{i}:{'vector' if c0 == 'vec' else 'lower'}-to-{'vector' if c1 == 'vec' else 'upper'}"
            l0, l1 = F[i]["layers"][0], F[i + 1]["layers"][0]
            d[lab] = And(F[i][out_field(c0)] == F[i + 1][in_field(c1)],
                         Implies(And(l0.present, l1.present), l0.slot(out_leg(c0)) == l1.slot(in_leg(c1))))
        lv = [as_id(cx, x) for x in align_levels(P, a.ind_ids)]
        if a.ind_ids is None:
            d["first-network-unchanged"] = same_state(F[0], P[0])
        for j in range(n - 1):
            d[f"level-{j}-has-the-documented-id"] = F[j][out_field(F[j]["cls"])] == lv[j]
        if F[0]["cls"] == "op":
            d["first-upper-unchanged"] = F[0]["_upper_ind_id"] == P[0]["_upper_ind_id"]
        if F[-1]["cls"] == "op":
            if case.trace:
                d["trace-closes-last-lower-with-first-upper"] = F[-1]["_lower_ind_id"] == F[0]["_upper_ind_id"]
            else:
                d["last-lower-unchanged"] = F[-1]["_lower_ind_id"] == P[-1]["_lower_ind_id"]
        return d


ALIGN = REGISTRY[Align.target]


@register
class AlignMethod(LabelContract):
    """TensorNetworkGen.align(self, *args, inplace, **kwargs) == tensor_network_align(self, *args, ...): the receiver
    is the FIRST network of the stack"""

    target = f"{TNAG}::TensorNetworkGen.align"
    floor = 350

    def cases(self):
        import itertools
        out = []
        for n in (2, 3):
            for kinds in itertools.product("vo", repeat=n):
                for ids in ("None", "given"):
                    for inplace in (False, True):
                        out.append(NS(name=f"{''.join(kinds)},ids={ids},inplace={inplace}", kinds=kinds, ids=ids,
                                      trace=False, inplace=inplace))
        return out

    def as_align(self, a):
        return NS(tns=(a.self,) + tuple(a.args), ind_ids=a.kwargs.get("ind_ids"), trace=a.kwargs.get("trace", False),
                  inplace=a.inplace)

    def case_of_call(self, cx, a):
        return ALIGN.case_of_call(cx, self.as_align(a))

    def mk_inputs(self, cx, case):
        d = ALIGN.mk_inputs(cx, case)
        kw = {} if d["ind_ids"] is None else {"ind_ids": d["ind_ids"]}
        return with_cx(cx, dict(self=d["tns"][0], args=tuple(d["tns"][1:]), inplace=case.inplace, kwargs=kw))

    def requires_cx(self, cx, a, case):
        return ALIGN.requires_cx(cx, self.as_align(a), case)

    def modifies(self, a, case):
        return ALIGN.modifies(self.as_align(a), case)

    def fresh_result(self, cx, a, case):
        return ALIGN.fresh_result(cx, self.as_align(a), case)

    def ensures_raise(self, a, exc, cx, case):
        return ALIGN.ensures_raise(self.as_align(a), exc, cx, case)

    def ensures(self, a, r, cx, case):
        return ALIGN.ensures(self.as_align(a), r, cx, case)


# ------------------------------------------------------------------------------------------------------------
# operator on vector / operator on operator
# ------------------------------------------------------------------------------------------------------------

OTHER = {"lower": "upper", "upper": "lower"}
# (contract, fuse_multibonds, compress): the three flags only select label-preserving post-processing; every value of
# each flag occurs, and every branch combination of the two `if contract` / `if compress` statements
FLAG_COMBOS = ((False, True, False), (True, True, False), (True, False, True), (False, True, True))
LEG = {"lower": "lo", "upper": "up"}


def distinct_from(x, others):
    return And(*[x != o for o in others])


@register
class ApplyOpVec(LabelContract):
    """tensor_network_apply_op_vec(A, x, which_A): the result is a VECTOR network with x's original site id; on the sites
    where A is present A's chosen leg (lo: A @ x, up: A^T @ x) shares a FRESH label with x and A's other leg carries x's
    original label; elsewhere x's labels are untouched"""

    target = f"{TNAG}::tensor_network_apply_op_vec"
    floor = 250

    def cases(self):
        out = []
        for w in ("lower", "upper", "sideways"):
            for contract, fuse, compress in FLAG_COMBOS:
                for inplace in (False, True):
                    for inplace_A in (False, True):
                        out.append(NS(name=f"which_A={w},contract={contract},fuse={fuse},compress={compress},"
                                           f"inplace={inplace},inplace_A={inplace_A}", w=w, contract=contract,
                                      fuse=fuse, compress=compress, inplace=inplace, inplace_A=inplace_A))
        return out

    def case_of_call(self, cx, a):
        for k in ("contract", "compress", "inplace", "inplace_A", "fuse_multibonds"):
            if not isinstance(a[k], bool):
                raise Unsupported(f"symbolic {k}")
        if not isinstance(a.which_A, str):
            raise Unsupported("symbolic which_A")
        return NS(name="call", w=a.which_A, contract=a.contract, fuse=a.fuse_multibonds, compress=a.compress,
                  inplace=a.inplace, inplace_A=a.inplace_A)

    def mk_inputs(self, cx, case):
        return with_cx(cx, dict(A=new_op(cx, "A"), x=new_vec(cx, "x"), which_A=case.w, contract=case.contract,
                                fuse_multibonds=case.fuse, compress=case.compress, inplace=case.inplace,
                                inplace_A=case.inplace_A, compress_opts={}))

    def requires_cx(self, cx, a, case):
        A, x = cx.pre(a.A), cx.pre(a.x)
        return {"wf-A": wf(A), "wf-x": wf(x), "is-operator": A["cls"] == "op", "is-vector": x["cls"] == "vec",
                "A-acts-on-sites-of-x": Implies(present_any(A["layers"]), present_any(x["layers"]))
                if A["cls"] == "op" and x["cls"] == "vec" else False}

    @property
    def loops(self):
        return {0: Loop("for site in sites_present_in_A", self.frame_inv("loop0"))}

    def modifies(self, a, case):
        m = []
        if case.inplace:
            m.append((a.x, ["layers", "_site_ind_id"]))
        if case.inplace_A:
            m.append((a.A, ["layers", "_upper_ind_id", "_lower_ind_id"]))
        return m

    def result_template(self, cx, a):
        x, A = cx.pre(a.x), cx.pre(a.A)
        f = dict(x)
        f["layers"] = x["layers"] + A["layers"]
        return f

    def fresh_result(self, cx, a, case):
        if case.w not in OTHER:
            raise PyRaise("ValueError")
        g = fresh_like(cx, self.result_template(cx, a), "av")
        if case.inplace:
            cx.fields(a.x).update(g)
            return a.x
        return cx.new_obj("TN", **g)

    def ensures_raise(self, a, exc, cx, case):
        if exc == "ValueError":
            return {"raise-only-for-invalid-which_A": case.w not in OTHER,
                    "raise-leaves-x-untouched": same_state(cx.fields(a.x), cx.pre(a.x)),
                    "raise-leaves-A-untouched": same_state(cx.fields(a.A), cx.pre(a.A))}
        return {f"no-raise-{exc}": False}

    def ensures(self, a, r, cx, case):
        if case.w not in OTHER:
            return {"invalid-which_A-must-raise": False}
        d = {"result-is-network": is_tn(r)}
        if not is_tn(r):
            return d
        X, A, R = cx.pre(a.x), cx.pre(a.A), cx.fields(r)
        d["result-identity"] = (r == a.x) if case.inplace else (r.oid not in cx.pre_heap)
        if not case.inplace:
            d["x-untouched"] = same_state(cx.fields(a.x), X)
        if not case.inplace_A:
            d["A-untouched"] = same_state(cx.fields(a.A), A)
        d["result-is-vector-with-x-site-id"] = R["cls"] == "vec" and R["_site_ind_id"] == X["_site_ind_id"]
        lx, lA = layer_of(R["layers"], X["layers"][0].origin), layer_of(R["layers"], A["layers"][0].origin)
        d["result-holds-exactly-x-and-A"] = len(R["layers"]) == 2 and lx is not None and lA is not None
        if not d["result-holds-exactly-x-and-A"] or R["cls"] != "vec":
            return d
        d["conj-and-presence-unchanged"] = And(layers_eq((lx,), X["layers"], slots=False),
                                               layers_eq((lA,), A["layers"], slots=False))
        pA = A["layers"][0].present
        Fam = X["_site_ind_id"]
        g = lx.slot("site")
        d["contracted-pair:A-chosen-leg-with-x"] = Implies(pA, And(lA.slot(LEG[case.w]) == g, g != Fam))
        d["outer-family:A-other-leg-carries-x-site-id"] = Implies(pA, lA.slot(LEG[OTHER[case.w]]) == Fam)
        d["rename-only-where-A-acts"] = Implies(And(Not(pA), X["layers"][0].present), g == Fam)
        d["inner-id-fresh"] = Implies(pA, distinct_from(g, [Fam, A["_upper_ind_id"], A["_lower_ind_id"]]))
        return d


# result of apply_op_op as a dense product X' @ Y' : (factor, transposed)
OPOP_PRODUCT = {("lower", "upper"): (("A", False), ("B", False)),   # A @ B      (the default: matrix multiplication)
                ("lower", "lower"): (("B", False), ("A", True)),    # B @ A^T
                ("upper", "upper"): (("A", True), ("B", False)),    # A^T @ B
                ("upper", "lower"): (("B", False), ("A", False))}   # B @ A


def row_leg(transposed):
    return "lo" if transposed else "up"


def col_leg(transposed):
    return "up" if transposed else "lo"


@register
class ApplyOpOp(LabelContract):
    """tensor_network_apply_op_op(A, B, which_A, which_B): the result denotes the dense product of OPOP_PRODUCT under
    B's ORIGINAL declared ids: rows (upper id) on the row leg of the left factor, columns (lower id) on the column leg
    of the right factor, the two inner legs joined through a fresh label -- and B is renamed only where A acts"""

    target = f"{TNAG}::tensor_network_apply_op_op"
    floor = 500

    def cases(self):
        out = []
        for wa in ("lower", "upper", "sideways"):
            for wb in ("lower", "upper", "sideways"):
                if "sideways" in (wa, wb) and wa != wb and "lower" not in (wa, wb):
                    continue
                for contract, fuse, compress in FLAG_COMBOS:
                    for inplace in (False, True):
                        for inplace_A in (False, True):
                            out.append(NS(name=f"which=({wa},{wb}),contract={contract},fuse={fuse},"
                                               f"compress={compress},inplace={inplace},inplace_A={inplace_A}",
                                          wa=wa, wb=wb, contract=contract, fuse=fuse, compress=compress,
                                          inplace=inplace, inplace_A=inplace_A))
        return out

    def case_of_call(self, cx, a):
        for k in ("contract", "compress", "inplace", "inplace_A", "fuse_multibonds"):
            if not isinstance(a[k], bool):
                raise Unsupported(f"symbolic {k}")
        if not isinstance(a.which_A, str) or not isinstance(a.which_B, str):
            raise Unsupported("symbolic which_A / which_B")
        return NS(name="call", wa=a.which_A, wb=a.which_B, contract=a.contract, fuse=a.fuse_multibonds,
                  compress=a.compress, inplace=a.inplace, inplace_A=a.inplace_A)

    def mk_inputs(self, cx, case):
        return with_cx(cx, dict(A=new_op(cx, "A"), B=new_op(cx, "B"), which_A=case.wa, which_B=case.wb,
                                contract=case.contract, fuse_multibonds=case.fuse, compress=case.compress,
                                inplace=case.inplace, inplace_A=case.inplace_A, compress_opts={}))

    def requires_cx(self, cx, a, case):
        A, B = cx.pre(a.A), cx.pre(a.B)
        ok = A["cls"] == "op" and B["cls"] == "op"
        return {"wf-A": wf(A), "wf-B": wf(B), "both-operators": ok,
                "A-acts-on-sites-of-B": Implies(present_any(A["layers"]), present_any(B["layers"])) if ok else False}

    @property
    def loops(self):
        return {0: Loop("for site in B.gen_sites_present()", self.frame_inv("loop0"))}

    def valid(self, case):
        return (case.wa, case.wb) in OPOP_PRODUCT

    def modifies(self, a, case):
        m = []
        if case.inplace:
            m.append((a.B, ["layers", "_upper_ind_id", "_lower_ind_id"]))
        if case.inplace_A:
            m.append((a.A, ["layers", "_upper_ind_id", "_lower_ind_id"]))
        return m

    def fresh_result(self, cx, a, case):
        if not self.valid(case):
            raise PyRaise("ValueError")
        B, A = cx.pre(a.B), cx.pre(a.A)
        f = dict(B)
        f["layers"] = B["layers"] + A["layers"]
        g = fresh_like(cx, f, "ao")
        if case.inplace:
            cx.fields(a.B).update(g)
            return a.B
        return cx.new_obj("TN", **g)

    def ensures_raise(self, a, exc, cx, case):
        if exc == "ValueError":
            return {"raise-only-for-invalid-combination": not self.valid(case),
                    "raise-leaves-B-untouched": same_state(cx.fields(a.B), cx.pre(a.B)),
                    "raise-leaves-A-untouched": same_state(cx.fields(a.A), cx.pre(a.A))}
        return {f"no-raise-{exc}": False}

    def ensures(self, a, r, cx, case):
        if not self.valid(case):
            return {"invalid-combination-must-raise": False}
        d = {"result-is-network": is_tn(r)}
        if not is_tn(r):
            return d
        B, A, R = cx.pre(a.B), cx.pre(a.A), cx.fields(r)
        d["result-identity"] = (r == a.B) if case.inplace else (r.oid not in cx.pre_heap)
        if not case.inplace:
            d["B-untouched"] = same_state(cx.fields(a.B), B)
        if not case.inplace_A:
            d["A-untouched"] = same_state(cx.fields(a.A), A)
        d["result-is-operator-with-B-declared-ids"] = R["cls"] == "op" and And(
            R["_upper_ind_id"] == B["_upper_ind_id"], R["_lower_ind_id"] == B["_lower_ind_id"])
        L = {"B": layer_of(R["layers"], B["layers"][0].origin), "A": layer_of(R["layers"], A["layers"][0].origin)}
        d["result-holds-exactly-B-and-A"] = len(R["layers"]) == 2 and L["A"] is not None and L["B"] is not None
        if not d["result-holds-exactly-B-and-A"] or R["cls"] != "op":
            return d
        d["conj-and-presence-unchanged"] = And(layers_eq((L["B"],), B["layers"], slots=False),
                                               layers_eq((L["A"],), A["layers"], slots=False))
        (X, tX), (Y, tY) = OPOP_PRODUCT[(case.wa, case.wb)]
        pA = A["layers"][0].present
        U, Lo = B["_upper_ind_id"], B["_lower_ind_id"]
        g = L[X].slot(col_leg(tX))
        d["rows:upper-id-on-row-leg-of-left-factor"] = Implies(pA, L[X].slot(row_leg(tX)) == U)
        d["columns:lower-id-on-column-leg-of-right-factor"] = Implies(pA, L[Y].slot(col_leg(tY)) == Lo)
        d["contracted-pair:inner-legs-joined"] = Implies(pA, And(g == L[Y].slot(row_leg(tY)), g != U, g != Lo))
        d["inner-id-fresh"] = Implies(pA, distinct_from(g, [U, Lo, A["_upper_ind_id"], A["_lower_ind_id"]]))
        d["rename-only-where-A-acts"] = Implies(And(Not(pA), B["layers"][0].present),
                                                And(L["B"].slot("up") == U, L["B"].slot("lo") == Lo))
        return d


@register
class OperatorApply(LabelContract):
    """TensorNetworkGenOperator.apply(other): A @ other (operator or vector) under other's ids; ``inplace`` consumes
    the acting operator (self), other is never touched"""

    target = f"{TNAG}::TensorNetworkGenOperator.apply"
    floor = 100

    def cases(self):
        return [NS(name=f"other={k},compress={c},contract={t},inplace={i}", kind=k, compress=c, contract=t, inplace=i)
                for k in ("op", "vec", "plain") for c in (False, True) for t in (False, True) for i in (False, True)]

    def mk_inputs(self, cx, case):
        other = {"op": lambda: new_op(cx, "B"), "vec": lambda: new_vec(cx, "x"),
                 "plain": lambda: cx.new_obj("TN", cls="plain", layers=(), cyclic=False, L=cx.Int("L"))}[case.kind]()
        return with_cx(cx, dict(self=new_op(cx, "A"), other=other, compress=case.compress, contract=case.contract,
                                inplace=case.inplace, compress_opts={}))

    def callee(self, a, case):
        if case.kind == "op":
            return (REGISTRY[ApplyOpOp.target],
                    NS(A=a.self, B=a.other, which_A="lower", which_B="upper", contract=a.contract, fuse_multibonds=True,
                       compress=a.compress, inplace=False, inplace_A=a.inplace, compress_opts={}),
                    NS(name="call", wa="lower", wb="upper", contract=case.contract, fuse=True, compress=case.compress,
                       inplace=False, inplace_A=case.inplace))
        return (REGISTRY[ApplyOpVec.target],
                NS(A=a.self, x=a.other, which_A="lower", contract=a.contract, fuse_multibonds=True, compress=a.compress,
                   inplace=False, inplace_A=a.inplace, compress_opts={}),
                NS(name="call", w="lower", contract=case.contract, fuse=True, compress=case.compress, inplace=False,
                   inplace_A=case.inplace))

    def requires_cx(self, cx, a, case):
        if case.kind == "plain":
            return {}
        con, a2, c2 = self.callee(a, case)
        return con.requires_cx(cx, a2, c2)

    def call(self, cx, name, args, kwargs, node):
        if name == "__isinstance__":
            v, cname = args
            if is_tn(v) and cname in ("TensorNetworkGenOperator", "TensorNetworkGenVector"):
                return cx.fields(v)["cls"] == ("op" if cname.endswith("Operator") else "vec")
            raise Unsupported(f"isinstance(..., {cname})")
        return super().call(cx, name, args, kwargs, node)

    def ensures_raise(self, a, exc, cx, case):
        if exc == "TypeError":
            return {"raise-only-for-neither-operator-nor-vector": case.kind == "plain"}
        return {f"no-raise-{exc}": False}

    def ensures(self, a, r, cx, case):
        if case.kind == "plain":
            return {"must-raise-TypeError": False}
        con, a2, c2 = self.callee(a, case)
        return con.ensures(a2, r, cx, c2)


# ------------------------------------------------------------------------------------------------------------
# C10: assembly of the DMRG energy networks
# ------------------------------------------------------------------------------------------------------------


class Contraction:
    """the value of ``tn ^ all`` / ``tn ^ ...``: remembers the layers of the network that was contracted"""

    def __init__(self, net, layers):
        self.net, self.layers = net, layers


def join_ok(la, lega, lb, legb):
    """the two legs carry the same label wherever both layers have a tensor"""
    return Implies(And(la.present, lb.present), la.slot(lega) == lb.slot(legb))


class DMRGContract(LabelContract):
    property_ids = ("C10",)

    def attr(self, cx, base, attr, node):
        if isinstance(base, Ref) and base.kind == "DMRG":
            f = cx.fields(base)
            if attr in f:
                return f[attr]
            return cx.Opaque(attr)  # everything else on the solver object is numerical bookkeeping
        return super().attr(cx, base, attr, node)

    def call(self, cx, name, args, kwargs, node):
        if name == "get_default_opts":
            return cx.Opaque("opts")
        if name == "__binop__":
            op, x, y = args
            if op == "BitXor" and is_tn(x) and not isinstance(node, ast.AugAssign) and (y is ALL or y is Ellipsis):
                return Contraction(x, cx.fields(x)["layers"])
            if isinstance(x, (Contraction, Opaque)) or isinstance(y, (Contraction, Opaque)):
                if op in ("Add", "Sub", "Mult", "Div", "Pow"):
                    return cx.Opaque("scalar")
        if name.startswith(".") and isinstance(args[0], Ref) and args[0].kind == "DMRG":
            if name in ("._set_bond_dim_seq", "._set_cutoff_seq"):
                return None  # schedules: no labels involved
        return super().call(cx, name, args, kwargs, node)

    def tn_method(self, cx, m, tn, args, kwargs, node):
        f = cx.fields(tn)
        if m == "rand_state":
            # leaf MPO.rand_state -> MPS_rand_state(L, ..., site_ind_id="k{}"): a new, unconjugated, well formed state
            # with a tensor on every site on which the operator has one
            sid = lit("k{}")
            pres = cx.Bool("rand_state_present")
            cx.assume(Implies(present_any(f["layers"]), pres))
            return cx.new_obj("TN", cls="vec", _site_ind_id=sid, cyclic=f["cyclic"], L=f["L"],
                              layers=(Layer("rand_state", ("site",), (sid,), z3.BoolVal(False), pres),))
        if m == "identity":
            # leaf MPO.identity -> MPO_identity_like: same declared ids, well formed, present on the same sites
            lay = f["layers"][0]
            return cx.new_obj("TN", cls="op", _upper_ind_id=f["_upper_ind_id"], _lower_ind_id=f["_lower_ind_id"],
                              cyclic=f["cyclic"], L=f["L"],
                              layers=(Layer("eye", ("up", "lo"), (f["_upper_ind_id"], f["_lower_ind_id"]),
                                            z3.BoolVal(False), lay.present),))
        return super().tn_method(cx, m, tn, args, kwargs, node)


def stack_posts(d, prefix, layers, kinds_conj=None):
    """<b| O_1 ... O_m |k> in the fixed convention: the first layer (bra) sits on the UP leg of O_1, every O_j's LO leg on the
    UP leg of O_{j+1}, the last layer (ket) on the LO leg of O_m; all the level labels pairwise different"""
    if len(layers) < 2 or layers[0].roles != ("site",) or layers[-1].roles != ("site",) or \
            any(l.roles != ("up", "lo") for l in layers[1:-1]):
        d[f"{prefix}-is-a-(bra,ops...,ket)-stack"] = False
        return
    b, k, ops = layers[0], layers[-1], layers[1:-1]
    chain = [(b, "site")] + [x for o in ops for x in ((o, "up"), (o, "lo"))] + [(k, "site")]
    levels = []
    for j in range(0, len(chain), 2):
        (la, lega), (lb, legb) = chain[j], chain[j + 1]
        name = ("bra" if j == 0 else f"op{j // 2}-lower") + "-joins-" + ("ket" if j == len(chain) - 2 else f"op{j // 2 + 1}-upper")
        d[f"{prefix}:{name}"] = join_ok(la, lega, lb, legb)
        levels.append(lb.slot(legb))
    allp = And(*[l.present for l in layers])
    d[f"{prefix}:levels-pairwise-distinct"] = Implies(allp, z3.Distinct(*levels) if len(levels) > 1 else True)


@register
class DMRGInit(DMRGContract):
    """DMRG.__init__: the energy network is <b|ham|k>: _b is the conjugate of _k and sits on ham's UP leg (rows), _k on
    ham's LO leg (columns); _k keeps its site id; ham / p0 are copied, never modified"""

    target = f"{DMRGF}::DMRG.__init__"
    floor = 40

    def cases(self):
        return [NS(name=f"p0={p}", p0=p) for p in ("None", "given")]

    def case_of_call(self, cx, a):
        return NS(name="call", p0="None" if a.p0 is None else "given")

    def mk_inputs(self, cx, case):
        return with_cx(cx, dict(self=cx.new_obj("DMRG"), ham=new_op(cx, "ham"), bond_dims=cx.Opaque("bond_dims"),
                                cutoffs=cx.Opaque("cutoffs"), bsz=cx.Opaque("bsz"), which="SA",
                                p0=None if case.p0 == "None" else new_vec(cx, "p0")))

    def requires_cx(self, cx, a, case):
        ok = is_tn(a.ham) and cx.pre(a.ham)["cls"] == "op"
        d = {"ham-is-an-operator": ok}
        if ok:
            d["wf-ham"] = wf(cx.pre(a.ham))
        if a.p0 is not None:
            okp = is_tn(a.p0) and cx.pre(a.p0)["cls"] == "vec"
            d["p0-is-a-vector"] = okp
            if okp and ok:
                d["wf-p0"] = wf(cx.pre(a.p0))
                d["p0-covers-the-sites-of-ham"] = Implies(present_any(cx.pre(a.ham)["layers"]),
                                                          present_any(cx.pre(a.p0)["layers"]))
        return d

    def fresh_result(self, cx, a, case):
        """callee use (DMRGX.__init__): new objects of the right shape; the ensures pin their contents"""
        H = cx.pre(a.ham)
        if a.p0 is not None:
            K = cx.pre(a.p0)
        else:
            K = dict(cls="vec", _site_ind_id=lit("k{}"), cyclic=H["cyclic"], L=H["L"],
                     layers=(Layer("rand_state", ("site",), (lit("k{}"),), z3.BoolVal(False), cx.Bool("rs_present")),))
        k = cx.new_obj("TN", **fresh_like(cx, K, "k"))
        b = cx.new_obj("TN", **fresh_like(cx, K, "b"))
        h = cx.new_obj("TN", **fresh_like(cx, H, "h"))
        e = cx.new_obj("TN", cls="plain", cyclic=H["cyclic"], L=H["L"],
                       layers=cx.fields(b)["layers"] + cx.fields(h)["layers"] + cx.fields(k)["layers"])
        u = fresh_id(cx)
        cx.assume(cx.fields(b)["_site_ind_id"] == u)
        f = cx.fields(a.self)
        f.update(_k=k, _b=b, ham=h, TN_energy=e, cyclic=H["cyclic"], L=H["L"], energies=[], local_energies=[],
                 total_energies=[])
        return None

    def ensures(self, a, r, cx, case):
        S = cx.fields(a.self)
        d = {"state-ham-and-energy-network-set": all(is_tn(S.get(k)) for k in ("_k", "_b", "ham", "TN_energy")),
             "returns-none": r is None}
        if not d["state-ham-and-energy-network-set"]:
            return d
        K, B, H, E = (cx.fields(S[k]) for k in ("_k", "_b", "ham", "TN_energy"))
        Hin = cx.pre(a.ham)
        news = [S["_k"], S["_b"], S["ham"]]
        d["internal-networks-are-new-objects"] = all(x.oid not in cx.pre_heap for x in news) and \
            len({x.oid for x in news}) == 3
        d["ham-untouched"] = same_state(cx.fields(a.ham), Hin)
        d["kinds"] = K["cls"] == "vec" and B["cls"] == "vec" and H["cls"] == "op"
        if not d["kinds"] or len(K["layers"]) != 1 or len(B["layers"]) != 1 or len(H["layers"]) != 1:
            d["single-layers"] = False
            return d
        lk, lb, lh = K["layers"][0], B["layers"][0], H["layers"][0]
        olds = [Hin["_upper_ind_id"], Hin["_lower_ind_id"]]
        if a.p0 is not None:
            Pin = cx.pre(a.p0)
            olds.append(Pin["_site_ind_id"])
            d["p0-untouched"] = same_state(cx.fields(a.p0), Pin)
            d["ket-keeps-its-site-id"] = K["_site_ind_id"] == Pin["_site_ind_id"]
            d["ket-is-p0-unconjugated"] = And(lk.conj == Pin["layers"][0].conj, lk.present == Pin["layers"][0].present)
        else:
            d["ket-is-a-fresh-unconjugated-state"] = Not(lk.conj)
        d["ket-covers-ham"] = Implies(lh.present, lk.present)
        d["bra-is-the-conjugate-of-ket"] = And(lb.conj == Not(lk.conj), lb.present == lk.present)
        d["ham-is-the-given-operator-unconjugated"] = And(lh.conj == Hin["layers"][0].conj,
                                                          lh.present == Hin["layers"][0].present)
        d["wf-ket"], d["wf-bra"], d["wf-ham"] = wf(K), wf(B), wf(H)
        d["bra-joins-upper(rows)"] = And(B["_site_ind_id"] == H["_upper_ind_id"], join_ok(lb, "site", lh, "up"))
        d["ket-joins-lower(columns)"] = And(K["_site_ind_id"] == H["_lower_ind_id"], join_ok(lk, "site", lh, "lo"))
        d["bra-level-is-fresh"] = distinct_from(B["_site_ind_id"], olds + list(LIT.values()))
        d["energy-network-is-(bra|ham|ket)"] = layers_eq(E["layers"], (lb, lh, lk))
        stack_posts(d, "TN_energy", E["layers"])
        if "TN_norm" in S:
            N = cx.fields(S["TN_norm"])
            d["norm-network-is-(bra|eye|ket)"] = len(N["layers"]) == 3 and And(layers_eq((N["layers"][0],), (lb,)),
                                                                                layers_eq((N["layers"][2],), (lk,)))
            stack_posts(d, "TN_norm", N["layers"])
        return d


@register
class DMRGXInit(DMRGContract):
    """DMRGX.__init__: TN_energy2 = <b| H H |k> in the same convention: b on var_ham1's UP leg, var_ham1's LO leg on
    var_ham2's UP leg, var_ham2's LO leg on k"""

    target = f"{DMRGF}::DMRGX.__init__"
    floor = 8

    def mk_inputs(self, cx, case):
        return with_cx(cx, dict(self=cx.new_obj("DMRG"), ham=new_op(cx, "ham"), p0=new_vec(cx, "p0"),
                                bond_dims=cx.Opaque("bond_dims"), cutoffs=cx.Opaque("cutoffs"), bsz=cx.Opaque("bsz")))

    def requires_cx(self, cx, a, case):
        d = REGISTRY[DMRGInit.target].requires_cx(cx, a, NS(name="call", p0="given"))
        if is_tn(a.p0) and "_site_ind_id" in cx.pre(a.p0):
            # the literal "__ham2{}__" is used for the middle level: a state that already uses it makes the setter raise
            d["reserved-id-not-used-by-p0"] = cx.pre(a.p0)["_site_ind_id"] != lit("__ham2{}__")
        return d

    def call(self, cx, name, args, kwargs, node):
        if name == "super().__init__":
            return cx.call_contract(REGISTRY[DMRGInit.target], list(args), kwargs, node, recv=cx.env["self"])
        return super().call(cx, name, args, kwargs, node)

    def ensures(self, a, r, cx, case):
        S = cx.fields(a.self)
        d = {"energy2-network-set": is_tn(S.get("TN_energy2")) and all(is_tn(S.get(k)) for k in ("_k", "_b", "ham"))}
        if not d["energy2-network-set"]:
            return d
        K, B, H, E2 = (cx.fields(S[k]) for k in ("_k", "_b", "ham", "TN_energy2"))
        Hin, Pin = cx.pre(a.ham), cx.pre(a.p0)
        L = E2["layers"]
        d["energy2-network-is-(bra|H|H|ket)"] = len(L) == 4 and And(layers_eq((L[0],), B["layers"]),
                                                                   layers_eq((L[3],), K["layers"]))
        if len(L) != 4:
            return d
        stack_posts(d, "TN_energy2", L)
        if L[1].roles == ("up", "lo") and L[2].roles == ("up", "lo"):
            hin = Hin["layers"][0]
            d["both-operators-are-the-given-ham-unconjugated"] = And(
                *[And(l.conj == hin.conj, l.present == hin.present) for l in (L[1], L[2])])
        d["bra-is-the-conjugate-of-ket"] = L[0].conj == Not(L[3].conj)
        d["ket-is-p0-unconjugated"] = L[3].conj == Pin["layers"][0].conj
        d["ket-keeps-its-site-id"] = K["_site_ind_id"] == Pin["_site_ind_id"]
        d["ham-and-p0-untouched"] = And(same_state(cx.fields(a.ham), Hin), same_state(cx.fields(a.p0), Pin))
        # the first energy network of the base class is still <b|ham|k>
        stack_posts(d, "TN_energy", cx.fields(S["TN_energy"])["layers"])
        return d


# ------------------------------------------------------------------------------------------------------------
# C09 / C13: MatrixProductState.partial_trace_to_mpo  (and the 1D override of reindex_sites it goes through)
# ------------------------------------------------------------------------------------------------------------




class RMap:
    """a label -> label dict filled inside a loop over the kept sites.  Ghost: ``ok`` (every entry maps id.format(old) to
    the SAME id.format(new) for the (new, old) pair of its iteration) and, per tracked id, the number of such entries"""

    def __init__(self, ok, counts):
        self.ok, self.counts = ok, dict(counts)  # counts: {name: (id, z3 Int)}


def rmap_of(v, tracked):
    """view of a loop-carried dict: the python dict before the loop ({}), an RMap inside / after it"""
    if isinstance(v, RMap):
        return v
    if isinstance(v, dict) and not v:
        return RMap(z3.BoolVal(True), {k: (i, z3.IntVal(0)) for k, i in tracked.items()})
    raise Unsupported(f"loop-carried map {v!r}")


class OneD(LabelContract):
    """1D classes: reindex_sites is the override of TensorNetwork1DVector (accepts slices)"""

    methods = dict(LabelContract.methods, reindex_sites=f"{TN1D}::TensorNetwork1DVector.reindex_sites")

    def call(self, cx, name, args, kwargs, node):
        if name == "__isinstance__":
            v, cname = args
            if cname == "slice":
                return isinstance(v, SliceSet)
            if cname == "Tensor" and is_tn(v):
                return False  # (a fully contracted network is wrapped again by as_network: same labels)
            raise Unsupported(f"isinstance(..., {cname})")
        if name == "sorted" and isinstance(args[0], SiteSet):
            r = SiteSet(args[0].has, "sorted " + args[0].note)
            r.size = self.size_of(cx, args[0])  # same sites, same number of them
            return r
        if name in ("max", "min") and len(args) == 1 and isinstance(args[0], SiteSet):
            return cx.Int(name + "_site")
        if name == "len" and isinstance(args[0], SiteSet):
            return self.size_of(cx, args[0])
        if name == "enumerate" and isinstance(args[0], SiteSet):
            at = z3.Function("keep_at", z3.IntSort(), z3.IntSort())
            return SymIter(self.size_of(cx, args[0]), lambda t: (t, at(t)))
        if name == "__contains__" and isinstance(args[0], SiteSet):
            return z3.Function("site_in", z3.IntSort(), z3.BoolSort())(args[1]) if is_z3(args[1]) else cx.Bool("site_in")
        if name == "__setitem__" and isinstance(args[0], RMap):
            m, k, v = args
            if not (isinstance(k, Label) and isinstance(v, Label)):
                raise Unsupported("rescale map entry that is not label -> label")
            new, old = cx.env.get("new"), cx.env.get("old")
            good = And(k.fam == v.fam, k.site == old, v.site == new)
            m.ok = And(m.ok, good)
            m.counts = {nm: (i, c + If(And(good, k.fam == i), 1, 0)) for nm, (i, c) in m.counts.items()}
            return None
        if name == "super().reindex_sites":
            return cx.call_contract(REGISTRY[ReindexSites.target], list(args), kwargs, node, recv=cx.env["self"])
        return super().call(cx, name, args, kwargs, node)

    def size_of(self, cx, s):
        if not hasattr(s, "size"):
            s.size = cx.Int("n_keep")
            cx.assume(s.size >= 0)
        return s.size

    def tn_method(self, cx, m, tn, args, kwargs, node):
        f = cx.fields(tn)
        if m == "slice2sites":
            if not isinstance(args[0], SliceSet):
                raise PyRaise("AttributeError", node.lineno)  # (uses slice.start / .stop / .step)
            r = SiteSet(args[0].has, "sites of the slice")
            r.size = self.size_of(cx, args[0])
            return r
        if m == "site_tag":
            return Label(f["_site_tag_id"], args[0])
        if m == "as_network":
            return tn
        if m == "view_as_":
            # leaf: casts the network to the class and stores the given properties (no relabelling)
            if not (isinstance(args[0], Marker) and args[0].name == "MatrixProductOperator"):
                raise Unsupported("view_as_ of another class")
            for k in [k for k in f if k in ("_site_ind_id",)]:
                del f[k]
            f.update(cls="op", _upper_ind_id=as_id(cx, kwargs["upper_ind_id"]),
                     _lower_ind_id=as_id(cx, kwargs["lower_ind_id"]), _site_tag_id=kwargs["site_tag_id"],
                     L=kwargs["L"], cyclic=kwargs["cyclic"])
            return tn
        return super().tn_method(cx, m, tn, args, kwargs, node)

    def attr(self, cx, base, attr, node):
        if is_tn(base) and attr == "site_tag_id":
            return cx.fields(base)["_site_tag_id"]
        return super().attr(cx, base, attr, node)

    def leaf_reindex(self, cx, tn, m, inplace, node):
        if isinstance(m, RMap) or (isinstance(m, dict) and not m):
            # a site renumbering old -> new inside each id: the label FAMILIES on every leg are unchanged
            if isinstance(m, RMap):
                cx.oblige(f"call-pre@{node.lineno}:reindex:renumbering-keeps-every-label-in-its-family", "call-pre", m.ok,
                          node.lineno)
            if not inplace:
                return copy_obj(cx, tn)
            cx.fields(tn)["renumbered_by"] = m
            return tn
        return super().leaf_reindex(cx, tn, m, inplace, node)


@register
class ReindexSites1D(OneD):
    """TensorNetwork1DVector.reindex_sites: as the generic one; a slice stands for its sites"""

    target = f"{TN1D}::TensorNetwork1DVector.reindex_sites"
    floor = 10

    def cases(self):
        return [NS(name=f"where={w},inplace={i}", where=w, inplace=i) for w in ("None", "slice", "given")
                for i in (True, False)]

    def case_of_call(self, cx, a):
        w = "None" if a.where is None else ("slice" if isinstance(a.where, SliceSet) else "given")
        if not isinstance(a.inplace, bool):
            raise Unsupported("symbolic inplace")
        return NS(name="call", where=w, inplace=a.inplace)

    def mk_inputs(self, cx, case):
        w = {"None": None, "slice": SliceSet(cx.Bool("s_in_slice"), "slice"),
             "given": SiteSet(cx.Bool("s_in_where"), "where")}[case.where]
        return with_cx(cx, dict(self=general_net(cx, "vec", "T"), new_id=mk_id(cx, "new_id"), where=w,
                                inplace=case.inplace))

    def modifies(self, a, case):
        return [(a.self, ["layers"])] if case.inplace else []

    def fresh_result(self, cx, a, case):
        return a.self if case.inplace else cx.new_obj("TN", **fresh_like(cx, cx.pre(a.self), "ri"))

    def ensures(self, a, r, cx, case):
        return ReindexSites.ensures(REGISTRY[ReindexSites.target], a, r, cx, case)


@register
class PartialTraceToMPO(OneD):
    """partial_trace_to_mpo(keep, upper_ind_id, rescale_sites): rho = tr_rest |psi><psi| as an MPO whose declared UPPER id
    (rows) labels the UNCONJUGATED layer and whose LOWER id (columns) the conjugated layer on every kept site; on the
    other sites the two layers share their label (traced)"""

    target = f"{TN1D}::MatrixProductState.partial_trace_to_mpo"
    floor = 60

    def cases(self):
        return [NS(name=f"keep={k},rescale={r}", keep=k, rescale=r) for k in ("seq", "slice") for r in (True, False)]

    def mk_inputs(self, cx, case):
        keep = (SliceSet if case.keep == "slice" else SiteSet)(cx.Bool("s_kept"), "keep")
        return with_cx(cx, dict(self=new_vec(cx, "psi"), keep=keep, upper_ind_id=mk_id(cx, "bra_id"),
                                rescale_sites=case.rescale))

    def requires_cx(self, cx, a, case):
        P = cx.pre(a.self)
        return {"wf-psi": wf(P), "bra-id-differs-from-site-id": as_id(cx, a.upper_ind_id) != P["_site_ind_id"]}

    def tracked(self, v):
        P = v.cx.pre(v.old.self)
        return ({"site": P["_site_ind_id"], "bra": as_id(v.cx, v.old.upper_ind_id)}, {"tag": P["_site_tag_id"]})

    def inv_rescale(self, v):
        ti, tt = self.tracked(v)
        reind, retag = rmap_of(v.reind, ti), rmap_of(v.retag, tt)
        d = {"renumbering-keeps-families": And(reind.ok, retag.ok)}
        for nm, (i, c) in list(reind.counts.items()) + list(retag.counts.items()):
            d[f"one-entry-per-kept-site:{nm}"] = c == v._it1
        d.update(self.frame_inv("loop1")(v))
        return d

    def retype(self, which):
        def mk(cx):
            P = cx.pre(cx.old.self)
            tr = {"site": P["_site_ind_id"], "bra": as_id(cx, cx.old.upper_ind_id)} if which == "reind" else \
                {"tag": P["_site_tag_id"]}
            return RMap(cx.Bool(f"{which}_ok"), {k: (i, cx.Int(f"{which}_n_{k}")) for k, i in tr.items()})

        return mk

    @property
    def loops(self):
        return {0: Loop("for i in self.gen_sites_present()", self.frame_inv("loop0")),
                1: Loop("for (new, old) in enumerate(keep)", self.inv_rescale,
                        retype={"reind": self.retype("reind"), "retag": self.retype("retag")})}

    def ensures(self, a, r, cx, case):
        d = {"result-is-network": is_tn(r)}
        if not is_tn(r):
            return d
        P, R = cx.pre(a.self), cx.fields(r)
        psi = P["layers"][0]
        kept, bra_id = a.keep.has, as_id(cx, a.upper_ind_id)
        d["psi-untouched"] = same_state(cx.fields(a.self), P)
        d["result-is-a-new-operator"] = r.oid not in cx.pre_heap and R["cls"] == "op"
        if R["cls"] != "op" or len(R["layers"]) != 2 or any(l.roles != ("site",) for l in R["layers"]):
            d["result-holds-two-copies-of-psi"] = False
            return d
        l0, l1 = R["layers"]
        d["one-unconjugated-one-conjugated-layer"] = And(l0.conj != l1.conj, l0.present == psi.present,
                                                         l1.present == psi.present)
        for j, l in enumerate((l0, l1)):
            d[f"rows:upper-id-on-the-unconjugated-layer[{j}]"] = Implies(
                And(psi.present, kept, l.conj == psi.conj), l.slot("site") == R["_upper_ind_id"])
            d[f"columns:lower-id-on-the-conjugated-layer[{j}]"] = Implies(
                And(psi.present, kept, l.conj != psi.conj), l.slot("site") == R["_lower_ind_id"])
        d["traced-sites-share-their-label"] = Implies(And(psi.present, Not(kept)), l0.slot("site") == l1.slot("site"))
        d["upper-and-lower-ids-differ"] = R["_upper_ind_id"] != R["_lower_ind_id"]
        d["declared-ids-are-(site-id,bra-id)"] = And(R["_upper_ind_id"] == P["_site_ind_id"], R["_lower_ind_id"] == bra_id)
        d["tag-id-kept"] = R["_site_tag_id"] == P["_site_tag_id"]
        if case.rescale:
            m = R.get("renumbered_by")
            d["kept-sites-renumbered-in-both-ids"] = isinstance(m, RMap) and And(
                m.ok, *[c == self.size_of(cx, a.keep) for _, (i, c) in m.counts.items()])
            d["length-is-number-of-kept-sites"] = R["L"] == self.size_of(cx, a.keep)
        else:
            d["sites-keep-their-numbers"] = "renumbered_by" not in R
            d["length-kept"] = R["L"] == P["L"]
        return d
