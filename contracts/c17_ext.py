"""C17 (extension) -- discrete bookkeeping around the eigen/singular/exponential solvers.

E1 (symbolic execution of the real source, z3):
  autoblock.subselect        out[i, j] == A[p[i], p[j]] for every (i, j), shape (len p, len p), dtype follows A
  autoblock.subselect_set    A[p[i], p[j]] == B[i, j] for every (i, j); every entry outside rows x cols of p untouched
  base_linalg._rel_window_to_abs_window   centre / lower / upper edge of the relative window (real arithmetic)
  base_linalg.choose_backend the auto-selected backend can serve the request (never the dense solver for an operator
                              known only through its action, never slepc without slepc or with a LinearOperator metric)
Providers (`fdx`: the REAL functions are called on their complete finite option domain with recording stand-ins for
the numerical leaves; `frame`: ast analyses of the real source): see provider()."""

import ast
import os
import time

import z3

from vf.pyvc import (And, Arr, Contract, If, Implies, Loop, NS, Not, Or, Opaque, R, V, Z, register)

AB = "quimb/linalg/autoblock.py"
BL = "quimb/linalg/base_linalg.py"


# =============================================================================================================
# E1: autoblock.subselect / subselect_set
# =============================================================================================================

class _Sel(Contract):
    property_ids = ("C17",)
    safety = True

    def _common(self, cx):
        d, dp = cx.Int("d"), cx.Int("dp")
        cx.assume(And(d >= 1, dp >= 0))
        A = Arr(cx.Array("A", z3.IntSort(), z3.IntSort(), V), (d, d))
        p = Arr(cx.Array("p", z3.IntSort(), z3.IntSort()), (dp,))
        ki, kj = cx.Int("ki"), cx.Int("kj")  # skolem position inside the block (arbitrary => all)
        cx.ghost.update(d=d, dp=dp, ki=ki, kj=kj, A0=A, p=p)
        return d, dp, A, p, ki, kj

    def attr(self, cx, base, attr, node):
        if isinstance(base, Arr) and attr == "dtype":
            return ("dtype-of", str(base.a))
        return NotImplemented


@register
class Subselect(_Sel):
    target = f"{AB}::subselect"
    floor = 8

    def inputs(self, cx, case):
        d, dp, A, p, ki, kj = self._common(cx)
        for c in self._req(cx).values():
            cx.assume(c)
        return dict(A=A, p=p)

    def _req(self, cx):
        g = NS(cx.ghost)
        x = z3.Int("x!q")
        return {"p-in-range": z3.ForAll([x], Implies(And(0 <= x, x < g.dp), And(0 <= g.p.get([x]), g.p.get([x]) < g.d))),
                "skolem": And(0 <= g.ki, g.ki < g.dp, 0 <= g.kj, g.kj < g.dp)}

    def call(self, cx, name, args, kwargs, node):
        if name == "np.empty":
            shp = tuple(args[0])
            cx.ghost["out_dtype"] = kwargs.get("dtype", "float64 (numpy default)")
            return Arr(cx.Array("out", z3.IntSort(), z3.IntSort(), V), shp)
        return NotImplemented

    @staticmethod
    def _done(v, g, row_lt, extra=None):
        out, A0, p = v.out, g.A0, g.p
        hit = g.ki < row_lt
        if extra is not None:
            hit = Or(hit, extra)
        return Implies(hit, out.get([g.ki, g.kj]) == A0.get([p.get([g.ki]), p.get([g.kj])]))

    def _inv0(self, v):
        g = NS(v.cx.ghost)
        return {"range": And(0 <= v.i, v.i <= g.dp), "rows-done": self._done(v, g, v.i),
                "shape": And(*[s is t or Z(s).eq(Z(t)) for s, t in zip(v.out.shape, (g.dp, g.dp))])}

    def _inv1(self, v):
        g = NS(v.cx.ghost)
        return {"range": And(0 <= v.j, v.j <= g.dp, 0 <= v.i, v.i < g.dp),
                "rows-done+row-prefix": self._done(v, g, v.i, And(g.ki == v.i, g.kj < v.j)),
                "shape": And(*[s is t or Z(s).eq(Z(t)) for s, t in zip(v.out.shape, (g.dp, g.dp))])}

    @property
    def loops(self):
        return {0: Loop("for i in range(dp)", inv=self._inv0), 1: Loop("for j in range(dp)", inv=self._inv1)}

    def ensures(self, a, r, cx, case):
        g = NS(cx.ghost)
        ok = isinstance(r, Arr) and r.ndim == 2
        d = {"returns-2d-array": ok}
        if not ok:
            return d
        d["shape-is-(len p, len p)"] = And(Z(r.shape[0]) == g.dp, Z(r.shape[1]) == g.dp)
        d["out[i,j]==A[p[i],p[j]]"] = r.get([g.ki, g.kj]) == g.A0.get([g.p.get([g.ki]), g.p.get([g.kj])])
        # a complex hermitian block must not be truncated to a real array
        d["dtype-follows-A"] = cx.ghost.get("out_dtype") == ("dtype-of", str(g.A0.a))
        return d


@register
class SubselectSet(_Sel):
    target = f"{AB}::subselect_set"
    floor = 8

    def inputs(self, cx, case):
        d, dp, A, p, ki, kj = self._common(cx)
        B = Arr(cx.Array("B", z3.IntSort(), z3.IntSort(), V), (dp, dp))
        fr, fc = cx.Int("fr"), cx.Int("fc")  # skolem entry outside the block (frame)
        cx.ghost.update(B=B, fr=fr, fc=fc)
        for c in self._req(cx).values():
            cx.assume(c)
        return dict(A=A, B=B, p=p)

    def _req(self, cx):
        g = NS(cx.ghost)
        x, y = z3.Ints("x!q y!q")
        P = lambda t: g.p.get([t])  # noqa: E731
        return {"p-in-range": z3.ForAll([x], Implies(And(0 <= x, x < g.dp), And(0 <= P(x), P(x) < g.d))),
                # a block lists each basis index once (compute_blocks returns sorted sets)
                "p-injective": z3.ForAll([x, y], Implies(And(0 <= x, x < y, y < g.dp), P(x) != P(y))),
                "skolem": And(0 <= g.ki, g.ki < g.dp, 0 <= g.kj, g.kj < g.dp),
                "skolem-frame": And(0 <= g.fr, g.fr < g.d, 0 <= g.fc, g.fc < g.d,
                                    Or(z3.ForAll([x], Implies(And(0 <= x, x < g.dp), P(x) != g.fr)),
                                       z3.ForAll([x], Implies(And(0 <= x, x < g.dp), P(x) != g.fc))))}

    @staticmethod
    def _state(v, g, row_lt, extra=None):
        A, p = v.A, g.p
        hit = g.ki < row_lt
        if extra is not None:
            hit = Or(hit, extra)
        return {"block-written": Implies(hit, A.get([p.get([g.ki]), p.get([g.kj])]) == g.B.get([g.ki, g.kj])),
                "frame": A.get([g.fr, g.fc]) == g.A0.get([g.fr, g.fc])}

    def _inv0(self, v):
        g = NS(v.cx.ghost)
        return dict(self._state(v, g, v.i), range=And(0 <= v.i, v.i <= g.dp))

    def _inv1(self, v):
        g = NS(v.cx.ghost)
        return dict(self._state(v, g, v.i, And(g.ki == v.i, g.kj < v.j)),
                    range=And(0 <= v.j, v.j <= g.dp, 0 <= v.i, v.i < g.dp))

    @property
    def loops(self):
        return {0: Loop("for i in range(dp)", inv=self._inv0), 1: Loop("for j in range(dp)", inv=self._inv1)}

    def ensures(self, a, r, cx, case):
        g = NS(cx.ghost)
        A = cx.env["A"]
        return {"returns-None": r is None,
                "A[p[i],p[j]]==B[i,j]": A.get([g.p.get([g.ki]), g.p.get([g.kj])]) == g.B.get([g.ki, g.kj]),
                "outside-the-block-untouched": A.get([g.fr, g.fc]) == g.A0.get([g.fr, g.fc])}


# =============================================================================================================
# E1: base_linalg._rel_window_to_abs_window
# =============================================================================================================

@register
class RelWindow(Contract):
    target = f"{BL}::_rel_window_to_abs_window"
    property_ids = ("C17",)
    floor = 3
    safety = True

    def cases(self):
        return [NS(name="w_sz=None", sz=False), NS(name="w_sz=given", sz=True)]

    def inputs(self, cx, case):
        return dict(el_min=cx.Real("el_min"), el_max=cx.Real("el_max"), w_0=cx.Real("w_0"),
                    w_sz=cx.Real("w_sz") if case.sz else None)

    def requires(self, a, case):
        return {"spectrum-ordered": a.el_min <= a.el_max}

    def ensures(self, a, r, cx, case):
        rng = a.el_max - a.el_min
        c = r[0] if case.sz else r
        if case.sz:
            ok = isinstance(r, tuple) and len(r) == 3
            if not ok:
                return {"returns-(centre, lower, upper)": False}
        elif isinstance(r, tuple):
            return {"returns-centre-only": False}
        d = {"centre-is-min+w0*range": R(c) == a.el_min + a.w_0 * rng,
             "centre-inside-spectrum-for-w0-in-[0,1]": Implies(And(0 <= a.w_0, a.w_0 <= 1),
                                                               And(a.el_min <= R(c), R(c) <= a.el_max))}
        if case.sz:
            d["window-symmetric-about-centre"] = R(r[1]) + R(r[2]) == 2 * R(c)
            d["window-width-is-w_sz*range"] = R(r[2]) - R(r[1]) == a.w_sz * rng
            d["lower<=upper-for-w_sz>=0"] = Implies(a.w_sz >= 0, R(r[1]) <= R(r[2]))
        return d


# =============================================================================================================
# E1: base_linalg.choose_backend
# =============================================================================================================

@register
class ChooseBackend(Contract):
    target = f"{BL}::choose_backend"
    property_ids = ("C17",)
    floor = 20
    safety = True

    def cases(self):
        return [NS(name=f"A={ak},B={bk},int_eps={ie},slepc={sl}", A=ak, B=bk, int_eps=ie, slepc=sl)
                for ak in ("dense", "sparse", "linop") for bk in ("None", "dense", "linop") for ie in (False, True)
                for sl in (False, True)]

    def inputs(self, cx, case):
        n, k, nnz = cx.Int("n"), cx.Int("k"), cx.Int("nnz")
        cx.assume(And(n >= 1, nnz >= 0))
        cx.ghost.update(n=n, k=k, nnz=nnz)
        A = cx.new_obj("op", rep=case.A)
        B = None if case.B == "None" else cx.new_obj("op", rep=case.B)
        return dict(A=A, k=k, int_eps=case.int_eps, B=B)

    def requires(self, a, case):
        return {"k>=1": a.k >= 1}

    def attr(self, cx, base, attr, node):
        if base is None and attr == "SLEPC4PY_FOUND":
            return cx.case.slepc
        if base is None and attr in ("spla",):
            return NS(_mod="spla")
        if isinstance(base, NS) and base.get("_mod") == "spla" and attr == "LinearOperator":
            return "spla.LinearOperator"
        if getattr(base, "kind", None) == "op":
            if attr == "shape":
                return (cx.ghost["n"], cx.ghost["n"])
            if attr == "nnz" and cx.fields(base)["rep"] == "sparse":
                return cx.ghost["nnz"]
        return NotImplemented

    def call(self, cx, name, args, kwargs, node):
        if name == "__isinstance__" and args[1] == "spla.LinearOperator":
            x = args[0]
            return x is not None and cx.fields(x)["rep"] == "linop"
        if name == "issparse":
            return cx.fields(args[0])["rep"] == "sparse"
        return NotImplemented

    def ensures(self, a, r, cx, case):
        g = NS(cx.ghost)
        d = {"returns-a-backend-name": isinstance(r, str) and r in ("NUMPY", "SCIPY", "SLEPC", "SLEPC-NOMPI")}
        if not d["returns-a-backend-name"]:
            return d
        linop = case.A == "linop" or case.B == "linop"
        small = R(g.n) * R(g.n) < R(10000 if case.int_eps else 2000) * R(g.k)
        # the dense solver needs the matrix: never for operators known only through their action
        d["dense-solver-never-for-linear-operators"] = (r != "NUMPY") or (not linop)
        d["dense-solver-iff-small-or-large-fraction"] = (small == (r == "NUMPY")) if not linop else True
        d["slepc-only-if-installed"] = (not r.startswith("SLEPC")) or case.slepc
        d["slepc-never-with-linear-operator-metric"] = (not r.startswith("SLEPC")) or case.B != "linop"
        d["mpi-pool-only-for-big-sparse"] = Implies(r == "SLEPC", And(case.A == "sparse", g.nnz > 10000))
        if r != "NUMPY":
            d["iterative-choice"] = (r == "SCIPY") == (not case.slepc or case.B == "linop")
        return d


# =============================================================================================================
# Providers: fdx (real functions on their complete finite option domain, numerical leaves replaced by recorders)
#            frame (ast analyses of the real source)
# =============================================================================================================

def _ob(fn, label, kind, ok, t0, model=None, backend=None):
    from vf.framework import ObResult
    return ObResult(id=f"{fn}::{label}", kind=kind, status="discharged" if ok else "failed",
                    backend=backend or ("exhaustive" if kind == "fdx" else "ast"), solver_s=time.time() - t0,
                    function=fn, model=None if ok else model, engine="fdx" if kind == "fdx" else "E4")


class _Patch:
    """temporarily replace module globals / dict entries of the REAL module"""

    def __init__(self):
        self.undo = []

    def attr(self, mod, name, val):
        self.undo.append((setattr, mod, name, getattr(mod, name)))
        setattr(mod, name, val)

    def item(self, dct, key, val):
        self.undo.append((dict.__setitem__, dct, key, dct[key]))
        dct[key] = val

    def __enter__(self):
        return self

    def __exit__(self, *exc):
        for f, o, k, v in reversed(self.undo):
            f(o, k, v)
        return False


class _Sentinel:
    def __init__(self, name):
        self.name = name

    def __repr__(self):
        return f"<{self.name}>"


_RULES = [None, "SA", "LA", "LM", "SM", "SR", "LR", "SI", "LI", "TM", "TR", "TI"]


def _fdx_eigensystem_partial(bl, np, spla):
    fn = f"{BL}::eigensystem_partial"
    t0 = time.time()
    import itertools
    bad = {k: None for k in ("which-default", "settings-threaded", "backend-dispatch", "result-returned",
                             "fallback-to-scipy")}
    dense = np.eye(4)
    linop = spla.aslinearoperator(np.eye(300))
    big = np.eye(100)  # d**2/k = 5000: between the two thresholds (dense solver iff a shift is given)
    linopB = spla.aslinearoperator(np.eye(4))  # a metric known only through its action
    keys = list(bl._EIGS_METHODS)
    backends = [None, "auto", "AUTO"] + keys + [k.lower() for k in keys]
    ncv, tol, v0, B1, extra = (_Sentinel(x) for x in ("ncv", "tol", "v0", "B", "extra"))
    n = 0
    for A, which, sigma, bk, rv, so, ih, B, boom, fb in itertools.product(
            (dense, big, linop), _RULES, (None, 0.25), backends, (True, False), (True, False), (True, False),
            (None, B1, linopB), (False, True), (False, True)):
        if boom and (not rv or not so or ih):  # the failure route does not depend on these: one representative
            continue
        n += 1
        calls = []

        def rec(name, boom=boom):
            def f(A_, **kw):
                calls.append((name, A_, kw))
                if boom and len(calls) == 1:
                    raise RuntimeError("backend failed")
                return ("result-of", name, len(calls))
            return f

        with _Patch() as p:
            for key in keys:
                p.item(bl._EIGS_METHODS, key, rec(key))
            p.attr(bl, "eigs_scipy", rec("SCIPY-fallback"))
            import warnings
            with warnings.catch_warnings():
                warnings.simplefilter("ignore")
                try:
                    out = bl.eigensystem_partial(A, 2, ih, B=B, which=which, return_vecs=rv, sigma=sigma, ncv=ncv,
                                                 tol=tol, v0=v0, sort=so, backend=bk, fallback_to_scipy=fb, opt=extra)
                    exc = None
                except Exception as e:  # noqa
                    out, exc = None, e
        inp = dict(A=type(A).__name__ + str(A.shape), which=which, sigma=sigma, backend=bk, return_vecs=rv, sort=so,
                   isherm=ih, B=repr(B), backend_raises=boom, fallback_to_scipy=fb)
        want_which = which if which is not None else ("SA" if sigma is None else "TR")
        want_bkd = bk.upper() if bk not in (None, "auto", "AUTO") else bl.choose_backend(A, 2, sigma is not None, B=B)
        if not calls:
            bad["backend-dispatch"] = bad["backend-dispatch"] or dict(inp, got="no backend called", exc=repr(exc))
            continue
        name, A_, kw = calls[0]
        if kw.get("which") != want_which:
            bad["which-default"] = bad["which-default"] or dict(inp, forwarded=kw.get("which"), expected=want_which)
        want = dict(k=2, B=B, which=want_which, return_vecs=rv, sigma=sigma, isherm=ih, ncv=ncv, sort=so, tol=tol, v0=v0,
                    opt=extra)
        if A_ is not A or set(kw) != set(want) or any(kw[x] is not want[x] and kw[x] != want[x] for x in want):
            bad["settings-threaded"] = bad["settings-threaded"] or dict(inp, forwarded=repr(kw), expected=repr(want))
        if name != want_bkd:
            bad["backend-dispatch"] = bad["backend-dispatch"] or dict(inp, called=name, expected=want_bkd)
        if not boom:
            if exc is not None or out != ("result-of", name, 1) or len(calls) != 1:
                bad["result-returned"] = bad["result-returned"] or dict(inp, out=repr(out), exc=repr(exc), calls=len(calls))
        else:
            if fb and want_bkd != "SCIPY":
                ok = (exc is None and len(calls) == 2 and calls[1][0] == "SCIPY-fallback" and calls[1][1] is A
                      and calls[1][2] == kw and out == ("result-of", "SCIPY-fallback", 2))
            else:
                ok = isinstance(exc, RuntimeError) and len(calls) == 1
            if not ok:
                bad["fallback-to-scipy"] = bad["fallback-to-scipy"] or dict(inp, out=repr(out), exc=repr(exc),
                                                                            calls=[c[0] for c in calls])
    return [_ob(fn, f"fdx-{k}[{n} option tuples]", "fdx", v is None, t0, v) for k, v in bad.items()]


_ALIASES = {
    # alias: (isherm, return_vecs, pinned kwargs, which piece of the solver result is returned)
    "eig": (False, True, {}, "both"), "eigh": (True, True, {}, "both"),
    "eigvals": (False, False, {}, "values"), "eigvalsh": (True, False, {}, "values"),
    "eigvecs": (False, True, {}, "vectors"), "eigvecsh": (True, True, {}, "vectors"),
    "groundstate": (True, True, {"k": 1, "which": "SA"}, "vectors"),
    "groundenergy": (True, False, {"k": 1, "which": "SA"}, "value0"),
}


def _fdx_aliases(bl):
    out = []
    A, extra = _Sentinel("A"), _Sentinel("extra")
    for alias, (ih, rv, pins, piece) in _ALIASES.items():
        t0 = time.time()
        fn = f"{BL}::{alias}"
        bad = None
        for k in ((-1, None, 0, 3) if not pins else (None,)):
            for sort in (None, True, False):
                calls = []

                def rec(name):
                    def f(A_, **kw):
                        calls.append((name, A_, kw))
                        return (("values", len(calls)), ("vectors", len(calls))) if kw.get("return_vecs", True) \
                            else [("value0", len(calls)), ("value1", len(calls))]
                    return f

                kw = {"opt": extra}
                if k is not None:
                    kw["k"] = k
                if sort is not None:
                    kw["sort"] = sort
                with _Patch() as p:
                    p.attr(bl, "eig_numpy", rec("full"))
                    p.attr(bl, "eigensystem_partial", rec("partial"))
                    try:
                        res, exc = getattr(bl, alias)(A, **kw), None
                    except Exception as e:  # noqa
                        res, exc = None, e
                inp = dict(alias=alias, kwargs=repr(kw))
                kk = pins.get("k", -1 if k is None else k)
                want = dict(isherm=ih, return_vecs=rv, sort=True if sort is None else sort, opt=extra)
                if "which" in pins:
                    want["which"] = pins["which"]
                route = "full" if kk < 0 else "partial"
                if route == "partial":
                    want["k"] = kk
                want_res = {"both": (("values", 1), ("vectors", 1)), "values": [("value0", 1), ("value1", 1)],
                            "vectors": ("vectors", 1), "value0": ("value0", 1)}[piece]
                if exc is not None or len(calls) != 1 or calls[0][0] != route or calls[0][1] is not A \
                        or calls[0][2] != want or res != want_res:
                    bad = bad or dict(inp, exc=repr(exc), calls=repr(calls), expected=repr((route, want)), result=repr(res),
                                      expected_result=repr(want_res))
        out.append(_ob(fn, "fdx-alias-pins-isherm/return_vecs/k/which-and-returns-the-right-piece", "fdx", bad is None, t0, bad))
    # bound_spectrum: (smallest algebraic, largest algebraic), both k=1 on the hermitian values-only route
    t0 = time.time()
    bad = None
    for bk in (None, "scipy"):
        calls = []

        def part(A_, **kw):
            calls.append(kw)
            return [("el", kw.get("which")), ("el-second", kw.get("which"))]

        with _Patch() as p:
            p.attr(bl, "eigensystem_partial", part)
            p.attr(bl, "eig_numpy", lambda *a, **k: (_ for _ in ()).throw(AssertionError("full solve")))
            kw = {"opt": extra}
            if bk:
                kw["backend"] = bk
            try:
                res, exc = bl.bound_spectrum(A, **kw), None
            except Exception as e:  # noqa
                res, exc = None, e
        want = [dict(isherm=True, return_vecs=False, sort=True, k=1, which=w, backend=bk or "auto", opt=extra)
                for w in ("SA", "LA")]
        if exc is not None or res != (("el", "SA"), ("el", "LA")) or sorted(calls, key=lambda c: str(c.get('which'))) != sorted(want, key=lambda c: c['which']):
            bad = bad or dict(backend=bk, exc=repr(exc), result=repr(res), calls=repr(calls))
    out.append(_ob(f"{BL}::bound_spectrum", "fdx-returns-(smallest-algebraic,largest-algebraic)", "fdx", bad is None, t0, bad))
    return out


def _fdx_norm(bl, np):
    import scipy.sparse as sp
    t0 = time.time()
    fn = f"{BL}::norm"
    doc = {2: "2", "2": "2", "spectral": "2", "f": "f", "fro": "f", "t": "t", "nuc": "t", "tr": "t", "trace": "t"}
    bad = None
    dense, sparse = np.eye(3), sp.eye(3, format="csr")
    for ntype, cls in doc.items():
        for A in (dense, sparse):
            calls = []

            def rec(name):
                def f(A_, **kw):
                    calls.append((name, A_, kw))
                    return ("norm", name)
                return f

            with _Patch() as p:
                for nm in ("norm_2", "norm_trace_dense", "norm_fro_dense", "norm_fro_sparse"):
                    p.attr(bl, nm, rec(nm))
                try:
                    res, exc = bl.norm(A, ntype, opt=1), None
                except Exception as e:  # noqa
                    res, exc = None, e
            isp = A is sparse
            want = {"2": "norm_2", "f": "norm_fro_sparse" if isp else "norm_fro_dense",
                    "t": None if isp else "norm_trace_dense"}[cls]
            if want is None:
                ok = isinstance(exc, KeyError) and not calls  # unsupported: raises, never a silently wrong norm
            else:
                ok = exc is None and calls == [(want, A, {"opt": 1})] and res == ("norm", want)
            if not ok:
                bad = bad or dict(ntype=repr(ntype), sparse=isp, exc=repr(exc), calls=repr([c[0] for c in calls]),
                                  expected=want)
    obs = [_ob(fn, "fdx-norm-type-table[9 names x dense/sparse]", "fdx", bad is None, t0, bad)]
    # norm_2 = largest singular value: svds(k=1, return_vecs=False)[0]
    t0 = time.time()
    calls = []

    def svds(A_, **kw):
        calls.append((A_, kw))
        return [("s", 0), ("s", 1)]

    with _Patch() as p:
        p.attr(bl, "svds", svds)
        res = bl.norm_2(dense, opt=1)
    ok = calls == [(dense, dict(k=1, return_vecs=False, opt=1))] and res == ("s", 0)
    obs.append(_ob(f"{BL}::norm_2", "fdx-pins-k=1-values-only-returns-first", "fdx", ok, t0, dict(calls=repr(calls), res=repr(res))))
    return obs


def _fdx_svds(bl, np, spla):
    t0 = time.time()
    fn = f"{BL}::svds"
    bad = None
    keys = list(bl._SVDS_METHODS)
    ncv, extra = _Sentinel("ncv"), _Sentinel("extra")
    n = 0
    for A in (np.eye(4), np.eye(300), spla.aslinearoperator(np.eye(300))):
        for bk in ["auto", "AUTO", None] + keys + [k.lower() for k in keys]:
            for rv in (True, False, None):
                n += 1
                calls = []

                def rec(name):
                    def f(A_, **kw):
                        calls.append((name, A_, kw))
                        return ("result-of", name)
                    return f

                kw = dict(ncv=ncv, opt=extra)
                if bk is not None:
                    kw["backend"] = bk
                if rv is not None:
                    kw["return_vecs"] = rv
                with _Patch() as p:
                    for key in keys:
                        p.item(bl._SVDS_METHODS, key, rec(key))
                    try:
                        res, exc = bl.svds(A, 2, **kw), None
                    except Exception as e:  # noqa
                        res, exc = None, e
                want_b = bl.choose_backend(A, 2, False) if bk in (None, "auto", "AUTO") else bk.upper()
                want = dict(k=2, ncv=ncv, return_vecs=True if rv is None else rv, opt=extra)
                if want_b not in keys:
                    ok = isinstance(exc, KeyError) and not calls
                else:
                    ok = exc is None and len(calls) == 1 and calls[0][0] == want_b and calls[0][1] is A \
                        and calls[0][2] == want and res == ("result-of", want_b)
                if not ok:
                    bad = bad or dict(A=type(A).__name__ + str(A.shape), backend=bk, return_vecs=rv, exc=repr(exc),
                                      calls=repr(calls), expected=repr((want_b, want)))
    return [_ob(fn, f"fdx-backend-dispatch+settings-threaded[{n} option tuples]", "fdx", bad is None, t0, bad)]


def _fdx_fn_dispatch(bl, np):
    """expm / sqrtm: representation x herm flag -> route"""
    import scipy.sparse as sp
    obs = []
    for fname in ("expm", "sqrtm"):
        t0 = time.time()
        bad = None
        for A in (np.diag([1.0, 2.0]), sp.eye(2, format="csr")):
            for herm in (None, True, False):
                calls = []

                def eigh(A_, **kw):
                    calls.append(("eigh", A_, kw))
                    return np.array([1.0, 2.0]), np.eye(2)

                def leaf(name):
                    def f(A_, *a, **kw):
                        calls.append((name, A_, kw))
                        return A_
                    return f

                with _Patch() as p:
                    p.attr(bl, "eigh", eigh)
                    p.attr(bl, "spla", NS(expm=leaf("spla.expm"), LinearOperator=bl.spla.LinearOperator))
                    p.attr(bl, "sla", NS(sqrtm=leaf("sla.sqrtm")))
                    try:
                        res, exc = getattr(bl, fname)(A, **({} if herm is None else {"herm": herm})), None
                    except Exception as e:  # noqa
                        res, exc = None, e
                isp = sp.issparse(A)
                h = herm if herm is not None else (fname == "sqrtm")  # documented defaults: expm False, sqrtm True
                if isp:
                    ok = (isinstance(exc, NotImplementedError) and not calls) if fname == "sqrtm" else \
                        (exc is None and [c[0] for c in calls] == ["spla.expm"] and sp.issparse(res))
                elif not h:
                    ok = exc is None and [c[0] for c in calls] == [("spla." if fname == "expm" else "sla.") + fname] \
                        and calls[0][1] is A
                else:
                    ok = exc is None and calls == [("eigh", A, {})] and getattr(res, "shape", None) == (2, 2)
                if not ok:
                    bad = bad or dict(fn=fname, sparse=isp, herm=herm, exc=repr(exc), calls=repr([c[0] for c in calls]))
        obs.append(_ob(f"{BL}::{fname}", "fdx-representation-x-herm-route", "fdx", bad is None, t0, bad))
    return obs


# ---------------------------------------------------------------------------------------------------- frame (ast)

def _fn_node(relpath, name):
    root = os.environ.get("VERIF_REPO", "/repo")
    tree = ast.parse(open(os.path.join(root, relpath)).read())
    for n in ast.walk(tree):
        if isinstance(n, ast.FunctionDef) and n.name == name:
            return n
    return None


def _u(n):
    return ast.unparse(n) if n is not None else None


def _frame_sqrtm():
    t0 = time.time()
    fn = _fn_node(BL, "sqrtm")
    bad = None
    sq = [c for c in ast.walk(fn) if isinstance(c, ast.Call) and _u(c.func) in ("np.sqrt", "np.emath.sqrt", "sqrt")]
    if not sq:
        bad = dict(reason="no square root of the eigenvalues found in the hermitian branch")
    for c in sq:
        arg = c.args[0] if c.args else None
        complex_arg = (isinstance(arg, ast.Call) and isinstance(arg.func, ast.Attribute) and arg.func.attr == "astype"
                       and arg.args and _u(arg.args[0]) in ("complex", "np.complex128", "'complex128'", "'complex'",
                                                            "np.complex_", "np.cdouble")) \
            or _u(c.func) == "np.emath.sqrt"
        if not complex_arg:
            bad = bad or dict(line=c.lineno, call=_u(c), reason="square root of the REAL eigenvalue array: nan for a "
                              "negative eigenvalue (herm=True is documented for hermitian, not only positive, operators)")
    return [_ob(f"{BL}::sqrtm", "frame-sqrt-taken-on-complex-eigenvalues", "frame", bad is None, t0, bad)]


def _frame_autoblock():
    obs = []
    fn = _fn_node(AB, "_eigh_autoblocked")
    asg = {}
    for n in ast.walk(fn):
        if isinstance(n, ast.Assign) and len(n.targets) == 1:
            asg.setdefault(_u(n.targets[0]), []).append(n)
    # (a) the eigenvector array must admit complex hermitian input: allocated with A's dtype, written only through
    #     plain names (no .real / astype on the way)
    t0 = time.time()
    bad = None
    ev = asg.get("ev", [])
    okalloc = len(ev) == 1 and isinstance(ev[0].value, ast.Call) and (
        (_u(ev[0].value.func) in ("np.zeros_like",) and [_u(a) for a in ev[0].value.args] == ["A"]
         and not ev[0].value.keywords)
        or (_u(ev[0].value.func) == "np.zeros" and [(_k.arg, _u(_k.value)) for _k in ev[0].value.keywords]
            == [("dtype", "A.dtype")]))
    if not okalloc:
        bad = dict(reason="eigenvector array not allocated zero-filled with the dtype of A", got=[_u(x) for x in ev])
    obs.append(_ob(f"{AB}::_eigh_autoblocked", "frame-eigenvector-array-zeroed-with-dtype-of-A", "frame", bad is None, t0, bad))
    # (b) values and vectors of a block are scattered with the SAME index list the block was cut out with
    t0 = time.time()
    bad = None
    loops = [n for n in ast.walk(fn) if isinstance(n, ast.For) and _u(n.iter) == "gs"]
    if len(loops) != 1:
        bad = dict(reason="block loop not found")
    else:
        lp = loops[0]
        g = _u(lp.target)
        body = [_u(s) for s in ast.walk(lp) if isinstance(s, (ast.Assign, ast.Expr))]
        need = [f"(sub_el, sub_ev) = np.linalg.eigh(subselect(A, {g}))", f"el[{g}] = sub_el",
                f"subselect_set(ev, sub_ev, {g})", f"el[{g}[0]] = A[{g}[0], {g}[0]].real", f"ev[{g}[0], {g}[0]] = 1.0"]
        norm = [b.replace("sub_el, sub_ev = ", "(sub_el, sub_ev) = ") for b in body]
        miss = [x for x in need if x not in norm]
        writes = [b for b in norm if b.startswith(("el[", "ev[", "subselect_set("))]
        if miss or len(writes) != 4:
            bad = dict(missing=miss, writes=writes)
    obs.append(_ob(f"{AB}::_eigh_autoblocked", "frame-block-scatter-uses-the-blocks-own-index-list", "frame", bad is None, t0, bad))
    # (c) one permutation sorts values and vector COLUMNS
    t0 = time.time()
    srt = [n for n in ast.walk(fn) if isinstance(n, ast.If) and _u(n.test) == "sort"]
    got = [_u(s) for s in srt[0].body] if len(srt) == 1 else []
    ok = got == ["so = np.argsort(el)", "el[:] = el[so]", "ev[:, :] = ev[:, so]"]
    obs.append(_ob(f"{AB}::_eigh_autoblocked", "frame-one-permutation-for-values-and-vector-columns", "frame", ok, t0, dict(got=got)))
    ret = [_u(n.value) for n in ast.walk(fn) if isinstance(n, ast.Return)]
    obs.append(_ob(f"{AB}::_eigh_autoblocked", "frame-returns-(values,vectors)", "frame", ret == ["(el, ev)"], t0, dict(got=ret)))
    return obs


def provider(tier=None, only=None):
    if only == "frame":  # (selftest shortcut: the ast analyses do not need quimb imported)
        return _frame_sqrtm() + _frame_autoblock() + _frame_eigvalsh_autoblocked()
    import numpy as np
    import scipy.sparse.linalg as spla
    import quimb.linalg.base_linalg as bl
    obs = []
    obs += _fdx_eigensystem_partial(bl, np, spla)
    obs += _fdx_aliases(bl)
    obs += _fdx_norm(bl, np)
    obs += _fdx_svds(bl, np, spla)
    obs += _fdx_fn_dispatch(bl, np)
    obs += _fdx_eigs_scipy(np)
    obs += _fdx_eig_numpy(np)
    obs += _fdx_projection(np)
    obs += _frame_sqrtm()
    obs += _frame_autoblock()
    obs += _frame_eigvalsh_autoblocked()
    return obs


# ---------------------------------------------------------------------------------------------------- eigs_scipy

SL = "quimb/linalg/scipy_linalg.py"


def _fdx_eigs_scipy(np):
    """which/sigma translation for scipy's shift-invert mode, option threading, paired sorting"""
    import itertools
    import quimb.linalg.scipy_linalg as sl
    fn = f"{SL}::eigs_scipy"
    t0 = time.time()
    bad = {k: None for k in ("which-translation(shift-invert)", "settings-threaded", "hermitian-flag-picks-eigsh/eigs",
                             "values-and-vectors-sorted-together")}
    A, B, extra = np.eye(3), _Sentinel("B"), _Sentinel("extra")
    LK = np.array([3.0, 1.0, 2.0])
    VK = np.array([[30.0, 10.0, 20.0], [31.0, 11.0, 21.0], [32.0, 12.0, 22.0]])  # column j belongs to value LK[j]
    n = 0
    rules = _RULES + ["tr", "sa"]
    for which, sigma, ih, rv, so, tol, Bm in itertools.product(rules, (None, 0.3), (True, False), (True, False),
                                                               (True, False), (None, 1e-3), (None, B)):
        n += 1
        calls = []

        def rec(name):
            def f(A_, **kw):
                calls.append((name, A_, kw))
                return (LK.copy(), VK.copy()) if kw.get("return_eigenvectors") else LK.copy()
            return f

        with _Patch() as p:
            p.attr(sl, "spla", NS(eigsh=rec("eigsh"), eigs=rec("eigs"), LinearOperator=sl.spla.LinearOperator))
            try:
                res, exc = sl.eigs_scipy(A, 2, B=Bm, which=which, return_vecs=rv, sigma=sigma, isherm=ih, sort=so, tol=tol,
                                         ncv=extra), None
            except Exception as e:  # noqa
                res, exc = None, e
        inp = dict(which=which, sigma=sigma, isherm=ih, return_vecs=rv, sort=so, tol=tol, B=repr(Bm))
        if exc is not None or len(calls) != 1:
            bad["settings-threaded"] = bad["settings-threaded"] or dict(inp, exc=repr(exc), calls=len(calls))
            continue
        name, A_, kw = calls[0]
        # shift-invert: with a shift sigma scipy's `which` refers to 1 / (lambda - sigma): the eigenvalues NEAREST the
        # target are the LARGEST MAGNITUDE ones there; without a shift the rule goes through unchanged
        if which is None:
            want_which = "SA" if sigma is None else "LM"
        elif sigma is not None and which.upper() in ("TM", "TR", "TI"):
            want_which = "LM"
        else:
            want_which = which
        if kw.get("which") != want_which:
            bad["which-translation(shift-invert)"] = bad["which-translation(shift-invert)"] or dict(
                inp, forwarded=kw.get("which"), expected=want_which)
        want = dict(k=2, M=Bm, which=want_which, sigma=sigma, return_eigenvectors=rv, tol=0 if tol is None else tol, ncv=extra)
        if A_ is not A and not np.array_equal(A_, A) or kw != want:
            bad["settings-threaded"] = bad["settings-threaded"] or dict(inp, forwarded=repr(kw), expected=repr(want))
        if name != ("eigsh" if ih else "eigs"):
            bad["hermitian-flag-picks-eigsh/eigs"] = bad["hermitian-flag-picks-eigsh/eigs"] or dict(inp, called=name)
        lk = np.asarray(res[0] if rv else res)
        order = [1, 2, 0] if so else [0, 1, 2]
        ok = np.array_equal(lk, LK[order]) and (not rv or np.array_equal(np.asarray(res[1]), VK[:, order]))
        if rv:
            ok = ok and isinstance(res, tuple) and len(res) == 2
        if not ok:
            bad["values-and-vectors-sorted-together"] = bad["values-and-vectors-sorted-together"] or dict(inp, result=repr(res))
    return [_ob(fn, f"fdx-{k}[{n} option tuples]", "fdx", v is None, t0, v) for k, v in bad.items()]


# ---------------------------------------------------------------------------------------------------- eig_numpy / autoblock

NL = "quimb/linalg/numpy_linalg.py"


def _fdx_eig_numpy(np):
    import itertools
    import numpy.linalg as nla
    import quimb.linalg.numpy_linalg as nl
    import quimb.linalg.autoblock as ab
    obs = []
    t0 = time.time()
    LK = np.array([3.0, 1.0, 2.0])
    VK = np.array([[30.0, 10.0, 20.0], [31.0, 11.0, 21.0], [32.0, 12.0, 22.0]])  # column j belongs to value LK[j]
    A = np.eye(3)
    # the (return_vecs, isherm) -> numpy routine table itself
    want_tab = {(True, True): nla.eigh, (True, False): nla.eig, (False, True): nla.eigvalsh, (False, False): nla.eigvals}
    badt = {repr(k): getattr(nl._NUMPY_EIG_FUNCS.get(k), "__name__", None) for k, f in want_tab.items()
            if nl._NUMPY_EIG_FUNCS.get(k) is not f}
    obs.append(_ob(f"{NL}::eig_numpy", "fdx-solver-table-(return_vecs,isherm)", "fdx", not badt and len(nl._NUMPY_EIG_FUNCS) == 4,
                   t0, dict(wrong_entries=badt)))
    t0 = time.time()
    bad = {k: None for k in ("routes-by-(return_vecs,isherm)", "values-and-vectors-sorted-together", "autoblock-flags-threaded")}
    for so, ih, rv, au in itertools.product((True, False, None), (True, False, None), (True, False, None), (True, False, None)):
        calls = []

        def rec(key):
            def f(A_):
                calls.append((key, A_))
                return (LK.copy(), VK.copy()) if key[0] else LK.copy()
            return f

        def auto(A_, **kw):
            calls.append(("autoblock", A_, kw))
            return ("autoblocked",)

        kw = {k: v for k, v in dict(sort=so, isherm=ih, return_vecs=rv, autoblock=au).items() if v is not None}
        with _Patch() as p:
            for key in list(nl._NUMPY_EIG_FUNCS):
                p.item(nl._NUMPY_EIG_FUNCS, key, rec(key))
            p.attr(nl, "eigensystem_autoblocked", auto)
            try:
                res, exc = nl.eig_numpy(A, **kw), None
            except Exception as e:  # noqa
                res, exc = None, e
        # documented defaults: sort=True, isherm=True, return_vecs=True, autoblock=False
        so_, ih_, rv_, au_ = (True if so is None else so), (True if ih is None else ih), (True if rv is None else rv), bool(au)
        inp = dict(kwargs=repr(kw))
        if au_:
            if exc is not None or calls != [("autoblock", A, dict(sort=so_, isherm=ih_, return_vecs=rv_))] or res != ("autoblocked",):
                bad["autoblock-flags-threaded"] = bad["autoblock-flags-threaded"] or dict(inp, exc=repr(exc), calls=repr(calls))
            continue
        if exc is not None or len(calls) != 1 or calls[0][0] != (rv_, ih_) or calls[0][1] is not A:
            bad["routes-by-(return_vecs,isherm)"] = bad["routes-by-(return_vecs,isherm)"] or dict(
                inp, exc=repr(exc), calls=repr([c[0] for c in calls]), expected=(rv_, ih_))
            continue
        order = [1, 2, 0] if so_ else [0, 1, 2]
        lk = np.asarray(res[0] if rv_ else res)
        ok = np.array_equal(lk, LK[order]) and (not rv_ or (isinstance(res, tuple) and len(res) == 2
                                                             and np.array_equal(np.asarray(res[1]), VK[:, order])))
        if not ok:
            bad["values-and-vectors-sorted-together"] = bad["values-and-vectors-sorted-together"] or dict(inp, result=repr(res))
    obs += [_ob(f"{NL}::eig_numpy", f"fdx-{k}[81 option tuples]", "fdx", v is None, t0, v) for k, v in bad.items()]
    # eigensystem_autoblocked: flag dispatch
    t0 = time.time()
    badd = None
    for so, rv, ih in itertools.product((True, False, None), (True, False, None), (True, False, None)):
        calls = []

        def eh(A_, **kw):
            calls.append(("eigh", A_, kw))
            return LK, VK

        def evh(A_, **kw):
            calls.append(("eigvalsh", A_, kw))
            return LK

        kw = {k: v for k, v in dict(sort=so, return_vecs=rv, isherm=ih).items() if v is not None}
        with _Patch() as p:
            p.attr(ab, "_eigh_autoblocked", eh)
            p.attr(ab, "_eigvalsh_autoblocked", evh)
            try:
                res, exc = ab.eigensystem_autoblocked(A, **kw), None
            except Exception as e:  # noqa
                res, exc = None, e
        so_, rv_, ih_ = (True if so is None else so), (True if rv is None else rv), (True if ih is None else ih)
        if not ih_:
            ok = isinstance(exc, NotImplementedError) and not calls  # refuses rather than return a wrong spectrum
        elif rv_:
            ok = exc is None and calls == [("eigh", A, dict(sort=so_))] and isinstance(res, tuple) and len(res) == 2 \
                and res[0] is LK and np.array_equal(np.asarray(res[1]), VK)
        else:
            ok = exc is None and calls == [("eigvalsh", A, dict(sort=so_))] and res is LK
        if not ok:
            badd = badd or dict(kwargs=repr(kw), exc=repr(exc), calls=repr([c[0] for c in calls]), result=repr(res))
    obs.append(_ob(f"{AB}::eigensystem_autoblocked", "fdx-flag-dispatch[27 option tuples]", "fdx", badd is None, t0, badd))
    return obs


def _frame_eigvalsh_autoblocked():
    t0 = time.time()
    fn = _fn_node(AB, "_eigvalsh_autoblocked")
    bad = None
    loops = [n for n in ast.walk(fn) if isinstance(n, ast.For) and "gs" in _u(n.iter)]
    if len(loops) != 1:
        bad = dict(reason="block loop not found")
    else:
        lp = loops[0]
        tgt = lp.target
        g = _u(tgt.elts[-1]) if isinstance(tgt, ast.Tuple) else _u(tgt)
        body = [_u(s) for s in ast.walk(lp) if isinstance(s, (ast.Assign, ast.Expr))]
        need = [f"el[{g}[0]] = A[{g}[0], {g}[0]].real", f"el[{g}] = np.linalg.eigvalsh(subselect(A, {g}))"]
        writes = [b for b in body if b.startswith("el[")]
        if sorted(writes) != sorted(need):
            bad = dict(writes=writes, expected=need)
    ret = [_u(n.value) for n in ast.walk(fn) if isinstance(n, ast.Return)]
    if bad is None and sorted(ret) != ["el", "np.sort(el)"]:
        bad = dict(returns=ret)
    alloc = [_u(n.value) for n in ast.walk(fn) if isinstance(n, ast.Assign) and _u(n.targets[0]) == "el"]
    if bad is None and alloc != ["np.empty(d)"]:
        bad = dict(allocation=alloc)
    return [_ob(f"{AB}::_eigvalsh_autoblocked", "frame-block-values-scattered-with-the-blocks-own-index-list-real-output", "frame",
                bad is None, t0, bad)]


# ---------------------------------------------------------------------------------------------------- subspace projection P

class _Tok:
    """a matrix known only as a word in the free *-algebra: product of generators, each possibly transposed and / or
    complex-conjugated.  (X Y)^T = Y^T X^T, conj(X Y) = conj X conj Y, X^H = conj(X)^T -- so P^H, P^T, conj(P) and P are
    four DIFFERENT words: an identity between words holds for all complex matrices iff the words are equal"""
    __array_ufunc__ = None
    __array_priority__ = 1000
    dtype = complex

    def __init__(self, factors, shape):
        self.factors, self.shape = list(factors), tuple(shape)

    @staticmethod
    def gen(name, shape):
        return _Tok([(name, False, False)], shape)

    @property
    def T(self):
        return _Tok([(n, not t, c) for n, t, c in reversed(self.factors)], self.shape[::-1])

    def transpose(self):
        return self.T

    def conj(self):
        return _Tok([(n, t, not c) for n, t, c in self.factors], self.shape)

    conjugate = conj

    @property
    def H(self):
        return self.conj().T

    def __matmul__(self, o):
        if isinstance(o, _Tok):
            return _Tok(self.factors + o.factors, (self.shape[0], o.shape[-1]))
        return _Tok(self.factors + [("array", o)], (self.shape[0], o.shape[-1]))

    def __rmatmul__(self, o):
        return _Tok([("array", o)] + self.factors, (o.shape[0], self.shape[-1]))

    def reshape(self, *shape):
        return self

    def word(self):
        return [f if f[0] != "array" else ("array",) for f in self.factors]


_PDAG_A_P = [("P", True, True), ("A", False, False), ("P", False, False)]


def _fdx_projection(np):
    import itertools
    import quimb as qu
    import quimb.linalg.numpy_linalg as nl
    import quimb.linalg.scipy_linalg as sl
    LK = np.array([3.0, 1.0, 2.0])
    VK = np.array([[30.0, 10.0, 20.0], [31.0, 11.0, 21.0], [32.0, 12.0, 22.0]])
    obs = []

    def judge(fname, seen_A, res, rv, so, exc, extra_ok=True, extra_model=None, which=None):
        if exc is not None:
            return dict(exc=repr(exc))
        if not isinstance(seen_A, _Tok) or seen_A.word() != _PDAG_A_P:
            return dict(reason="operator handed to the solver is not P^dagger A P",
                        got=repr(seen_A.word() if isinstance(seen_A, _Tok) else seen_A), expected=repr(_PDAG_A_P))
        if not extra_ok:
            return extra_model
        if rv:
            order = [1, 2, 0] if so else [0, 1, 2]
            if fname == "eigs_numpy" and not so:  # the dense solver returns the selection in rule order
                order = {"SA": [1, 2, 0], "LA": [0, 2, 1]}[which]
            v = res[1]
            v = v.item() if isinstance(v, np.ndarray) and v.dtype == object and v.ndim == 0 else v
            if not (isinstance(v, _Tok) and v.word() == [("P", False, False), ("array",)]
                    and np.array_equal(v.factors[1][1], VK[:, order]) and np.array_equal(np.asarray(res[0]), LK[order])):
                return dict(reason="vectors not mapped back as P @ v (columns paired with the values)",
                            got=repr(v.word() if isinstance(v, _Tok) else v))
        return None

    for fname, mod in (("eigs_scipy", sl), ("eigs_lobpcg", sl), ("eigs_numpy", nl)):
        t0 = time.time()
        bad = None
        n = 0
        for rv, so, ih, which, lazy in itertools.product((True, False), (True, False), (True, False), ("SA", "LA"), (False, True)):
            if fname == "eigs_lobpcg" and not ih:
                continue
            n += 1
            A, P = _Tok.gen("A", (5, 5)), _Tok.gen("P", (5, 3))
            Parg = qu.Lazy(lambda P=P: P, shape=(5, 3)) if lazy else P
            seen = {}

            def solver(*a, **kw):
                seen["A"] = a[0] if a else kw.get("A")
                seen["kw"] = kw
                many = kw.get("return_eigenvectors", True) if fname == "eigs_scipy" else (rv or fname == "eigs_lobpcg")
                return (LK.copy(), VK.copy()) if many else LK.copy()

            v0 = np.ones((5, 3))
            with _Patch() as p:
                if mod is sl:
                    p.attr(sl, "spla", NS(eigsh=solver, eigs=solver, lobpcg=solver, LinearOperator=sl.spla.LinearOperator))
                else:
                    for key in list(nl._DENSE_EIG_METHODS):
                        p.item(nl._DENSE_EIG_METHODS, key, solver)
                try:
                    kw = dict(which=which, return_vecs=rv, sort=so, isherm=ih, P=Parg)
                    if fname == "eigs_lobpcg":
                        kw["v0"] = v0
                    res, exc = getattr(mod, fname)(A, 3, **kw), None
                except Exception as e:  # noqa
                    res, exc = None, e
            extra_ok, extra_model = True, None
            if fname == "eigs_lobpcg" and exc is None:
                X = seen["kw"].get("X")
                extra_ok = isinstance(X, _Tok) and X.word() == [("P", True, True), ("array",)] and X.factors[1][1] is v0
                extra_model = dict(reason="initial vectors not projected as P^dagger v0",
                                   got=repr(X.word() if isinstance(X, _Tok) else X))
            m = judge(fname, seen.get("A"), res, rv, so, exc, extra_ok, extra_model, which)
            if m is not None:
                bad = bad or dict(m, fn=fname, return_vecs=rv, sort=so, isherm=ih, which=which, lazy_P=lazy)
        relp = SL if mod is sl else NL
        obs.append(_ob(f"{relp}::{fname}", f"fdx-projection-compresses-as-Pdag.A.P-and-maps-vectors-back-by-P[{n} option tuples]",
                       "fdx", bad is None, t0, bad, backend="exhaustive+free-*-algebra-words"))
    return obs
