"""C19 -- sector parsing of quimb/operator/hilbertspace.py (the step between what the user writes as a symmetry sector
and the ranking kernels proved in contracts/c19_ranking.py).

parse_u1u1_sector(sector, nsites, species_regs): for every accepted spelling the result is ((na, ka), (nb, kb)) with
na / nb the number of registers of the FIRST / SECOND species in sorted label order (the order of `species_regs`) and
ka / kb the fillings the user attached to THOSE species -- whatever the key order of a dict sector -- and None exactly
when the request is not a valid U1U1 sector.  valid_u1_sector / valid_z2_sector: the documented acceptance sets.

The registers of a species are a tuple of symbolic length (Arr of shape (na,)): only its length is read."""

import z3

from vf.pyvc import And, Arr, Contract, NS, Not, Or, PyRaise, register

F = "quimb/operator/hilbertspace.py"


class _IntBox:
    """marker for 'a python int whose value is the z3 term' (isinstance(x, int) is True)"""


def _isinstance(v, cname):
    if cname in ("dict",):
        return isinstance(v, dict)
    if cname in ("(tuple, list)", "tuple", "list"):
        return isinstance(v, (tuple, list))
    if cname == "int":
        return z3.is_int(v) if z3.is_expr(v) else (isinstance(v, int) and not isinstance(v, bool))
    raise NotImplementedError(cname)


@register
class ParseU1U1(Contract):
    target = f"{F}::parse_u1u1_sector"
    property_ids = ("C19",)
    floor = 8

    def cases(self):
        out = []
        for regs in ("given", "none"):
            for form in ("dict-sorted", "dict-reversed", "dict-wrong-key", "dict-one-key", "fillings-tuple",
                         "fillings-list", "fillings-3", "explicit", "explicit-list", "triple", "none", "int", "str-pair"):
                out.append(NS(name=f"sector={form},species_regs={regs}", form=form, regs=regs))
        return out

    def inputs(self, cx, case):
        na, nb, ka, kb, ns = (cx.Int(x) for x in ("na", "nb", "ka", "kb", "nsites"))
        xa, xb = cx.Int("xa"), cx.Int("xb")  # sizes written explicitly by the user (explicit forms)
        cx.assume(And(na >= 0, nb >= 0))  # lengths of two tuples
        regs = None
        if case.regs == "given":
            regs = {"a": Arr(cx.Array("ra", z3.IntSort(), z3.IntSort()), (na,)),
                    "b": Arr(cx.Array("rb", z3.IntSort(), z3.IntSort()), (nb,))}
        f = case.form
        sector = {
            "dict-sorted": {"a": ka, "b": kb}, "dict-reversed": {"b": kb, "a": ka}, "dict-wrong-key": {"a": ka, "c": kb},
            "dict-one-key": {"a": ka}, "fillings-tuple": (ka, kb), "fillings-list": [ka, kb], "fillings-3": (ka, kb, kb),
            "explicit": ((xa, ka), (xb, kb)), "explicit-list": [[xa, ka], [xb, kb]], "triple": ((xa, ka), (xb, kb), (xb, kb)),
            "none": None, "int": ka, "str-pair": ("ab", "cd"),
        }[f]
        return dict(sector=sector, nsites=ns, species_regs=regs, _g=NS(na=na, nb=nb, ka=ka, kb=kb, xa=xa, xb=xb, ns=ns))

    def call(self, cx, name, args, kwargs, node):
        if name == "__isinstance__":
            try:
                return _isinstance(args[0], args[1])
            except NotImplementedError:
                return NotImplemented
        if name == "__unpack__":
            # python's unpacking of a non-sequence: None / int are not iterable (TypeError); a str iterates its characters
            v = args[0]
            if v is None or z3.is_expr(v) or isinstance(v, (int, float)):
                raise PyRaise("TypeError", node.lineno)
            if isinstance(v, str):
                return tuple(v)
        return NotImplemented

    def ensures(self, a, result, cx, case):
        g = a._g
        f = case.form
        named = f in ("dict-sorted", "dict-reversed", "fillings-tuple", "fillings-list")
        explicit = f in ("explicit", "explicit-list")
        if (named and case.regs == "given") or explicit:
            A, B = (g.na, g.nb) if named else (g.xa, g.xb)
            valid = And(A + B == g.ns, A >= 0, B >= 0, 0 <= g.ka, g.ka <= A, 0 <= g.kb, g.kb <= B)
            if result is None:
                return {"None only for an invalid request": Not(valid)}
            ok = isinstance(result, tuple) and len(result) == 2 and all(isinstance(p, tuple) and len(p) == 2 for p in result)
            if not ok:
                return {"result has the form ((na, ka), (nb, kb))": False}
            (rna, rka), (rnb, rkb) = result
            return {"a valid request is not rejected": valid,
                    "first pair = (sites of the first species in sorted label order, ITS filling)": And(rna == A, rka == g.ka),
                    "second pair = (sites of the second species, ITS filling)": And(rnb == B, rkb == g.kb)}
        # every other spelling is not a U1U1 sector (or names no sizes while no registers are known)
        return {"not a U1U1 sector -> None": result is None}


@register
class ValidU1(Contract):
    target = f"{F}::valid_u1_sector"
    property_ids = ("C19",)
    floor = 2

    def cases(self):
        return [NS(name="sector=int", kind="int"), NS(name="sector=str", kind="str"), NS(name="sector=None", kind="none")]

    def inputs(self, cx, case):
        k, n = cx.Int("k"), cx.Int("nsites")
        return dict(sector={"int": k, "str": "even", "none": None}[case.kind], nsites=n, _g=NS(k=k, n=n))

    def call(self, cx, name, args, kwargs, node):
        if name == "__isinstance__":
            try:
                return _isinstance(args[0], args[1])
            except NotImplementedError:
                return NotImplemented
        return NotImplemented

    def ensures(self, a, result, cx, case):
        if case.kind != "int":
            return {"only integers are fillings": result is False}
        want = And(0 <= a._g.k, a._g.k <= a._g.n)
        r = result if z3.is_expr(result) else z3.BoolVal(bool(result))
        return {"accepted iff 0 <= k <= nsites (the sector is non-empty: C(n, k) >= 1)": r == want}
