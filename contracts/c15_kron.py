"""C15 -- placement / ownership arithmetic of quimb/core.py (kron, ikron, dim_map, dim_compress), the axis permutation of
calc.partial_transpose and the term coverage of gen.operators.ham_heis.

Approach: *structure-bounded, value-unbounded*.  The NUMBER of subsystems K (and of coordinates M, where a function takes
a list of coordinates) is fixed to each concrete value up to a bound through ``cases()``; every dimension, index, row
number and coordinate stays a symbolic integer.  Products of symbolic dimensions are non-linear integer terms; z3's
non-linear arithmetic discharges them for these K (no axioms about products are assumed).

Functions under contract (see the class docstrings): dynal, gen_matching_dynal, gen_ops_maybe_sliced, kron (ownership
arithmetic), _dim_map_1d / 1dtrim / 1dcyclic / 2d / 2dtrim / 2dcyclic / nd, dim_map, _dim_compressor, dim_compress,
ikron.gen_ops (core.py); partial_transpose (calc.py, all n); ham_heis, ham_heis.gen_term, ham_ising, ham_XY, ham_XXZ
(gen/operators.py, all n, with the coverage lemmas heis-*).  ``provider_leaf_model`` (fdx) compares the abstract model of
the trusted leaves with the real code on a complete finite grid.

Known failures on the unchanged tree (real defects, reproduced natively by ``replay``):
  * _dim_compressor, cases ``dims>=1``: a subsystem of dimension 1 makes the state machine drop blocks / emit a block of
    size 0 (finding C15-b);   * dim_map, 1-d lattice with cyclic=True and trim=True: TypeError (finding C15-f).

Abstract values
  * ``Op``     -- a Kronecker factor seen as a *row window*: factor number, rows [lo, hi) of its ``n`` rows, sparse format.
                  ``op.shape[0] = hi - lo``; ``op[slice(a, b), :]`` is rows [lo+a, lo+b) -- the side condition
                  0 <= a <= b <= hi-lo (numpy neither wraps a negative bound nor clips) is emitted as an ``enc`` obligation.
  * ``KronX``  -- result of the trusted leaf ``_kron_core``: the list of windows of its factors plus a cut [a, b) of its rows.
                  Row s of the right-nested product  A_0 (x) (A_1 (x) (... ))  of the windows is, by the definition of the
                  Kronecker product (row r of A (x) B is (r div rows_B, r mod rows_B)), the tensor product of rows
                  lo_i + t_i of the factors, where (t_i) are the mixed-radix digits of s w.r.t. the window sizes; that is
                  row  fullrow(s) = sum_i (lo_i + t_i) * prod_{j>i} n_j  of the full product.
"""

import itertools

import z3

from vf.pyvc import (And, Arr, Contract, If, Implies, Loop, Max, Min, NS, Not, Or, PyRaise, Unsupported, I, Z, is_int,
                     is_z3, register, REGISTRY)
from vf import lemmas

CORE = "quimb/core.py"
PID = ("C15",)


def PROD(xs):
    """product of a sequence of ints / z3 ints (right nested; the empty product is 1)"""
    r = 1
    for x in reversed(list(xs)):
        r = x if (isinstance(r, int) and r == 1) else x * r
    return r


def SUM(xs):
    r = 0
    for x in xs:
        r = x if (isinstance(r, int) and r == 0) else r + x
    return r


def zeq(a, b):
    """equality of two ints / z3 ints as a python bool or z3 bool"""
    if not is_z3(a) and not is_z3(b):
        return a == b
    return Z(a) == Z(b)


def bases_of(dims):
    """b_i = prod_{j>i} dims_j"""
    return [PROD(dims[i + 1:]) for i in range(len(dims))]


class Base(Contract):
    property_ids = PID

    def call(self, cx, name, args, kwargs, node):
        if name == "prod":
            return PROD(args[0])
        if name == "__isinstance__":
            v, cname = args
            if cname in ("Integral", "int", "numbers.Integral"):
                return is_int(v)
        return NotImplemented


# =====================================================================================================================
# dynal -- digits of x in the mixed radix given by ``bases``
# =====================================================================================================================


@register
class Dynal(Base):
    """generator: the K yielded values d_i satisfy 0 <= d_i < dims_i and sum_i d_i * prod_{j>i} dims_j == x"""

    target = f"{CORE}::dynal"
    floor = 4
    KS = (1, 2, 3, 4)

    def cases(self):
        return [NS(name=f"K={k}", K=k) for k in self.KS]

    def inputs(self, cx, case):
        return dict(x=cx.Int("x"), bases=[cx.Int(f"n{i}") for i in range(case.K)])

    def requires(self, a, case):
        return {"dims>=1": And(*[n >= 1 for n in a.bases]), "0<=x<D": And(0 <= a.x, a.x < PROD(a.bases))}

    def ensures(self, a, r, cx, case):
        ys = list(r) if r is not None else list(getattr(cx, "yielded", []))  # callee use: r is the fresh digit tuple
        K = len(a.bases)
        if len(ys) != K:
            return {"count": False}
        d = {"count": True}
        for i in range(K):
            d[f"digit{i}-range"] = And(0 <= ys[i], ys[i] < a.bases[i])
        d["value"] = SUM(ys[i] * b if is_z3(b) or b != 1 else ys[i] for i, b in enumerate(bases_of(a.bases))) == a.x
        return d

    def case_of_call(self, cx, a):
        return NS(name=f"K={len(a.bases)}", K=len(a.bases))

    def fresh_result(self, cx, a, case):
        if len(a.bases) not in self.KS:
            raise Unsupported(f"dynal used with {len(a.bases)} bases: outside the proved structure bound")
        return tuple(cx.Int(f"dyn{i}") for i in range(len(a.bases)))


# =====================================================================================================================
# gen_matching_dynal -- leading digits of ri and rf up to and including the first that differ
# =====================================================================================================================


def _matching_post(ri, rf, dims, pairs):
    """the pairs are the m+1 leading digits of ri and rf: equal before m, (different at m or m = K-1), in range,
    and what is left of ri / rf after them is smaller than the base of digit m; ri <= rf gives p_m <= q_m"""
    K = len(dims)
    m = len(pairs) - 1
    bs = bases_of(dims)
    d = {"count": 1 <= len(pairs) <= K}
    if not d["count"]:
        return d
    d["prefix-equal"] = And(*[zeq(p, q) for p, q in pairs[:m]])
    d["stops-at-first-difference"] = True if m == K - 1 else Not(zeq(pairs[m][0], pairs[m][1]))
    d["digits-in-range"] = And(*[And(0 <= p, p < dims[i], 0 <= q, q < dims[i]) for i, (p, q) in enumerate(pairs)])
    lead_i = SUM(p * bs[i] for i, (p, q) in enumerate(pairs))
    lead_f = SUM(q * bs[i] for i, (p, q) in enumerate(pairs))
    d["leading-digits-of-ri"] = And(0 <= ri - lead_i, ri - lead_i < bs[m])
    d["leading-digits-of-rf"] = And(0 <= rf - lead_f, rf - lead_f < bs[m])
    d["ordered"] = pairs[m][0] <= pairs[m][1]
    return d


@register
class GenMatchingDynal(Base):
    target = f"{CORE}::gen_matching_dynal"
    floor = 6
    KS = (1, 2, 3, 4)

    def cases(self):
        return [NS(name=f"K={k}", K=k) for k in self.KS]

    def inputs(self, cx, case):
        return dict(ri=cx.Int("ri"), rf=cx.Int("rf"), dims=[cx.Int(f"n{i}") for i in range(case.K)])

    def requires(self, a, case):
        D = PROD(a.dims)
        return {"dims>=1": And(*[n >= 1 for n in a.dims]), "0<=ri<=rf<D": And(0 <= a.ri, a.ri <= a.rf, a.rf < D)}

    def ensures(self, a, r, cx, case):
        pairs = list(r) if r is not None else list(getattr(cx, "yielded", []))
        if not all(isinstance(p, tuple) and len(p) == 2 for p in pairs):
            return {"pairs": False}
        return _matching_post(a.ri, a.rf, a.dims, pairs)

    def apply(self, cx, a, node, case=None):
        """callee use: the number of pairs is decided by the first differing digit -> fork on it"""
        for lab, c in self.requires(a, None).items():
            cx.oblige(f"call-pre@{node.lineno}:gen_matching_dynal:{lab}", "call-pre", c, node.lineno)
        K = len(a.dims)
        if K not in self.KS:
            raise Unsupported(f"gen_matching_dynal used with {K} dims: outside the proved structure bound")
        pairs = []
        for i in range(K):
            p, q = cx.Int(f"md{i}a"), cx.Int(f"md{i}b")
            pairs.append((p, q))
            if i < K - 1 and not cx.decide(p == q, node.lineno):
                break
        for c in _matching_post(a.ri, a.rf, a.dims, pairs).values():
            cx.assume(c)
        return tuple(pairs)


# =====================================================================================================================
# operators as row windows; gen_ops_maybe_sliced; kron(..., ownership=(ri, rf))
# =====================================================================================================================


class Op:
    """Kronecker factor number ``k`` restricted to its rows [lo, hi) (of ``n``); ``fmt``: 'dense' | 'csr' | 'coo'"""

    def __init__(self, k, lo, hi, n, fmt):
        self.k, self.lo, self.hi, self.n, self.fmt = k, lo, hi, n, fmt

    @property
    def rows(self):
        return self.hi if (isinstance(self.lo, int) and self.lo == 0) else self.hi - self.lo

    def __repr__(self):
        return f"Op#{self.k}[{self.lo}:{self.hi} of {self.n}, {self.fmt}]"


class KronX:
    """rows [a, b) of the right-nested Kronecker product of the windows ``ops`` (result of the leaf ``_kron_core``)"""

    def __init__(self, ops, a, b, fmt, kws=None):
        self.ops, self.a, self.b, self.fmt, self.kws = list(ops), a, b, fmt, kws


def py_slice_bounds(lo, hi, R):
    """rows selected by the python / numpy slice [lo:hi] (step 1) of a sequence of R rows: [start, max(start, stop))"""

    def norm(x, default):
        if x is None:
            return default
        return If(x < 0, Max(R + x, 0), Min(x, R))

    start, stop = norm(lo, 0), norm(hi, R)
    return start, Max(start, stop)


class OpsBase(Base):
    """hooks shared by the functions that handle operators"""

    def attr(self, cx, base, attr, node):
        if isinstance(base, (Op, KronX)):
            if attr == "shape":
                rows = base.rows if isinstance(base, Op) else base.b - base.a
                return (rows, cx.Opaque("ncols"))
            if attr == "format":
                return base.fmt
        return NotImplemented

    def call(self, cx, name, args, kwargs, node):
        if name == "itertools.zip_longest":
            xs, ys = [cx.iter_concrete(v, node) for v in args]
            return tuple(itertools.zip_longest(xs, ys))
        if name == "slice":
            return slice(*args)
        if name == "sp.isspmatrix_coo":
            return isinstance(args[0], (Op, KronX)) and args[0].fmt == "coo"
        if name == "issparse":
            return isinstance(args[0], (Op, KronX)) and args[0].fmt != "dense"
        if name in (".tocsr", ".tocoo", ".asformat") and isinstance(args[0], (Op, KronX)):
            x = args[0]
            fmt = {"tocsr": "csr", "tocoo": "coo"}.get(name[1:]) or args[1]
            if x.fmt == "dense":
                raise PyRaise("AttributeError", node.lineno)  # numpy arrays have no sparse conversion methods
            if isinstance(x, Op):
                return Op(x.k, x.lo, x.hi, x.n, fmt)
            return KronX(x.ops, x.a, x.b, fmt, x.kws)
        if name == "__getitem__" and isinstance(args[0], (Op, KronX)):
            x, idx = args
            if not (isinstance(idx, tuple) and len(idx) == 2 and all(isinstance(s, slice) for s in idx)):
                raise Unsupported(f"subscript {idx!r} of an operator")
            rs, cs = [("slice", s.start, s.stop, s.step) for s in idx]  # (engine: a slice in a subscript is a python slice)
            if cs[1:] != (None, None, None) or rs[3] is not None:
                raise Unsupported("column slice / stepped row slice of an operator")
            if x.fmt == "coo":
                raise PyRaise("TypeError", node.lineno)  # scipy: coo matrices are not subscriptable
            if isinstance(x, Op):
                lo, hi = rs[1], rs[2]
                # numpy semantics are exact for 0 <= lo <= hi <= rows (no wrapping of negatives, no clipping)
                cx.oblige(f"enc@{node.lineno}:slice-within-rows", "enc", And(0 <= lo, lo <= hi, hi <= x.rows), node.lineno)
                return Op(x.k, x.lo + lo, x.lo + hi, x.n, x.fmt)
            start, stop = py_slice_bounds(rs[1], rs[2], x.b - x.a)
            return KronX(x.ops, x.a + start, x.a + stop, x.fmt, x.kws)
        if name == "_kron_core":
            if not all(isinstance(o, Op) for o in args):
                raise Unsupported("_kron_core of non-operators")
            # [assumed leaf] the Kronecker product of the given factors, right nested; sparse unless all factors dense
            fmts = {o.fmt for o in args}
            fmt = "dense" if fmts == {"dense"} else ("coo" if (kwargs.get("coo_build") or kwargs.get("stype") == "coo"
                                                              or fmts == {"coo"}) else "csr")
            return KronX(args, 0, PROD([o.rows for o in args]), fmt, dict(kwargs))
        return super().call(cx, name, args, kwargs, node)


def mk_ops(cx, K, fmts):
    return tuple(Op(i, 0, cx.Int(f"n{i}"), None, fmts[i]) for i in range(K))


def _fix_n(ops):
    for o in ops:
        o.n = o.hi
    return ops


FMT_VARIANTS = {"dense": lambda i: "dense", "csr": lambda i: "csr", "coo": lambda i: "coo",
                "mixed": lambda i: ("coo", "csr")[i % 2]}


@register
class GenOpsMaybeSliced(OpsBase):
    """generator: factor i < len(ix) is cut to its rows [d1_i, d2_i + 1) (format kept), the others pass unchanged"""

    target = f"{CORE}::gen_ops_maybe_sliced"
    floor = 6

    def cases(self):
        return [NS(name=f"K={k},L={l},{v}", K=k, L=l, v=v) for k in (1, 2, 3) for l in range(0, k + 1)
                for v in ("dense", "coo", "mixed")]

    def inputs(self, cx, case):
        ops = _fix_n(mk_ops(cx, case.K, [FMT_VARIANTS[case.v](i) for i in range(case.K)]))
        return dict(ops=ops, ix=tuple((cx.Int(f"d{i}a"), cx.Int(f"d{i}b")) for i in range(case.L)))

    def requires(self, a, case):
        return {"len(ix)<=len(ops)": len(a.ix) <= len(a.ops),
                "0<=d1<=d2<rows": And(*[And(0 <= p, p <= q, q < o.rows) for (p, q), o in zip(a.ix, a.ops)])}

    @staticmethod
    def spec(a):
        out = []
        for i, o in enumerate(a.ops):
            if i < len(a.ix):
                p, q = a.ix[i]
                out.append(Op(o.k, o.lo + p, o.lo + q + 1, o.n, o.fmt))
            else:
                out.append(o)
        return out

    def ensures(self, a, r, cx, case):
        ys = list(r) if r is not None else list(getattr(cx, "yielded", []))
        exp = self.spec(a)
        d = {"count": len(ys) == len(exp) and all(isinstance(y, Op) for y in ys)}
        if not d["count"]:
            return d
        for i, (y, e) in enumerate(zip(ys, exp)):
            d[f"factor{i}"] = And(y.k == e.k, y.fmt == e.fmt, zeq(y.lo, e.lo), zeq(y.hi, e.hi))
        return d

    def apply(self, cx, a, node, case=None):
        a.ops, a.ix = tuple(a.ops), tuple(a.ix)
        if not (1 <= len(a.ops) <= 3):
            raise Unsupported("gen_ops_maybe_sliced used outside the proved structure bound")
        for lab, c in self.requires(a, None).items():
            cx.oblige(f"call-pre@{node.lineno}:gen_ops_maybe_sliced:{lab}", "call-pre", c, node.lineno)
        return tuple(self.spec(a))


SKOLEM_S = z3.Int("s!row")  # an arbitrary row of the returned object


@register
class Kron(OpsBase):
    """kron(*ops, ownership): the result is exactly rows [ri, rf) of the full product (all rows when ownership is None)"""

    target = f"{CORE}::kron"
    floor = 20
    KS = (1, 2, 3)

    def cases(self):
        out = []
        for k in self.KS:
            for v, stype in (("dense", None), ("csr", None), ("coo", "csr"), ("coo", None)):
                if v != "csr" and k == max(self.KS):
                    continue  # the other routes differ from csr only in the format calls: covered for smaller K
                out.append(NS(name=f"K={k},{v},stype={stype},ownership", K=k, v=v, stype=stype, own=True))
            out.append(NS(name=f"K={k},csr,full", K=k, v="csr", stype=None, own=False))
        return out

    def inputs(self, cx, case):
        ops = _fix_n(mk_ops(cx, case.K, [FMT_VARIANTS[case.v](i) for i in range(case.K)]))
        return dict(ops=ops, stype=case.stype, coo_build=False, parallel=False,
                    ownership=(cx.Int("ri"), cx.Int("rf")) if case.own else None)

    def requires(self, a, case):
        d = {"dims>=1": And(*[o.n >= 1 for o in a.ops])}
        if a.ownership is not None:
            d["ri<rf"] = a.ownership[0] < a.ownership[1]  # the property's domain; the range check is the code's
        return d

    def ensures_raise(self, a, exc, cx, case):
        if exc == "ValueError" and a.ownership is not None:
            ri, rf = a.ownership
            return {"raise-ValueError-only-if-out-of-range": Or(ri < 0, rf > PROD([o.n for o in a.ops]))}
        return {f"no-raise-{exc}": False}

    def ensures(self, a, X, cx, case):
        ns = [o.n for o in a.ops]
        D = PROD(ns)
        K = len(ns)
        d = {"is-product": isinstance(X, KronX) and len(X.ops) == K and all(o.k == i for i, o in enumerate(X.ops))}
        if not d["is-product"]:
            return d
        ri, rf = a.ownership if a.ownership is not None else (0, D)
        d["in-range"] = And(0 <= ri, rf <= D)
        d["pass-through-options"] = (X.kws == dict(coo_build=a.coo_build, stype=a.stype, parallel=a.parallel))
        fmts = {o.fmt for o in a.ops}
        d["format"] = X.fmt == (a.stype if a.stype is not None else "dense" if fmts == {"dense"} else "csr")
        if a.ownership is not None:
            e = cx.env
            d["got-covers-requested"] = And(e["ri_got"] <= ri, rf <= e["rf_got"])
        # ---- the rows of the result, by the definition of the Kronecker product
        w = [o.rows for o in X.ops]  # window sizes
        C = bases_of(w)  # strides of the product of the windows
        B = bases_of(ns)  # strides of the full product
        d["windows-inside-factors"] = And(*[And(0 <= o.lo, o.lo <= o.hi, o.hi <= o.n) for o in X.ops])
        d["cut-inside-product"] = And(0 <= X.a, X.a <= X.b, X.b <= PROD(w))
        d["row-count"] = X.b - X.a == rf - ri
        s = SKOLEM_S
        t = [z3.Int(f"s!digit{i}") for i in range(K)]
        rest = [z3.Int(f"s!rest{i}") for i in range(K + 1)]
        # definition of the ghost digits of s (euclidean division by the positive strides C_i, top down)
        defs = [rest[0] == s, rest[K] == 0]
        for i in range(K):
            defs.append(Implies(Z(C[i]) >= 1 if is_z3(C[i]) else C[i] >= 1,
                                And(rest[i] == t[i] * C[i] + rest[i + 1], 0 <= rest[i + 1], rest[i + 1] < C[i])))
        for c in defs:
            cx.assume(c)
        full = SUM([o.lo * B[i] for i, o in enumerate(X.ops) if not (isinstance(o.lo, int) and o.lo == 0)]
                   + [t[i] * B[i] for i in range(K)])
        d["row-map"] = Implies(And(X.a <= s, s < X.b), full == ri + (s - X.a))
        if a.ownership is not None:
            # the product of the sliced factors, before the final cut, is exactly rows [ri_got, rf_got) of the full product
            e = cx.env
            d["sliced-product=rows[ri_got,rf_got)"] = And(PROD(w) == e["rf_got"] - e["ri_got"],
                                                          Implies(And(0 <= s, s < PROD(w)), full == e["ri_got"] + s))
        d["digits-in-window"] = Implies(And(X.a <= s, s < X.b), And(*[And(0 <= t[i], t[i] < w[i]) for i in range(K)]))
        return d


# =====================================================================================================================
# dim_map helpers: flat index = row-major stride formula; cyclic wraps mod the dimension; trim drops exactly the
# out-of-range coordinates; otherwise out-of-range raises.   M = number of coordinates (structure bound), values symbolic
# =====================================================================================================================


def in_range(c, szs):
    return And(*[And(0 <= x, x < sz) for x, sz in zip(c, szs)])


def flat_index(c, szs):
    """row-major flattening: sum_i c_i * prod_{j>i} sz_j"""
    bs = bases_of(list(szs))
    return SUM(x * b if (is_z3(b) or b != 1) else x for x, b in zip(c, bs))


def subsequence_spec(result, items, keep, value):
    """`result` is the list of value(item) for exactly the items with keep(item), in order.  Stated by enumerating the
    subsets of positions (the number of items is fixed by the case)"""
    n = len(items)
    alts = []
    for S in itertools.product((False, True), repeat=n):
        sel = [it for it, s in zip(items, S) if s]
        if len(sel) != len(result):
            continue
        alts.append(And(*[keep(it) if s else Not(keep(it)) for it, s in zip(items, S)],
                        *[zeq(r, value(it)) for r, it in zip(result, sel)]))
    return Or(*alts)


class DimMapBase(Base):
    MS = (1, 2, 3)
    nd = 1  # number of lattice dimensions (sizes) of the helper
    mode = "strict"  # strict | trim | cyclic
    floor = 3

    def cases(self):
        return [NS(name=f"M={m}", M=m) for m in self.MS]

    def sizes(self, a):
        return (a.sza,) if self.nd == 1 else (a.sza, a.szb)

    def coords(self, a):
        return [(c,) for c in a.coos] if self.nd == 1 else [tuple(c) for c in a.coos]

    def inputs(self, cx, case):
        d = dict(sza=cx.Int("sza"))
        if self.nd == 2:
            d["szb"] = cx.Int("szb")
            d["coos"] = tuple((cx.Int(f"x{j}"), cx.Int(f"y{j}")) for j in range(case.M))
        else:
            d["coos"] = tuple(cx.Int(f"c{j}") for j in range(case.M))
        return d

    def requires(self, a, case):
        if self.mode == "cyclic":
            return {"sizes>=1": And(*[s >= 1 for s in self.sizes(a)])}
        return {}

    def produced(self, r, cx):
        return list(r) if r is not None else list(getattr(cx, "yielded", []))

    def ensures(self, a, r, cx, case):
        out = self.produced(r, cx)
        szs, cs = self.sizes(a), self.coords(a)
        if self.mode == "strict":
            d = {"count": len(out) == len(cs)}
            if d["count"]:
                d["all-in-range"] = And(*[in_range(c, szs) for c in cs])
                d["flat-index"] = And(*[zeq(o, flat_index(c, szs)) for o, c in zip(out, cs)])
                d["index-in-range"] = And(*[And(0 <= o, o < PROD(szs)) for o in out])
            return d
        if self.mode == "trim":
            return {"count<=": len(out) <= len(cs),
                    "exactly-the-in-range-ones": subsequence_spec(out, cs, lambda c: in_range(c, szs),
                                                                  lambda c: flat_index(c, szs)),
                    "index-in-range": And(*[And(0 <= o, o < PROD(szs)) for o in out])}
        d = {"count": len(out) == len(cs)}
        if d["count"]:
            wrapped = [tuple(x % sz for x, sz in zip(c, szs)) for c in cs]  # z3 mod: 0 <= x mod sz < sz, sz | x - x mod sz
            d["wrapped-flat-index"] = And(*[zeq(o, flat_index(wc, szs)) for o, wc in zip(out, wrapped)])
            d["index-in-range"] = And(*[And(0 <= o, o < PROD(szs)) for o in out])
        return d

    def ensures_raise(self, a, exc, cx, case):
        if exc == "ValueError" and self.mode == "strict":
            szs, cs = self.sizes(a), self.coords(a)
            got = self.produced(None, cx)
            return {"raise-only-if-some-coordinate-out-of-range": Or(*[Not(in_range(c, szs)) for c in cs]),
                    "yielded-before-raise-correct": And(*[zeq(o, flat_index(c, szs)) for o, c in zip(got, cs)])}
        return {f"no-raise-{exc}": False}


def _dm(name, nd, mode):
    cls = type("DimMap_" + name, (DimMapBase,), dict(target=f"{CORE}::{name}", nd=nd, mode=mode))
    return register(cls)


DimMap1d = _dm("_dim_map_1d", 1, "strict")
DimMap1dTrim = _dm("_dim_map_1dtrim", 1, "trim")
DimMap1dCyclic = _dm("_dim_map_1dcyclic", 1, "cyclic")
DimMap2d = _dm("_dim_map_2d", 2, "strict")
DimMap2dTrim = _dm("_dim_map_2dtrim", 2, "trim")
DimMap2dCyclic = _dm("_dim_map_2dcyclic", 2, "cyclic")


@register
class DimMapNd(DimMapBase):
    """_dim_map_nd(szs, coos, cyclic, trim): K sizes; cyclic wins over trim"""

    target = f"{CORE}::_dim_map_nd"
    floor = 6

    def cases(self):
        out = []
        for k in (1, 2, 3):
            for m in ((1, 2) if k == 3 else (1, 2, 3)):
                for cyc in (False, True):
                    for trim in (False, True):
                        out.append(NS(name=f"K={k},M={m},cyclic={cyc},trim={trim}", K=k, M=m, cyclic=cyc, trim=trim))
        return out

    def inputs(self, cx, case):
        return dict(szs=tuple(cx.Int(f"sz{i}") for i in range(case.K)),
                    coos=tuple(tuple(cx.Int(f"c{j}_{i}") for i in range(case.K)) for j in range(case.M)),
                    cyclic=case.cyclic, trim=case.trim)

    def sizes(self, a):
        return tuple(a.szs)

    def coords(self, a):
        return [tuple(c) for c in a.coos]

    def requires(self, a, case):
        # the in-range test of the code is x == x % sz, which needs a positive size
        return {"sizes>=1": And(*[s >= 1 for s in a.szs])}

    def ensures(self, a, r, cx, case):
        self.mode = "cyclic" if a.cyclic else ("trim" if a.trim else "strict")
        return super().ensures(a, r, cx, case)

    def ensures_raise(self, a, exc, cx, case):
        self.mode = "cyclic" if a.cyclic else ("trim" if a.trim else "strict")
        return super().ensures_raise(a, exc, cx, case)


# =====================================================================================================================
# calc.partial_transpose -- the axis permutation, for ALL n (symbolic number of subsystems, quantified via a skolem axis)
# =====================================================================================================================


class SymList:
    """python list of ints of symbolic length: z3 array + length (mutated in place by .append)"""

    def __init__(self, arr, n):
        self.arr, self.n = arr, n

    def get(self, j):
        return z3.Select(self.arr, j)


class SymSet:
    """a collection of ints used only through membership"""

    def __init__(self, mem):
        self.mem = mem


class Cat:
    """the tuple display (*a, *b, ...) of sequences of symbolic length"""

    def __init__(self, parts):
        self.parts = parts


class NdArr:
    """a numpy array value seen as the chain of shape operations applied to a source"""

    def __init__(self, src, chain=()):
        self.src, self.chain = src, tuple(chain)


def as_symlist(v):
    if isinstance(v, SymList):
        return v
    if isinstance(v, list):
        arr = z3.K(z3.IntSort(), z3.IntVal(0))
        for j, x in enumerate(v):
            arr = z3.Store(arr, j, x)
        return SymList(arr, len(v))
    raise Unsupported(f"not a list: {v!r}")


SK_AXIS = z3.Int("j!axis")  # an arbitrary subsystem
_prod_of = z3.Function("prod_of_dims", z3.ArraySort(z3.IntSort(), z3.IntSort()), z3.IntSort(), z3.IntSort())


@register
class PartialTranspose(Base):
    """for every subsystem j < n: the transpose sends ket axis j to j + n and bra axis j + n to j when j is in sysa, and
    leaves both in place otherwise;  reshape((*dims, *dims)) before, reshape((D, D)) after"""

    target = "quimb/calc.py::partial_transpose"
    floor = 8

    def inputs(self, cx, case):
        n = cx.Int("n")
        return dict(p=cx.Opaque("p"), dims=SymList(cx.Array("dims", z3.IntSort(), z3.IntSort()), n),
                    sysa=SymSet(cx.Array("in_sysa", z3.IntSort(), z3.BoolSort())))

    def requires(self, a, case):
        return {"n>=0": a.dims.n >= 0}

    def call(self, cx, name, args, kwargs, node):
        if name == "int2tup":
            return args[0]  # [leaf] an int becomes a 1-tuple, a sequence a tuple: membership is unchanged
        if name == "__len__" and isinstance(args[0], SymList):
            return args[0].n
        if name == "__contains__" and isinstance(args[0], SymSet):
            return z3.Select(args[0].mem, args[1])
        if name == ".append" and isinstance(args[0], SymList):
            L = args[0]
            L.arr, L.n = z3.Store(L.arr, L.n, args[1]), L.n + 1
            return None
        if name == "__tuple__":
            return Cat([v for kind, v in args[0]] if all(kind == "star" for kind, v in args[0]) else args[0])
        if name == "prod" and isinstance(args[0], SymList):
            return _prod_of(args[0].arr, args[0].n)
        if name == "qu":
            return NdArr(("qu", args[0], args[1]))
        if name == "np.asarray" and isinstance(args[0], NdArr):
            return args[0]
        if name in (".reshape", ".transpose") and isinstance(args[0], NdArr):
            return NdArr(args[0].src, args[0].chain + ((name[1:], args[1]),))
        return super().call(cx, name, args, kwargs, node)

    @staticmethod
    def axis_spec(a, ket, bra, j):
        n, inA = a.dims.n, z3.Select(a.sysa.mem, j)
        return And(ket.get(j) == If(inA, j + n, j), bra.get(j) == If(inA, j, j + n))

    def inv(self, v):
        ket, bra = as_symlist(v.perm_ket_inds), as_symlist(v.perm_bra_inds)
        j = SK_AXIS
        return {"lengths": And(zeq(ket.n, v.i), zeq(bra.n, v.i)), "i-range": And(0 <= v.i, v.i <= v.old.dims.n),
                "ndims": zeq(v.ndims, v.old.dims.n),
                "axes-so-far": Implies(And(0 <= j, j < v.i), self.axis_spec(v.old, ket, bra, j))}

    @property
    def loops(self):
        fresh = lambda nm: (lambda cx: SymList(cx.Array(nm, z3.IntSort(), z3.IntSort()), cx.Int(nm + "_len")))
        return {0: Loop("for i in range(ndims)", self.inv, extra_modifies=("perm_ket_inds", "perm_bra_inds"),
                        retype={"perm_ket_inds": fresh("ket"), "perm_bra_inds": fresh("bra")})}

    def ensures(self, a, r, cx, case):
        d = {"shape-ops": isinstance(r, NdArr) and [op for op, _ in r.chain] == ["reshape", "transpose", "reshape"]
             and r.src[0] == "qu" and r.src[1] is a.p and r.src[2] == "dop"}
        if not d["shape-ops"]:
            return d
        (_, shp1), (_, perm), (_, shp2) = r.chain
        d["reshape-to-(*dims,*dims)"] = isinstance(shp1, Cat) and len(shp1.parts) == 2 and all(x is a.dims for x in shp1.parts)
        D = _prod_of(a.dims.arr, a.dims.n)
        d["reshape-to-(D,D)"] = isinstance(shp2, tuple) and len(shp2) == 2 and And(shp2[0] == D, shp2[1] == D)
        ok = isinstance(perm, Cat) and len(perm.parts) == 2 and all(isinstance(x, SymList) for x in perm.parts)
        d["perm-is-(*ket,*bra)"] = ok
        if ok:
            ket, bra = perm.parts
            j = SK_AXIS
            # perm[j] = ket[j], perm[n + j] = bra[j]   (position n + j because len(ket) = n)
            d["perm-lengths"] = And(ket.n == a.dims.n, bra.n == a.dims.n)
            d["swap-exactly-sysa"] = Implies(And(0 <= j, j < a.dims.n), self.axis_spec(a, ket, bra, j))
        return d


# =====================================================================================================================
# _dim_compressor / dim_compress -- state machine over the dims list (K <= 5 concrete positions, symbolic dims)
# =====================================================================================================================


def runs_of(K, marked):
    """maximal runs of consecutive positions with the same marked status: [(positions, flag)]"""
    out = []
    for i in range(K):
        f = 1 if i in marked else 0
        if out and out[-1][1] == f:
            out[-1][0].append(i)
        else:
            out.append(([i], f))
    return out


def subsets(K):
    for S in itertools.product((0, 1), repeat=K):
        yield tuple(i for i in range(K) if S[i])


@register
class DimCompressor(Base):
    """generator of (block size, marked flag): one block per maximal run of equally marked positions, its size the
    product of the run's dims.  Family `dims>=2`: proved.  Family `dims>=1` (a subsystem of dimension 1 present): the
    same post-condition is NOT met by the code (blocks of size 1 are dropped / a block of size 0 is emitted) -- see report"""

    target = f"{CORE}::_dim_compressor"
    floor = 50
    KS = (1, 2, 3, 4, 5)
    KS_UNIT = (1, 2)
    dead_ok = ("if dim < 0:",)

    def replay(self, model):
        """run the real generator on the model's dims for every index subset and compare with the maximal-run spec"""
        from quimb.core import _dim_compressor as f
        dims = []
        while f"n{len(dims)}" in model:
            dims.append(int(model[f"n{len(dims)}"]))
        for inds in subsets(len(dims)):
            got = list(f(dims, inds))
            exp = [(int(sz), fl) for sz, fl in self.spec(dims, inds)]
            if got != exp:
                return dict(call=f"list(_dim_compressor({dims}, {list(inds)}))", observed=got, expected=exp, reproduced=True)
        return dict(call=f"_dim_compressor({dims}, <every subset>)", reproduced=False)

    def cases(self):
        out = [NS(name=f"K={k},inds={s},dims>=2", K=k, inds=s, lo=2) for k in self.KS for s in subsets(k)]
        out += [NS(name=f"K={k},inds={s},dims>=1", K=k, inds=s, lo=1) for k in self.KS_UNIT for s in subsets(k)]
        return out

    def inputs(self, cx, case):
        return dict(dims=[cx.Int(f"n{i}") for i in range(case.K)], inds=case.inds)

    def requires(self, a, case):
        return {f"dims>={case.lo}": And(*[n >= case.lo for n in a.dims])}

    @staticmethod
    def spec(dims, inds):
        return [(PROD([dims[i] for i in pos]), f) for pos, f in runs_of(len(dims), set(inds))]

    def ensures(self, a, r, cx, case):
        ys = list(r) if r is not None else list(getattr(cx, "yielded", []))
        exp = self.spec(a.dims, a.inds)
        d = {"block-count": len(ys) == len(exp) and all(isinstance(y, tuple) and len(y) == 2 for y in ys)}
        d["product-of-blocks=product-of-dims"] = (PROD([y[0] for y in ys]) == PROD(a.dims)) if ys else False
        flags = [y[1] for y in ys]
        d["flags-alternate"] = all(isinstance(f, int) for f in flags) and all(f in (0, 1) for f in flags) and \
            all(flags[i] != flags[i + 1] for i in range(len(flags) - 1))
        if d["block-count"]:
            d["flags=targeted-runs"] = flags == [f for _, f in exp]
            d["sizes=products-of-runs"] = And(*[zeq(y[0], e[0]) for y, e in zip(ys, exp)])
        return d

    def apply(self, cx, a, node, case=None):
        """callee use (proved family only): the specification itself"""
        cx.oblige(f"call-pre@{node.lineno}:_dim_compressor:dims>=2", "call-pre", And(*[n >= 2 for n in a.dims]), node.lineno)
        if any(is_z3(i) for i in a.inds) or len(a.dims) not in self.KS:
            raise Unsupported("_dim_compressor used with symbolic inds / outside the proved structure bound")
        return tuple(self.spec(list(a.dims), tuple(a.inds)))


@register
class DimCompress(Base):
    """dim_compress(dims, inds) = (sizes of the maximal runs, positions of the marked runs); the marked positions
    alternate with the unmarked ones (0, 2, ... or 1, 3, ...).  dims >= 2 (see _dim_compressor for dims of 1)"""

    target = f"{CORE}::dim_compress"
    floor = 50
    KS = (1, 2, 3, 4, 5)

    def cases(self):
        out = [NS(name=f"K={k},inds={s}", K=k, inds=s) for k in self.KS for s in subsets(k)]
        out += [NS(name=f"K={k},inds=int:{i}", K=k, inds=i) for k in self.KS for i in range(k)]
        return out

    def inputs(self, cx, case):
        return dict(dims=[cx.Int(f"n{i}") for i in range(case.K)], inds=case.inds)

    def requires(self, a, case):
        return {"dims>=2": And(*[n >= 2 for n in a.dims])}

    def ensures(self, a, r, cx, case):
        inds = (a.inds,) if isinstance(a.inds, int) else a.inds
        exp = DimCompressor.spec(a.dims, inds)
        d = {"pair": isinstance(r, tuple) and len(r) == 2 and isinstance(r[0], tuple) and isinstance(r[1], tuple)}
        if not d["pair"]:
            return d
        ndims, ninds = r
        d["block-count"] = len(ndims) == len(exp)
        if d["block-count"]:
            d["sizes=products-of-runs"] = And(*[zeq(x, e[0]) for x, e in zip(ndims, exp)])
        d["product-preserved"] = PROD(ndims) == PROD(a.dims)
        d["marked-positions"] = tuple(ninds) == tuple(i for i, (_, f) in enumerate(exp) if f)
        d["marked-alternate"] = all(isinstance(i, int) for i in ninds) and \
            (tuple(ninds) in (tuple(range(0, len(ndims), 2)), tuple(range(1, len(ndims), 2))))
        return d


# =====================================================================================================================
# ikron.gen_ops -- the placement generator: identity / operator blocks tile the dimension list
# =====================================================================================================================


class PlacedOp:
    def __init__(self, k, sz):
        self.k, self.sz = k, sz


class OpIter:
    def __init__(self, items):
        self.items, self.pos = list(items), 0


class Eye:
    def __init__(self, size, kws):
        self.size, self.kws = size, kws


def placement_plans(K):
    """all (blocks, inds): blocks = disjoint ordered position ranges [(s, e)]; inds contains every s and e and any subset
    of the interior positions of the blocks (an operator overlaid on a range may or may not name the interior)"""
    def rec(start):
        yield []
        for s in range(start, K):
            for e in range(s, K):
                for rest in rec(e + 1):
                    yield [(s, e)] + rest
    for blocks in rec(0):
        interior = [j for s, e in blocks for j in range(s + 1, e)]
        ends = sorted({x for s, e in blocks for x in (s, e)})
        for pick in itertools.product((0, 1), repeat=len(interior)):
            yield blocks, tuple(sorted(ends + [j for j, p in zip(interior, pick) if p]))


@register
class IkronGenOps(Base):
    """gen_ops() inside ikron.  Given a placement plan -- block k = positions s_k..e_k, s_k and e_k (and possibly interior
    positions) in `inds`, with the overlay condition  size(op_k) == prod dims[s_k..e_k]  -- the generator yields, in order,
    an identity of size prod(gap dims) for every gap between blocks whose product exceeds 1 and op_k for block k; the
    sizes of what is yielded multiply to prod(dims) (tiling)"""

    target = f"{CORE}::ikron.gen_ops"
    floor = 50
    KS = (1, 2, 3, 4)
    dead_ok = ("dim == -1",)

    def cases(self):
        return [NS(name=f"K={k},blocks={b},inds={i}", K=k, blocks=b, inds=i) for k in self.KS
                for b, i in placement_plans(k)]

    def inputs(self, cx, case):
        nops = max(len(case.inds), 1)
        return dict(dims=[cx.Int(f"n{i}") for i in range(case.K)], inds=case.inds,
                    ops=OpIter([PlacedOp(k, cx.Int(f"sz{k}")) for k in range(nops)]),
                    eye_kws={"sparse": cx.Opaque("sparse"), "stype": cx.Opaque("stype"), "dtype": cx.Opaque("dtype")})

    def requires(self, a, case):
        d = {"dims>=1": And(*[n >= 1 for n in a.dims])}
        for k, (s, e) in enumerate(case.blocks):
            sz = a.ops.items[k].sz
            d[f"overlay-condition-{k}"] = sz == PROD(a.dims[s:e + 1])
            if e > s:
                d[f"block-{k}-first-dim>=2"] = a.dims[s] >= 2
                d[f"block-{k}-closes-at-its-last-index"] = And(*[sz != PROD(a.dims[s:j + 1])
                                                                 for j in case.inds if s <= j < e])
        return d

    def attr(self, cx, base, attr, node):
        if isinstance(base, PlacedOp) and attr == "shape":
            return (base.sz, base.sz)
        return NotImplemented

    def call(self, cx, name, args, kwargs, node):
        if name == "next" and isinstance(args[0], OpIter):
            it = args[0]
            if it.pos >= len(it.items):
                raise PyRaise("StopIteration", node.lineno)
            it.pos += 1
            return it.items[it.pos - 1]
        if name == "eye":
            return Eye(args[0], dict(kwargs))
        return super().call(cx, name, args, kwargs, node)

    def ensures(self, a, r, cx, case):
        ys = list(getattr(cx, "yielded", []))
        # expected sequence of blocks
        items, pos = [], 0
        for k, (s, e) in enumerate(case.blocks):
            if s > pos:
                items.append(("eye", PROD(a.dims[pos:s])))
            items.append(("op", k))
            pos = e + 1
        if pos < case.K:
            items.append(("eye", PROD(a.dims[pos:])))

        def keep(it):
            return True if it[0] == "op" else (it[1] > 1)

        def same(y, it):
            if it[0] == "op":
                return isinstance(y, PlacedOp) and y is a.ops.items[it[1]]
            return And(zeq(y.size, it[1]), y.kws == a.eye_kws) if isinstance(y, Eye) else False

        alts = []
        for S in itertools.product((False, True), repeat=len(items)):
            sel = [it for it, s in zip(items, S) if s]
            if len(sel) != len(ys) or any(it[0] == "op" and not s for it, s in zip(items, S)):
                continue
            alts.append(And(*[keep(it) if s else Not(keep(it)) for it, s in zip(items, S)],
                            *[same(y, it) for y, it in zip(ys, sel)]))
        sizes = [y.sz if isinstance(y, PlacedOp) else y.size for y in ys if isinstance(y, (PlacedOp, Eye))]
        return {"blocks-as-planned": Or(*alts),
                "tiling:product-of-yielded-sizes=product-of-dims": zeq(PROD(sizes), PROD(a.dims)) if len(sizes) == len(ys) else False,
                "ops-consumed=blocks": a.ops.pos == len(case.blocks)}


# =====================================================================================================================
# dim_map -- the dispatcher: shape -> helper (table read from the real source), 1-d coordinate normalisation, flattening
# =====================================================================================================================


def _helper_apply(self, cx, a, node, case=None):
    """callee use of a _dim_map_* helper (all proved above): its specification, forking on the coordinate tests"""
    name = self.target.split("::")[-1]
    if name == "_dim_map_nd":
        mode = "cyclic" if a.cyclic else ("trim" if a.trim else "strict")
        szs = tuple(a.szs)
        if not all(isinstance(c, tuple) for c in a.coos):
            raise PyRaise("TypeError", node.lineno)  # zip(coo, szs) over an int coordinate
        cs = [tuple(c) for c in a.coos]
        cx.oblige(f"call-pre@{node.lineno}:{name}:sizes>=1", "call-pre", And(*[s >= 1 for s in szs]), node.lineno)
    else:
        mode = self.mode
        szs = self.sizes(a)
        cs = self.coords(a)
        if mode == "cyclic":
            cx.oblige(f"call-pre@{node.lineno}:{name}:sizes>=1", "call-pre", And(*[s >= 1 for s in szs]), node.lineno)
    if any(len(c) != len(szs) for c in cs):
        raise Unsupported("coordinate / lattice rank mismatch")
    if len(cs) > 3 or len(szs) > 3 or (len(szs) == 3 and len(cs) > 2):
        raise Unsupported(f"{name} used outside the proved structure bound")
    out = []
    for c in cs:
        if mode == "cyclic":
            out.append(flat_index(tuple(x % sz for x, sz in zip(c, szs)), szs))
        elif cx.decide(in_range(c, szs), node.lineno):
            out.append(flat_index(c, szs))
        elif mode == "strict":
            raise PyRaise("ValueError", node.lineno)
    return tuple(out)


DimMapBase.apply = _helper_apply


class NestedDims:
    """the nested sequence `dims` of subsystem dimensions: only its shape (symbolic extents) and nesting depth matter"""

    def __init__(self, shape, level=0):
        self.shape, self.level = tuple(shape), level


class FnRef:
    def __init__(self, name):
        self.name = name


def _module_dict_of_functions(target, varname):
    """evaluate the module-level dict literal `varname = {literal-key: function-name, ...}` of the REAL source"""
    import ast
    import os
    import vf.pyvc as P
    P.load_function(target)
    src, tree = P._SRC_CACHE[os.path.join(P.REPO, target.split("::")[0])]
    for st in tree.body:
        if isinstance(st, ast.Assign) and any(isinstance(t, ast.Name) and t.id == varname for t in st.targets) \
                and isinstance(st.value, ast.Dict):
            return {ast.literal_eval(k): FnRef(v.id) for k, v in zip(st.value.keys, st.value.values)}
    raise Unsupported(f"{varname} not found as a dict literal")


@register
class DimMap(Base):
    """dim_map(dims, coos, cyclic, trim) for a K-dimensional lattice (K <= 3) with symbolic extents and M coordinates:
    indices = wrapped (cyclic) / in-range subsequence (trim, not cyclic) / all, rejecting out-of-range (neither);
    dims flattened K-1 times"""

    target = f"{CORE}::dim_map"
    floor = 40

    def cases(self):
        out = []
        for k in (1, 2, 3):
            for cyc in (False, True):
                for trim in (False, True):
                    for ck in (("int", "tuple") if k == 1 else ("tuple",)):
                        out.append(NS(name=f"K={k},M=2,cyclic={cyc},trim={trim},coos={ck}", K=k, M=2, cyclic=cyc, trim=trim,
                                      ck=ck))
        return out

    def inputs(self, cx, case):
        szs = tuple(cx.Int(f"sz{i}") for i in range(case.K))
        cs = tuple(tuple(cx.Int(f"c{j}_{i}") for i in range(case.K)) for j in range(case.M))
        cx.ghost["coords"] = cs
        coos = tuple(c[0] for c in cs) if case.ck == "int" else cs
        return dict(dims=NestedDims(szs), coos=coos, cyclic=case.cyclic, trim=case.trim)

    def requires(self, a, case):
        return {"extents>=1": And(*[s >= 1 for s in a.dims.shape])}

    def attr(self, cx, base, attr, node):
        if base is None and attr == "_dim_mapper_methods":
            return _module_dict_of_functions(self.target, "_dim_mapper_methods")
        return NotImplemented

    def call(self, cx, name, args, kwargs, node):
        if name == "__isinstance__" and args[1] == "np.ndarray":
            return False  # nested-sequence kind (the ndarray kind differs only in how shape / ndim are read)
        if name == "_find_shape_of_nested_int_array" and isinstance(args[0], NestedDims):
            return args[0].shape  # [leaf] shape of the nested sequence
        if name.startswith("_dim_mapper_methods["):
            f = cx.ev(node.func)  # KeyError propagates to the try / except of the code
            if not isinstance(f, FnRef):
                raise Unsupported("dispatch table entry is not a function name")
            from vf.pyvc import REGISTRY_BY_NAME
            return cx.call_contract(REGISTRY_BY_NAME[f.name], args, kwargs, node)
        if name == "itertools.chain.from_iterable" and isinstance(args[0], NestedDims):
            return NestedDims(args[0].shape, args[0].level + 1)
        if name == "tuple" and isinstance(args[0], NestedDims):
            return ("flattened", args[0].shape, args[0].level)
        return super().call(cx, name, args, kwargs, node)

    def _mode(self, a):
        return "cyclic" if a.cyclic else ("trim" if a.trim else "strict")

    def ensures(self, a, r, cx, case):
        d = {"pair": isinstance(r, tuple) and len(r) == 2 and isinstance(r[1], tuple)}
        if not d["pair"]:
            return d
        d["dims-flattened-K-1-times"] = r[0] == ("flattened", a.dims.shape, len(a.dims.shape) - 1)
        helper = DimMapBase()
        helper.mode = self._mode(a)
        helper.sizes = lambda _a: tuple(a.dims.shape)
        helper.coords = lambda _a: [tuple(c) for c in cx.ghost["coords"]]
        for lab, c in DimMapBase.ensures(helper, a, r[1], cx, case).items():
            d["inds:" + lab] = c
        return d

    def ensures_raise(self, a, exc, cx, case):
        if exc == "ValueError" and self._mode(a) == "strict":
            return {"raise-only-if-some-coordinate-out-of-range":
                    Or(*[Not(in_range(c, a.dims.shape)) for c in cx.ghost["coords"]])}
        return {f"no-raise-{exc}": False}

    def replay(self, model):
        from quimb.core import dim_map as f
        for call in ("dim_map([2, 3, 2], [1, 4], cyclic=True, trim=True)", "dim_map([2, 3, 2], [(1,), (4,)], cyclic=True, trim=True)"):
            try:
                obs = repr(eval(call, {"dim_map": f}))
                bad = obs != "((2, 3, 2), (1, 1))"
            except Exception as e:  # noqa
                obs, bad = f"{type(e).__name__}: {e}", True
            if bad:
                return dict(call=call, observed=obs, expected="((2, 3, 2), (1, 1))", reproduced=True)
        return dict(call="dim_map(1-d dims, cyclic=True, trim=True)", reproduced=False)


# =====================================================================================================================
# gen.operators.ham_heis -- term coverage, symbolic n: gen_term(i) (three kinds of term), the range terms_needed, the
# structure of the repeated two-site term; the coverage statements themselves are the lemmas `heis-*` below
# =====================================================================================================================

OPS = "quimb/gen/operators.py"


class Lin:
    """formal linear combination  sum coef * atom  of operator terms (atoms: hashable python structures or IkronTerm)"""

    def __init__(self, terms=()):
        self.terms = list(terms)

    def scaled(self, c):
        return Lin([(c * k, t) for k, t in self.terms])

    def plus(self, other):
        return Lin(self.terms + other.terms)


class IkronTerm:
    def __init__(self, op, dims, where, kws):
        self.op, self.dims, self.where, self.kws = op, dims, where, kws


def as_lin(x):
    if isinstance(x, Lin):
        return x
    if isinstance(x, int) and x == 0:
        return Lin()
    return Lin([(1, x)])


def lin_eq(A, B, atom_eq):
    """coefficient-wise equality of two linear combinations (an absent atom has coefficient 0)"""
    A, B = as_lin(A), as_lin(B)
    atoms = []
    for _, t in A.terms + B.terms:
        if not any(atom_eq(t, u) is True for u in atoms):
            atoms.append(t)
    conds = []
    for u in atoms:
        ca = SUM([k for k, t in A.terms if atom_eq(t, u) is True])
        cb = SUM([k for k, t in B.terms if atom_eq(t, u) is True])
        conds.append(zeq(ca, cb) if (is_z3(ca) or is_z3(cb)) else ca == cb)
    return And(*conds)


class HeisBase(Base):
    def call(self, cx, name, args, kwargs, node):
        if name == "spin_operator":
            return ("S", args[0])
        if name == "eye":
            return ("I", args[0])
        if name == "kron":
            return ("kron",) + tuple(args)
        if name == "zip":
            return tuple(zip(*[tuple(v) if isinstance(v, str) else cx.iter_concrete(v, node) for v in args]))
        if name == "ikron":
            op, dims, where = args[:3]
            return IkronTerm(op, dims, where, dict(kwargs))
        if name == "__binop__":
            op, x, y = args
            opnd = lambda v: isinstance(v, (Lin, IkronTerm)) or (isinstance(v, tuple) and v and v[0] in ("S", "I", "kron"))
            if op == "Mult" and opnd(y) and not opnd(x):
                return as_lin(y).scaled(x)
            if op == "Add" and (opnd(x) or opnd(y)):
                return as_lin(x).plus(as_lin(y))
            if op == "Sub" and (opnd(x) or opnd(y)):
                return as_lin(x).plus(as_lin(y).scaled(-1))
        return super().call(cx, name, args, kwargs, node)


def _is_ikron(r, op, dims, where, kws, cx):
    if not isinstance(r, IkronTerm) or r.op is not op or r.dims is not dims or r.kws != kws:
        return False
    if isinstance(where, list):
        return And(*[zeq(x, y) for x, y in zip(r.where, where)]) if isinstance(r.where, list) and len(r.where) == len(where) else False
    return zeq(r.where, where) if is_int(r.where) else False


@register
class HeisGenTerm(HeisBase):
    """gen_term(i):  i = -1 -> the field operator on the last site;  i = n-1 -> the interaction S.S on the closing bond
    (sites 0 and n-1);  otherwise -> the two-site term on sites (i, i+1)"""

    target = f"{OPS}::ham_heis.gen_term"
    floor = 6

    def inputs(self, cx, case):
        return dict(i=cx.Int("i"), n=cx.Int("n"), dims=cx.Opaque("dims"), single_site_b=Lin([(cx.Real("c"), ("S", "z"))]),
                    two_site_term=Lin([(cx.Real("c2"), ("kron", ("S", "z"), ("S", "z")))]),
                    ikron_kws={"sparse": True, "stype": "coo", "coo_build": True, "ownership": cx.Opaque("ownership")},
                    op_kws={"sparse": True, "stype": "coo"}, jx=cx.Real("jx"), jy=cx.Real("jy"), jz=cx.Real("jz"))

    def ensures(self, a, r, cx, case):
        i, n = a.i, a.n
        js = {"x": a.jx, "y": a.jy, "z": a.jz}
        closing = False
        if isinstance(r, Lin) or (isinstance(r, int) and r == 0):
            rl = as_lin(r)
            ok = all(isinstance(t, IkronTerm) and isinstance(t.op, tuple) and t.op[0] == "S" and t.dims is a.dims
                     and t.kws == a.ikron_kws and isinstance(t.where, list) and len(t.where) == 2 for _, t in rl.terms)
            if ok:
                sites = And(*[And(zeq(t.where[0], 0), zeq(t.where[1], n - 1)) for _, t in rl.terms])
                # coefficient of S_s (x) S_s on the closing bond is j_s (a term with j_s = 0 may be left out)
                coefs = And(*[zeq(SUM([k for k, t in rl.terms if t.op[1] == s]), js[s]) for s in "xyz"])
                closing = And(sites, coefs)
        return {"i=-1:field-operator-on-last-site":
                Implies(i == -1, _is_ikron(r, a.single_site_b, a.dims, n - 1, a.ikron_kws, cx)),
                "i=n-1:interaction-on-closing-bond": Implies(And(i != -1, i == n - 1), closing),
                "else:two-site-term-on-(i,i+1)":
                Implies(And(i != -1, i != n - 1), _is_ikron(r, a.two_site_term, a.dims, [i, i + 1], a.ikron_kws, cx))}


def heis_lo(field):
    return If(field, -1, 0)


def heis_hi(cyclic, n):
    return If(cyclic, n, n - 1)


@register
class HamHeis(HeisBase):
    """ham_heis: H = sum_{i in range(lo, hi)} gen_term(i) with lo = -1 iff some field component is non-zero, hi = n iff
    cyclic; the two-site term is  sum_s j_s S_s(x)S_s - sum_s b_s S_s(x)I  (field on its FIRST site), the single-site
    term  -sum_s b_s S_s"""

    target = f"{OPS}::ham_heis"
    floor = 10

    def cases(self):
        return [NS(name=f"j={jk},b={bk},cyclic={c},parallel={p}", jk=jk, bk=bk, cyclic=c, parallel=p)
                for jk in ("scalar", "triple") for bk in ("scalar", "triple") for c in (False, True)
                for p in (False, True, None)]

    def inputs(self, cx, case):
        j = cx.Real("j") if case.jk == "scalar" else (cx.Real("jx"), cx.Real("jy"), cx.Real("jz"))
        b = cx.Real("b") if case.bk == "scalar" else (cx.Real("bx"), cx.Real("by"), cx.Real("bz"))
        return dict(n=cx.Int("n"), j=j, b=b, cyclic=case.cyclic, parallel=case.parallel, nthreads=None,
                    ownership=cx.Opaque("ownership"))

    def requires(self, a, case):
        return {"n>=2": a.n >= 2}

    def attr(self, cx, base, attr, node):
        if base is None and attr == "operator":
            return NS(add="operator.add")
        return NotImplemented

    def call(self, cx, name, args, kwargs, node):
        if name == "__binop__" and args[0] == "Mult" and isinstance(args[1], tuple) and args[1] == (2,) and is_int(args[2]):
            return ("dims", 2, args[2])  # (2,) * n
        if name == "__unpack__" and is_z3(args[0]):
            raise PyRaise("TypeError", node.lineno)  # a scalar cannot be unpacked
        if name == "map":
            return ("map", args[0], args[1], "serial")
        if name == "get_thread_pool":
            return ("pool", args[0])
        if name == ".map" and isinstance(args[0], tuple) and args[0][:1] == ("pool",):
            return ("map", args[1], args[2], "pool")
        if name == "par_reduce" and args[0] == "operator.add" and isinstance(args[1], tuple) and args[1][:1] == ("map",):
            return ("sum-of-map",) + args[1][1:]
        if name == "sum" and len(args) == 1 and isinstance(args[0], tuple) and args[0][:1] == ("map",):
            return ("sum-of-map",) + args[0][1:]
        return super().call(cx, name, args, kwargs, node)

    def ensures(self, a, r, cx, case):
        e = cx.env
        jx, jy, jz = (a.j, a.j, a.j) if is_z3(a.j) else a.j
        bx, by, bz = (0, 0, a.b) if is_z3(a.b) else a.b
        d = {"sum-of-map": isinstance(r, tuple) and len(r) == 4 and r[0] == "sum-of-map"}
        if not d["sum-of-map"]:
            return d
        _, f, rng, how = r
        d["mapped-function-is-gen_term"] = isinstance(f, tuple) and f[0] == "def" and f[1].name == "gen_term"
        field = Or(*[x != 0 for x in (bx, by, bz) if is_z3(x)])
        ok = isinstance(rng, tuple) and len(rng) == 3 and rng[0] == "range"
        d["terms-needed=range(lo,hi)"] = And(zeq(rng[1], heis_lo(field)), zeq(rng[2], heis_hi(a.cyclic, a.n))) if ok else False
        d["closure-sees-the-parameters"] = And(zeq(e["n"], a.n), e["dims"] == ("dims", 2, a.n),
                                               *[zeq(e[k], v) for k, v in (("jx", jx), ("jy", jy), ("jz", jz))],
                                               e["ikron_kws"].get("ownership") is a.ownership)
        S = lambda s: ("S", s)
        two = Lin([(c, ("kron", S(s), S(s))) for c, s in zip((jx, jy, jz), "xyz")]
                  + [(-c, ("kron", S(s), ("I", 2))) for c, s in zip((bx, by, bz), "xyz")])
        one = Lin([(-c, S(s)) for c, s in zip((bx, by, bz), "xyz")])
        eq = lambda t, u: t == u
        d["two-site-term=interaction+field-on-first-site"] = lin_eq(e["two_site_term"], two, eq)
        d["single-site-term=-b.S"] = lin_eq(e["single_site_b"], one, eq)
        return d


# ---- coverage lemmas (pure arithmetic over the definitions established by the two contracts above).
#      term i (lo <= i < hi):  FIELD i = -1 acts on site n-1;  CLOSING i = n-1 (i != -1) couples sites n-1 and 0;
#      GENERAL otherwise couples (i, i+1) and carries the field of site i.


def _heis(n, cyclic, field):
    lo, hi = heis_lo(field), heis_hi(cyclic, n)
    inr = lambda i: And(lo <= i, i < hi)
    is_field = lambda i: i == -1
    is_closing = lambda i: And(i != -1, i == n - 1)
    is_general = lambda i: And(i != -1, i != n - 1)
    return inr, is_field, is_closing, is_general


@lemmas.lemma("C15", "heis-every-open-bond-has-its-general-term")
def lem_heis_bond():
    n, k = z3.Ints("n k")
    cyc, fld = z3.Bools("cyclic field")
    inr, _, _, gen = _heis(n, cyc, fld)
    return [n >= 2, 0 <= k, k < n - 1], And(inr(k), gen(k))


@lemmas.lemma("C15", "heis-bond-interaction-exactly-once")
def lem_heis_bond_once():
    # a term coupling the open bond (k, k+1) is the general term i = k (the closing term couples (0, n-1), a different
    # pair once n >= 3; for n = 2 the cyclic chain counts its single bond twice by convention)
    n, k, i = z3.Ints("n k i")
    cyc, fld = z3.Bools("cyclic field")
    inr, isf, clo, gen = _heis(n, cyc, fld)
    couples = Or(And(gen(i), i == k), And(clo(i), 0 == k, n - 1 == k + 1))
    return [n >= 3, 0 <= k, k < n - 1, inr(i), couples], i == k


@lemmas.lemma("C15", "heis-general-terms-stay-inside-the-chain")
def lem_heis_inside():
    n, i = z3.Ints("n i")
    cyc, fld = z3.Bools("cyclic field")
    inr, _, _, gen = _heis(n, cyc, fld)
    return [n >= 2, inr(i), gen(i)], And(0 <= i, i + 1 <= n - 1)


@lemmas.lemma("C15", "heis-closing-bond-iff-cyclic")
def lem_heis_closing():
    n, i = z3.Ints("n i")
    cyc, fld = z3.Bools("cyclic field")
    inr, _, clo, _ = _heis(n, cyc, fld)
    return [n >= 2], And(Implies(cyc, And(inr(n - 1), clo(n - 1))), Implies(And(inr(i), clo(i)), And(cyc, i == n - 1)))


@lemmas.lemma("C15", "heis-every-site-has-its-field-exactly-once")
def lem_heis_field():
    n, s, i = z3.Ints("n s i")
    cyc, fld = z3.Bools("cyclic field")
    inr, isf, clo, gen = _heis(n, cyc, fld)
    carries = lambda i, s: Or(And(isf(i), s == n - 1), And(gen(i), s == i))  # the closing term carries no field
    w = If(s == n - 1, -1, s)
    return [n >= 2, fld, 0 <= s, s < n], And(inr(w), carries(w, s), Implies(And(inr(i), carries(i, s)), i == w))


@lemmas.lemma("C15", "heis-no-field-term-without-field")
def lem_heis_nofield():
    n, i = z3.Ints("n i")
    cyc, fld = z3.Bools("cyclic field")
    inr, isf, _, _ = _heis(n, cyc, fld)
    return [n >= 2, Not(fld), inr(i)], Not(isf(i))


# ---- the aliases sharing ham_heis: which couplings / fields they pass on


class _HeisAlias(Base):
    floor = 1
    expect = None  # callable(a) -> (j, b)

    def call(self, cx, name, args, kwargs, node):
        if name == "ham_heis":
            return ("ham_heis", tuple(args), dict(kwargs))
        return super().call(cx, name, args, kwargs, node)

    def ensures(self, a, r, cx, case):
        d = {"calls-ham_heis(n, j=, b=, **ham_opts)": isinstance(r, tuple) and r[0] == "ham_heis" and len(r[1]) == 1
             and set(r[2]) == {"j", "b", "opt"} and r[2]["opt"] is a.ham_opts["opt"]}
        if d["calls-ham_heis(n, j=, b=, **ham_opts)"]:
            j, b = self.expect(a)
            eqv = lambda x, y: And(*[zeq(p, q) for p, q in zip(x, y)]) if isinstance(x, tuple) and isinstance(y, tuple) \
                and len(x) == len(y) else (zeq(x, y) if not isinstance(x, tuple) and not isinstance(y, tuple) else False)
            d["n"] = zeq(r[1][0], a.n)
            d["couplings"] = eqv(r[2]["j"], j)
            d["field"] = eqv(r[2]["b"], b)
        return d


@register
class HamIsing(_HeisAlias):
    target = f"{OPS}::ham_ising"
    expect = staticmethod(lambda a: ((0, 0, a.jz), (a.bx, 0, 0)))

    def inputs(self, cx, case):
        return dict(n=cx.Int("n"), jz=cx.Real("jz"), bx=cx.Real("bx"), ham_opts={"opt": cx.Opaque("opt")})


@register
class HamXY(_HeisAlias):
    target = f"{OPS}::ham_XY"
    expect = staticmethod(lambda a: ((a.jxy, a.jxy, 0), (0, 0, a.bz)))

    def inputs(self, cx, case):
        return dict(n=cx.Int("n"), jxy=cx.Real("jxy"), bz=cx.Real("bz"), ham_opts={"opt": cx.Opaque("opt")})


@register
class HamXXZ(_HeisAlias):
    target = f"{OPS}::ham_XXZ"
    expect = staticmethod(lambda a: ((a.jxy, a.jxy, a.delta), 0))

    def inputs(self, cx, case):
        return dict(n=cx.Int("n"), delta=cx.Real("delta"), jxy=cx.Real("jxy"), ham_opts={"opt": cx.Opaque("opt")})


# =====================================================================================================================
# fdx provider: the abstract model of the trusted leaves, checked against the REAL code on a complete finite grid
# (exhaustive over the stated finite grid -- NOT a proof for larger values)
# =====================================================================================================================


def provider_leaf_model(tier):
    """(1) rows of quimb.core._kron_core of row-sliced factors == rows fullrow(s) of the numpy Kronecker product, for every
    list of K <= 3 factors with 1..Dmax rows and every non-empty row window of every factor, dense and csr;
    (2) python / numpy / scipy row slicing [lo:hi] == py_slice_bounds, every length R <= 6 and every lo, hi in [-R-2, R+2] + None;
    (3) the real gen_ops_maybe_sliced on real dense / csr / coo matrices returns the row windows [d1, d2+1) in the same format."""
    import time as _t
    import numpy as np
    import scipy.sparse as sp
    from vf.framework import ObResult
    import quimb.core as qc

    out = []
    dmax = 4 if tier == "thorough" else 3
    primes = [2, 3, 5, 7, 11, 13, 17, 19, 23, 29, 31, 37, 41, 43, 47, 53]

    def factors(dims):
        fs, k = [], 0
        for n in dims:
            fs.append(np.array([[1.0, float(primes[k + r])] for r in range(n)]))
            k += n
        return fs

    def digits(s, w):
        t = []
        for i in range(len(w)):
            c = int(np.prod(w[i + 1:], dtype=int)) if i + 1 < len(w) else 1
            t.append(s // c)
            s -= (s // c) * c
        return t

    # ---- (1)
    for fmt in ("dense", "csr"):
        t0, n, bad = _t.time(), 0, None
        for K in (1, 2, 3):
            for dims in itertools.product(range(1, dmax + 1), repeat=K):
                fs = factors(dims)
                full = fs[0]
                for f in fs[1:]:
                    full = np.kron(full, f)
                B = [int(np.prod(dims[i + 1:], dtype=int)) for i in range(K)]
                wins = [[(lo, hi) for lo in range(n_) for hi in range(lo + 1, n_ + 1)] for n_ in dims]
                for win in itertools.product(*wins):
                    sl = [f[lo:hi, :] for f, (lo, hi) in zip(fs, win)]
                    if fmt == "csr":
                        sl = [sp.csr_matrix(x) for x in sl]
                    X = qc._kron_core(*sl)
                    X = X.toarray() if sp.issparse(X) else np.asarray(X)
                    w = [hi - lo for lo, hi in win]
                    n += 1
                    ok = X.shape[0] == int(np.prod(w))
                    for s in range(X.shape[0]):
                        if not ok:
                            break
                        t = digits(s, w)
                        r = sum((lo + ti) * b for (lo, _), ti, b in zip(win, t, B))
                        ok = 0 <= r < full.shape[0] and bool(np.array_equal(X[s], full[r]))
                    if not ok and bad is None:
                        bad = dict(dims=list(dims), windows=[list(x) for x in win], format=fmt)
        out.append(ObResult(f"{CORE}::_kron_core::leaf-model:rows-of-product-of-windows[{fmt}]", "fdx",
                            "failed" if bad else "discharged", "exhaustive", _t.time() - t0, function=f"{CORE}::_kron_core",
                            model=bad, detail=f"exhaustive over the stated finite grid: K<=3, 1..{dmax} rows per factor, "
                                              f"every non-empty row window; {n} products", engine="fdx"))
    # ---- (2)
    t0, n, bad = _t.time(), 0, None
    for R in range(0, 7):
        M = np.arange(2 * R).reshape(R, 2)
        S = sp.csr_matrix(M + 1) if R else None
        for lo in [None] + list(range(-R - 2, R + 3)):
            for hi in [None] + list(range(-R - 2, R + 3)):
                a, b = py_slice_bounds(lo, hi, R)
                exp = list(range(a, b))
                n += 1
                got = [list(range(R))[lo:hi], [int(x) // 2 for x in M[lo:hi, 0]]]
                if S is not None:
                    got.append([int(x - 1) // 2 for x in S[lo:hi, :].toarray()[:, 0]])
                if any(g != exp for g in got) and bad is None:
                    bad = dict(R=R, lo=lo, hi=hi, model=exp, observed=got)
    out.append(ObResult("python/numpy/scipy::row-slice::leaf-model:py_slice_bounds", "fdx", "failed" if bad else "discharged",
                        "exhaustive", _t.time() - t0, function=f"{CORE}::kron", model=bad,
                        detail=f"exhaustive over the stated finite grid: R<=6, bounds in [-R-2, R+2] or None; {n} slices",
                        engine="fdx"))
    # ---- (3)
    t0, n, bad = _t.time(), 0, None
    conv = {"dense": lambda x: x, "csr": sp.csr_matrix, "coo": sp.coo_matrix}
    for K in (1, 2, 3):
        for dims in itertools.product(range(1, dmax + 1), repeat=K):
            fs = factors(dims)
            for L in range(0, K + 1):
                pairs = [[(p, q) for p in range(n_) for q in range(p, n_)] for n_ in dims[:L]]
                for ix in itertools.product(*pairs):
                    for fmt in ("dense", "csr", "coo"):
                        ops = [conv[fmt](f) for f in fs]
                        res = list(qc.gen_ops_maybe_sliced(ops, ix))
                        n += 1
                        ok = len(res) == K
                        for i, (r, f) in enumerate(zip(res, fs)):
                            exp = f[ix[i][0]:ix[i][1] + 1, :] if i < L else f
                            rf = ("dense" if not sp.issparse(r) else r.format)
                            ok = ok and rf == fmt and np.array_equal(r.toarray() if sp.issparse(r) else np.asarray(r), exp)
                        if not ok and bad is None:
                            bad = dict(dims=list(dims), ix=[list(x) for x in ix], format=fmt)
    out.append(ObResult(f"{CORE}::gen_ops_maybe_sliced::leaf-model:row-windows-on-real-matrices", "fdx",
                        "failed" if bad else "discharged", "exhaustive", _t.time() - t0,
                        function=f"{CORE}::gen_ops_maybe_sliced", model=bad,
                        detail=f"exhaustive over the stated finite grid: K<=3, 1..{dmax} rows, every valid ix prefix, "
                               f"dense/csr/coo; {n} calls", engine="fdx"))
    return out
