from contracts.index import entry_extend

_C = "quimb/core.py"
entry_extend(
    "C15", modules=["contracts.c15_ext"],
    E1=[f"{_C}::pkron", f"{_C}::permute", f"{_C}::kronpow", f"{_C}::partial_trace", f"{_C}::ind_complement",
        f"{_C}::_trace_lose", f"{_C}::_trace_keep"],
    LEMMAS=False,
    PROVIDERS=["contracts.c15_ext.provider_grid"],
    TRUSTED=["leaf (c15_ext): a 1-d numpy integer array of concrete length is a python list: np.asarray of a sequence, "
             "len, integer and integer-array indexing a[idx] = [a[i] for i in idx], a[idx] = v assigns a[idx[k]] = v[k], "
             "np.empty(n) (uninitialised), np.arange(n), enumerate, membership, star-unpacking",
             "leaf (c15_ext): ikron / permute inside pkron, _permute_sparse / _permute_dense inside permute, kron inside "
             "kronpow, dim_map / _partial_trace_simple / _partial_trace_dense / _find_shape_of_nested_int_array (one shape "
             "entry per nesting level) / issparse inside partial_trace are uninterpreted: the contract fixes which is "
             "called, in which order, with which arguments; what permute and the partial-trace routes compute is checked "
             "against numpy transpose / einsum by the grid provider (exhaustive over the stated finite grid, not proved)",
             "leaf (c15_ext): in _trace_lose / _trace_keep the state p is an operator (isop true; kets are first turned "
             "into projectors by dot(p, dag(p)), not modelled), trace(block) is an uninterpreted function of the block, "
             "numpy slicing lo:hi:step selects rows lo, lo+step, ... < hi; euclidean division by a positive divisor is the "
             "function pair (DIV, MOD) with its defining equation (divisor > 0 is an obligation); two arithmetic cuts "
             "(alpha < a; monotonicity of multiplication by e*b >= 0) are proved as obligations of their own and then used "
             "as hypotheses of slice-inside-p"],
    ASSUMPTIONS=["STRUCTURE BOUND (value-unbounded), c15_ext: pkron K <= 3 subsystems with every ordered non-empty index "
                 "subset (20 cases), dimensions symbolic >= 1; _trace_lose / _trace_keep: K <= 3 with every position, "
                 "dimensions symbolic >= 1, i.e. a, e|s, b arbitrary positive integers (K = 1 of _trace_lose is the instance "
                 "dims = (1, e)); kronpow p <= 4; ind_complement n <= 4 with every subset, ascending and descending; "
                 "partial_trace: dims an ndarray or a nested sequence with 1..3 array dimensions",
                 "c15_ext: _trace_lose / _trace_keep contracts cover the slicing arithmetic and the store pattern of an "
                 "arbitrary output entry (i, j) with i <= j, not that every entry is visited (loop ranges are the code's) "
                 "nor the numerics of trace; _partial_trace_simple, _partial_trace_dense, itrace, _permute_dense, "
                 "_permute_sparse, ikron's argument normalisation: grid provider / bounded run-time contracts only"],
    BOUNDED_FOR={"pkron": ["pkron"], "permute": ["permute"], "partial_trace": ["ptr", "partial_trace"],
                 "_trace_lose": ["ptr", "partial_trace"], "_trace_keep": ["ptr", "partial_trace"]},
    EXPLANATION="Extension (c15_ext): pkron = ikron on the leading block [prod dims[inds], prod rest] followed by permute "
                "with dims[p] and the INVERSE of p = inds ++ ascending complement, options threaded; permute / "
                "partial_trace dispatch (sparse vs dense route, dim_map exactly for lattices); kronpow = kron of p copies "
                "with options; ind_complement = ascending complement; _trace_lose: the strided block of entry (i, j) is "
                "exactly the e rows (alpha, t, beta) / columns of the lost subsystem, inside p, stored at [i, j] and "
                "conjugated at [j, i]; _trace_keep: for every k < a the block is the b consecutive rows (k, i, beta), "
                "accumulated at [i, j].  Grid provider: the real permute (dense, sparse), pkron, partial_trace (dense and "
                "every sparse format, ket and operator), _trace_lose, _trace_keep, itrace, ind_complement and "
                "_find_shape_of_nested_int_array re-compiled from the checked tree's source against numpy references on "
                "every input of the stated grid.")
