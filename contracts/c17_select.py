"""C17 -- selection rules of the dense partial eigensolver (quimb/linalg/numpy_linalg.py).

sort_inds(a, method, sigma): np.argsort of a key; contract: for every rule the key is strictly monotone in the
documented order, i.e. for two arbitrary spectrum entries x, y:  key(x) < key(y)  <=>  x comes strictly before y in the
documented order.  Entries are complex numbers (re, im) with magnitude m >= 0, m^2 = re^2 + im^2 (reals: im = 0).
Leaf (assumed): numpy applies the key lambdas element-wise; np.argsort returns a stable ascending permutation."""

import z3

from vf.pyvc import (And, Contract, If, Implies, Loop, NS, Not, Or, Opaque, Unsupported, R, Z, is_num, is_z3, register)

F = "quimb/linalg/numpy_linalg.py"


class Cx:
    """a complex number known through re, im and magnitude mag (any of them may be None = unknown)"""

    def __init__(self, re=None, im=None, mag=None):
        self.re, self.im, self.mag = re, im, mag


class Pair:
    """the two arbitrary entries of the array, processed element-wise"""

    def __init__(self, x, y):
        self.x, self.y = x, y

    def map(self, f):
        return Pair(f(self.x), f(self.y))


def rabs(v):
    return If(v >= 0, v, -v)


RULES = ["LM", "SM", "SA", "SR", "SI", "LA", "LR", "LI", "TM", "TR", "TI"]


@register
class SortInds(Contract):
    target = f"{F}::sort_inds"
    property_ids = ("C17",)
    floor = 1
    safety = True

    def cases(self):
        out = []
        for m in RULES:
            out.append(NS(name=f"method={m}", method=m, kind="complex" if m not in ("SA", "LA") else "real"))
            if m in ("LM", "SM", "TM"):
                out.append(NS(name=f"method={m.lower()},real-spectrum", method=m.lower(), kind="real"))
        return out

    def mk(self, cx, nm, kind):
        re, im, mag = cx.Real(f"{nm}_re"), cx.Real(f"{nm}_im"), cx.Real(f"{nm}_mag")
        if kind == "real":
            cx.assume(And(im == 0, mag == rabs(re)))
        else:
            cx.assume(And(mag >= 0, mag * mag == re * re + im * im))
        return Cx(re, im, mag)

    def inputs(self, cx, case):
        x, y = self.mk(cx, "x", case.kind), self.mk(cx, "y", case.kind)
        sigma = cx.Real("sigma") if case.method.upper() in ("TM", "TR", "TI") else None
        M = case.method.upper()
        # domain of the rule: keys must be defined (no division by zero): SM needs non-zero entries, T* entries that
        # do not sit exactly on the target
        if M == "SM":
            cx.assume(And(x.mag != 0, y.mag != 0))
        if M == "TM":
            cx.assume(And(x.mag != sigma, y.mag != sigma))
        if M == "TR":
            cx.assume(And(x.re != sigma, y.re != sigma))
        if M == "TI":
            cx.assume(And(x.im != sigma, y.im != sigma))
        return dict(a=Pair(x, y), method=case.method, sigma=sigma)

    def attr(self, cx, base, attr, node):
        if isinstance(base, Pair) and attr in ("real", "imag"):
            return base.map(lambda c: c.re if attr == "real" else c.im)
        return NotImplemented

    def call(self, cx, name, args, kwargs, node):
        if name == "abs":
            v = args[0]
            if isinstance(v, Pair):
                return v.map(lambda c: c.mag if isinstance(c, Cx) else rabs(c))
        if name == "__binop__":
            op, a, b = args
            if isinstance(a, Pair) or isinstance(b, Pair):
                def el(v, side):
                    return getattr(v, side) if isinstance(v, Pair) else v

                def ap(u, w):
                    if isinstance(w, Cx) and is_num(u) and op == "Div":
                        # 1 / complex: |1/a| = 1/|a|
                        cx.oblige(f"divzero@{node.lineno}", "safety", w.mag != 0, node.lineno)
                        return Cx(mag=R(u) / w.mag if not (isinstance(u, int) and u < 0) else None)
                    if isinstance(w, Cx) and is_num(u) and op == "Sub" and not is_z3(u) and u == 0:
                        return Cx(re=-w.re, im=-w.im, mag=w.mag)  # negation
                    if isinstance(u, Cx) or isinstance(w, Cx):
                        raise Unsupported("complex arithmetic")
                    return cx.binop(getattr(__import__("ast"), op)(), u, w, node)

                return Pair(ap(el(a, "x"), el(b, "x")), ap(el(a, "y"), el(b, "y")))
        if name == "np.argsort":
            return ("argsort", args[0])
        return NotImplemented

    def ev_neg(self):
        pass

    def ensures(self, a, r, cx, case):
        ok = isinstance(r, tuple) and r and r[0] == "argsort" and isinstance(r[1], Pair)
        d = {"argsort-of-key": ok}
        if not ok:
            return d
        kx, ky = r[1].x, r[1].y
        if isinstance(kx, Cx) or isinstance(ky, Cx):
            # a complex key is only acceptable for a real spectrum (numpy then sorts the real numbers)
            d["key-is-real"] = case.kind == "real"
            if case.kind != "real":
                return d
            kx, ky = kx.re, ky.re
        x, y, s = a.a.x, a.a.y, a.sigma
        M = case.method.upper()
        before = {
            "LM": x.mag > y.mag, "SM": x.mag < y.mag, "SA": x.re < y.re, "SR": x.re < y.re, "SI": x.im < y.im,
            "LA": x.re > y.re, "LR": x.re > y.re, "LI": x.im > y.im,
        }
        if s is not None:
            before.update({"TM": rabs(x.mag - s) < rabs(y.mag - s), "TR": rabs(x.re - s) < rabs(y.re - s),
                           "TI": rabs(x.im - s) < rabs(y.im - s)})
        d["key-order-is-documented-order"] = (R(kx) < R(ky)) == before[M]
        return d


class _Neg:
    pass


# -----------------------------------------------------------------------------------------------------------
# eigs_numpy: the k requested eigenpairs are the k best by the rule, values and vectors re-indexed by the SAME
# permutation, ascending afterwards if sort
# -----------------------------------------------------------------------------------------------------------

before = z3.Function("rule_before", z3.RealSort(), z3.RealSort(), z3.BoolSort())  # strict documented order of the rule
col0 = z3.Function("evec_col", z3.IntSort(), z3.DeclareSort("Vec"))
Pmap = z3.Function("P_applied", col0.range(), col0.range())
lam0 = z3.Function("eval", z3.IntSort(), z3.RealSort())


class Vals:
    """1-d array of eigenvalues: entry j is lam0(src(j)); n entries"""

    def __init__(self, src, n):
        self.src, self.n = src, n


class Cols:
    """eigenvector matrix: column j is col0(src(j)) (optionally mapped by P); n columns"""

    def __init__(self, src, n, mapped=False):
        self.src, self.n, self.mapped = src, n, mapped


class Idx:
    """integer index array: entry j is get(j); n entries"""

    def __init__(self, get, n):
        self.get, self.n = get, n


@register
class EigsNumpy(Contract):
    target = f"{F}::eigs_numpy"
    property_ids = ("C17",)
    floor = 6
    safety = False

    def cases(self):
        return [NS(name=f"vecs={v},sort={s},P={p}", vecs=v, sort=s, P=p) for v in (True, False) for s in (True, False)
                for p in ("None", "given")]

    def inputs(self, cx, case):
        n, k = cx.Int("n"), cx.Int("k")
        cx.assume(And(n >= 1, k >= 1))
        cx.ghost.update(n=n, k=k)
        return dict(A=Opaque(cx.Val("A")), k=k, B=None, which="SA", return_vecs=case.vecs, sigma=None, isherm=True,
                    P=None if case.P == "None" else Opaque(cx.Val("P")), sort=case.sort, eig_opts={})

    def attr(self, cx, base, attr, node):
        if base is None and attr == "_DENSE_EIG_METHODS":
            return NS(_eig_table=True)
        return NotImplemented

    def call(self, cx, name, args, kwargs, node):
        g = NS(cx.ghost)
        if name == "__getitem__":
            base, idx = args
            if isinstance(base, NS) and "_eig_table" in base:
                return ("eig_fn", idx)
            if isinstance(base, Idx) and isinstance(idx, slice) and idx.start is None and idx.step is None:
                return Idx(base.get, If(idx.stop < base.n, idx.stop, base.n))  # [:k]
            if isinstance(base, Vals) and isinstance(idx, Idx):
                return Vals(lambda j, b=base, i=idx: b.src(i.get(j)), idx.n)
            if isinstance(base, Cols) and isinstance(idx, tuple) and len(idx) == 2 and isinstance(idx[0], slice) \
                    and isinstance(idx[1], Idx):
                return Cols(lambda j, b=base, i=idx[1]: b.src(i.get(j)), idx[1].n, base.mapped)
            return NotImplemented
        if name == "__getslice__" and isinstance(args[0], Idx) and args[1] is None and args[3] is None:
            base, hi = args[0], args[2]
            return Idx(base.get, If(hi < base.n, hi, base.n))  # [:k] (k >= 1)
        if name == "__isinstance__" and args[1] == "qu.Lazy":
            return False  # kind: concrete operators (a Lazy is just called first)
        if name == "qu.dag":
            return Opaque(cx.Val("dagP"))
        if name == "__binop__" and args[0] == "MatMult" and isinstance(args[1], Opaque) and isinstance(args[2], Opaque):
            return Opaque(cx.Val("prod"))
        if name == "qu.issparse":
            return False
        if name == "eig_fn":
            # leaf [A]: all n eigenvalues (and eigenvectors as columns, same order)
            key = cx.env["eig_fn"][1]
            if key[1] is True:
                return (Vals(lambda j: j, g.n), Cols(lambda j: j, g.n))
            return Vals(lambda j: j, g.n)
        if name == "sort_inds":
            lk = args[0]
            perm = z3.Function(cx._name("rule_perm"), z3.IntSort(), z3.IntSort())
            a, b = z3.Ints("a!p b!p")
            n = lk.n
            # proved contract of sort_inds + argsort leaf: a permutation of [0,n) that lists the entries in the
            # documented order of the rule (no later entry strictly precedes an earlier one)
            cx.assume(z3.ForAll([a], Implies(And(0 <= a, a < n), And(0 <= perm(a), perm(a) < n))))
            cx.assume(z3.ForAll([a, b], Implies(And(0 <= a, a < b, b < n), And(
                perm(a) != perm(b), Not(before(lam0(lk.src(perm(b))), lam0(lk.src(perm(a)))))))))
            rank = z3.Function(cx._name("rule_rank"), z3.IntSort(), z3.IntSort())  # inverse permutation (ghost)
            cx.assume(z3.ForAll([a], Implies(And(0 <= a, a < n), rank(perm(a)) == a)))
            cx.ghost["rule_perm"] = perm
            cx.ghost["rule_rank"] = rank
            cx.ghost["rule_on"] = lk
            return Idx(lambda j: perm(j), n)
        if name == "np.argsort":
            lk = args[0]
            so = z3.Function(cx._name("asc_perm"), z3.IntSort(), z3.IntSort())
            a, b = z3.Ints("a!s b!s")
            cx.assume(z3.ForAll([a], Implies(And(0 <= a, a < lk.n), And(0 <= so(a), so(a) < lk.n))))
            cx.assume(z3.ForAll([a, b], Implies(And(0 <= a, a < b, b < lk.n), And(
                so(a) != so(b), lam0(lk.src(so(a))) <= lam0(lk.src(so(b)))))))
            return Idx(lambda j: so(j), lk.n)
        if name == "np.sort":
            lk = args[0]
            so = z3.Function(cx._name("asc_perm"), z3.IntSort(), z3.IntSort())
            a, b = z3.Ints("a!s b!s")
            cx.assume(z3.ForAll([a], Implies(And(0 <= a, a < lk.n), And(0 <= so(a), so(a) < lk.n))))
            cx.assume(z3.ForAll([a, b], Implies(And(0 <= a, a < b, b < lk.n), And(
                so(a) != so(b), lam0(lk.src(so(a))) <= lam0(lk.src(so(b)))))))
            return Vals(lambda j: lk.src(so(j)), lk.n)
        if name == "qu.qarray":
            return args[0]
        if name == "__binop__" and args[0] == "MatMult" and isinstance(args[2], Cols):
            c = args[2]
            return Cols(c.src, c.n, mapped=True)
        if name == ".toarray":
            return args[0]
        return NotImplemented

    def ensures(self, a, r, cx, case):
        g = NS(cx.ghost)
        j, j2 = z3.Ints("j!res j2!res")
        if case.vecs:
            ok = isinstance(r, tuple) and len(r) == 2 and isinstance(r[0], Vals) and isinstance(r[1], Cols)
            d = {"returns-values-and-vectors": ok}
            if not ok:
                return d
            lk, vk = r
        else:
            ok = isinstance(r, Vals)
            d = {"returns-values": ok}
            if not ok:
                return d
            lk, vk = r, None
        m = If(g.k < g.n, g.k, g.n)
        if "rule_perm" not in g:
            return {"selection-goes-through-sort_inds": False}
        perm = g.rule_perm
        d["count-is-min(k,n)"] = lk.n == m
        # the returned entries are exactly the first min(k,n) entries of the rule order (as a set)
        rank = g.rule_rank
        d["selection-is-the-k-best-by-the-rule"] = Implies(And(0 <= j, j < lk.n), And(
            0 <= lk.src(j), lk.src(j) < g.n, 0 <= rank(lk.src(j)), rank(lk.src(j)) < m))
        d["no-entry-returned-twice"] = Implies(And(0 <= j, j < j2, j2 < lk.n), lk.src(j) != lk.src(j2))
        if vk is not None:
            d["vectors-paired-with-values"] = And(vk.n == lk.n, Implies(And(0 <= j, j < m), vk.src(j) == lk.src(j)))
            d["mapped-out-of-subspace-iff-P"] = vk.mapped == (case.P == "given")
        if case.sort:
            d["ascending"] = Implies(And(0 <= j, j < j2, j2 < m), lam0(lk.src(j)) <= lam0(lk.src(j2)))
        else:
            d["rule-order-kept"] = Implies(And(0 <= j, j < m), lk.src(j) == perm(j))
        return d
