"""index of the deductive part (E1 contracts, lemmas, E2/E4/fdx providers) per property.
The property modules under props/ carry the bounded drivers and the manifest metadata; this index is merged
into them by vf.framework.load_prop."""
import importlib

INDEX = {}


def entry(pid, modules=(), **kw):
    INDEX[pid] = dict(modules=list(modules), **kw)


def load(pid):
    e = INDEX.get(pid)
    if not e:
        return None
    for m in e["modules"]:
        importlib.import_module(m)
    out = dict(e)
    provs = []
    for p in e.get("PROVIDERS", []):
        if isinstance(p, str):
            mod, _, fn = p.rpartition(".")
            provs.append(getattr(importlib.import_module(mod), fn))
        else:
            provs.append(p)
    out["PROVIDERS"] = provs
    return out


_C08 = "quimb/tensor/tn1d/core.py"
entry("C08", modules=["contracts.c08_mps"],
      E1=[f"{_C08}::parse_cur_orthog", f"{_C08}::TensorNetwork1DFlat.left_canonize_site",
          f"{_C08}::TensorNetwork1DFlat.right_canonize_site", f"{_C08}::TensorNetwork1DFlat.left_canonicalize",
          f"{_C08}::TensorNetwork1DFlat.right_canonicalize", f"{_C08}::MatrixProductState.shift_orthogonality_center",
          f"{_C08}::TensorNetwork1DFlat.calc_current_orthog_center", f"{_C08}::MatrixProductState.canonicalize"],
      TRUSTED=["leaf: tensor_canonize_bond(T1,T2) leaves T1 an isometry towards T2 and touches no other tensor (QR); "
               "checked at run time by the C08 drivers",
               "leaf: count_canonized returns (lo, ro) such that the lo leading sites are left isometries, the ro trailing "
               "sites right isometries and lo+ro <= L-1 (numerical test inside quimb)"],
      ASSUMPTIONS=["open boundary chains (cyclic=False); bra=None; normalize=False in the sweep helpers",
                   "union-typed parameters are enumerated by kind (where: int|pair; record: pair|int|'calc'|None via "
                   "info or via cur_orthog; inplace: True|False): every combination is its own obligation set"],
      EXPLANATION="E1 (mpsghost): ghost arrays isL/isR per MPS heap object; proved for all L, all sites, all kinds: "
                  "left/right_canonize_site, left/right_canonicalize (loop invariants over the swept prefix + frame), "
                  "shift_orthogonality_center (strongest frame form), calc_current_orthog_center, parse_cur_orthog, "
                  "canonicalize: Sound(info', result) and min(where) <= a <= b <= max(where), receiver untouched when "
                  "not in place, nothing outside the span of old record and target touched.")
