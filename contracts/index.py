"""index of the deductive part (E1 contracts, lemmas, E2/E4/fdx providers) per property.
The property modules under props/ carry the bounded drivers and the manifest metadata; this index is merged
into them by vf.framework.load_prop."""
import importlib

INDEX = {}


def entry(pid, modules=(), **kw):
    INDEX[pid] = dict(modules=list(modules), **kw)


def entry_extend(pid, modules=(), **kw):
    """merge further modules / E1 targets / providers / trusted base / assumptions into the entry of a property
    (creates the entry if there is none); EXPLANATION strings are concatenated"""
    e = INDEX.setdefault(pid, dict(modules=[]))
    for m in modules:
        if m not in e["modules"]:
            e["modules"].append(m)
    for k, v in kw.items():
        if k == "EXPLANATION":
            e[k] = (e.get(k, "") + " " + v).strip()
        elif k == "BOUNDED_FOR":
            e.setdefault(k, {}).update(v)
        elif k == "LEMMAS":
            e[k] = e.get(k, False) or v
        else:
            cur = e.setdefault(k, [])
            for x in v:
                if x not in cur:
                    cur.append(x)


def load(pid):
    e = INDEX.get(pid)
    if not e:
        return None
    for m in e["modules"]:
        importlib.import_module(m)
    out = dict(e)
    provs = []
    for p in e.get("PROVIDERS", []):
        if isinstance(p, str):
            mod, _, fn = p.rpartition(".")
            provs.append(getattr(importlib.import_module(mod), fn))
        else:
            provs.append(p)
    out["PROVIDERS"] = provs
    return out


_C08 = "quimb/tensor/tn1d/core.py"
entry("C08", modules=["contracts.c08_mps"],
      E1=[f"{_C08}::parse_cur_orthog", f"{_C08}::TensorNetwork1DFlat.left_canonize_site",
          f"{_C08}::TensorNetwork1DFlat.right_canonize_site", f"{_C08}::TensorNetwork1DFlat.left_canonicalize",
          f"{_C08}::TensorNetwork1DFlat.right_canonicalize", f"{_C08}::MatrixProductState.shift_orthogonality_center",
          f"{_C08}::TensorNetwork1DFlat.calc_current_orthog_center", f"{_C08}::MatrixProductState.canonicalize",
          f"{_C08}::MatrixProductState.swap_sites_with_compress", f"{_C08}::MatrixProductState.swap_site_to",
          f"{_C08}::MatrixProductState.compress_site", f"{_C08}::MatrixProductState.singular_values",
          f"{_C08}::MatrixProductState.magnetization", f"{_C08}::MatrixProductState.partial_trace_to_dense_canonical"],
      TRUSTED=["leaf: tensor_canonize_bond(T1,T2) leaves T1 an isometry towards T2 and touches no other tensor (QR); "
               "checked at run time by the C08 drivers",
               "leaf: Tensor.split(absorb) of a two-site tensor leaves the non-absorbing factor isometric (left: the right "
               "factor, right: the left factor, both/unspecified: neither) [C05]; tensor_compress_bond likewise",
               "leaf: count_canonized returns (lo, ro) such that the lo leading sites are left isometries, the ro trailing "
               "sites right isometries and lo+ro <= L-1 (numerical test inside quimb)"],
      ASSUMPTIONS=["open boundary chains (cyclic=False); bra=None; normalize=False in the sweep helpers",
                   "union-typed parameters are enumerated by kind (where: int|pair; record: pair|int|'calc'|None via "
                   "info or via cur_orthog; inplace: True|False): every combination is its own obligation set"],
      EXPLANATION="E1 (mpsghost): ghost arrays isL/isR per MPS heap object; proved for all L, all sites, all kinds: "
                  "left/right_canonize_site, left/right_canonicalize (loop invariants over the swept prefix + frame), "
                  "shift_orthogonality_center (strongest frame form), calc_current_orthog_center, parse_cur_orthog, "
                  "canonicalize: Sound(info', result) and min(where) <= a <= b <= max(where), receiver untouched when "
                  "not in place, nothing outside the span of old record and target touched.")


_TC = "quimb/tensor/tensor_core.py"
entry("C01", modules=["contracts.c01_den"],
      E1=[f"{_TC}::tensor_contract", f"{_TC}::maybe_unwrap", f"{_TC}::TensorNetwork.contract_tags",
          f"{_TC}::TensorNetwork.contract", f"{_TC}::TensorNetwork.contract_cumulative", f"{_TC}::TensorNetwork.item",
          f"{_TC}::TNLinearOperator.__init__", f"{_TC}::TensorNetwork.aslinearoperator", f"{_TC}::TensorNetwork.trace"],
      TRUSTED=["leaf: array_contract / cotengra computes the sum-of-products of the arrays it is given over the labels "
               "not in the output; with strip_exponent it returns (mantissa, e) with mantissa*10**e equal to that value",
               "leaf: partition_tensors returns (rest, matched) whose joint contraction is the original network and the "
               "rest keeps the stored exponent (C02); reindex / transpose_ relabel without changing values (C03)",
               "leaf: the action of TNLinearOperator is the contraction of the tensors stored in _tensors",
               "norm is homogeneous: norm(10^e d) = 10^e norm(d); tensors are non-zero and finite (log10 defined)"],
      ASSUMPTIONS=["den domain: a value is 10^e*d with d in an uninterpreted sort, contraction = uninterpreted join with "
                   "unit; exponent bookkeeping is then linear real arithmetic + EUF. Which labels are summed (label "
                   "calculus / output_inds inference) is NOT part of this domain: carried by opaque values",
                   "kinds enumerated: tags in {all, ..., some}; strip_exponent, inplace, preserve_tensor in {True, False}; "
                   "equalize_norms in {'auto', True, False}; exponent None | real; get=None; max_bond=None (exact route); "
                   "generic (non structured) network class; non-empty network"],
      BOUNDED_FOR={"TensorNetwork.contract_tags": ["contract_tags", "contract(tags"], "TensorNetwork.item": ["item"],
                   "TNLinearOperator.__init__": ["TNLinearOperator", "linear operator"]},
      EXPLANATION="E1 (den domain): for every return path of tensor_contract, maybe_unwrap, TensorNetwork.contract, "
                  "contract_tags, contract_cumulative (loop invariant), item, trace, aslinearoperator and the "
                  "TNLinearOperator constructor: den(result) == den(old(self)) incl. the stored exponent, in every "
                  "return form (network | tensor | scalar | (mantissa, exponent)), and the receiver is unchanged when "
                  "not in place.")
entry("C04", modules=["contracts.c01_den"],
      E1=[f"{_TC}::TensorNetwork.strip_exponent", f"{_TC}::TensorNetwork.distribute_exponent",
          f"{_TC}::TensorNetwork.equalize_norms", f"{_TC}::maybe_unwrap"],
      TRUSTED=["leaf: multiply_each(x) multiplies each of the n tensors by x (positive scalar: log prefactor += n*log10 x)",
               "norm is homogeneous; tensors non-zero and finite"],
      ASSUMPTIONS=["den domain as in C01; equalize_norms / distribute_exponent on a network with at least one tensor "
                   "(on an empty network distribute_exponent divides by zero: outside the domain)",
                   "value kinds: None | True | positive real"],
      EXPLANATION="E1 (den domain): strip_exponent, distribute_exponent, equalize_norms (loop invariant) and the "
                  "redistribution inside maybe_unwrap preserve the denoted value exactly and leave the promised form "
                  "(tensor norm == value, exponent == new_exponent / 0 after redistribution).")
_EVO = "quimb/evo.py"
entry("C18", modules=["contracts.c18_evo"],
      E1=[f"{_EVO}::_calc_evo_eq", f"{_EVO}::Evolution.__init__", f"{_EVO}::Evolution._setup_solved_ham",
          f"{_EVO}::Evolution._start_integrator", f"{_EVO}::Evolution._setup_callback",
          f"{_EVO}::Evolution._update_to_expm_ket", f"{_EVO}::Evolution._update_to_solved_ket",
          f"{_EVO}::Evolution._update_to_solved_dop", f"{_EVO}::Evolution._update_to_integrate",
          f"{_EVO}::Evolution.update_to", f"{_EVO}::Evolution.at_times", f"{_EVO}::Evolution.t", f"{_EVO}::Evolution.pt"],
      PROVIDERS=["contracts.c18_evo.provider_support_table"],
      TRUSTED=["leaf: expm_multiply(c*H, v) = exp(c H) v, acting from the left only (on a density operator that is "
               "exp(-i tau H) rho, not the von Neumann flow)",
               "leaf: spectral theorem for (l, V) = eigh(H): V diag(explt(l,tau)) V^dag psi = exp(-i tau H) psi and "
               "V (diag(lt) (V^dag rho V) diag(conj lt)) V^dag = exp(-i tau H) rho exp(+i tau H); explt(l,tau) = exp(-i tau l); "
               "ldmul / rdmul multiply by a diagonal from the left / right",
               "group law of the one-parameter groups Uact / Uconj / Flow: G(a, G(b, x)) = G(a+b, x) (ground instances)",
               "leaf: scipy complex_ode.integrate(t) moves (t, y) to time t along the flow of the right-hand side it was "
               "built with; set_initial_value / set_integrator / set_solout store their arguments",
               "leaf: qu() / qarray() / toarray() change the representation, not the denoted state; y.reshape(d,-1) of the "
               "ravelled state is the state; functools.lru_cache(1) wrapper denotes the wrapped Hamiltonian function",
               "leaf: Try2Then3Args(fn)(t, p, H) calls fn(t, p) or fn(t, p, H) exactly once with the same t, p",
               "leaf: iterating / unpacking a matrix yields its rows (ValueError unless it has exactly two rows); "
               "progbar(ts) iterates ts unchanged; continuous_progbar is a plain context manager",
               "fdx oracle: scipy.linalg.expm and numpy.linalg.eigh on 2x2 / 3x3 Hermitian matrices"],
      ASSUMPTIONS=["kinds enumerated: method in {solve, integrate, expm, 'bogus'}; state in {ket, density operator}; "
                   "Hamiltonian in {dense qarray, sparse csr, (evals, evecs) tuple, [evals, evecs] list, scipy "
                   "LinearOperator, time-dependent callable returning a dense (or sparse) matrix}; int_stop None | callable; "
                   "compute None | callable | dict of two callables; progbar False | True. quimb Lazy, plain ndarray and "
                   "coo/bsr Hamiltonians are outside the table (bounded drivers only)",
                   "times are reals; the Hilbert-space dimension d >= 1 is symbolic in E1 (d = 2 takes the row-unpacking "
                   "path); the fdx provider runs the real constructor at d = 2 and d = 3",
                   "the dynamics itself (ODE integration accuracy, expm accuracy) is not proved: bounded drivers",
                   "NOTE (informational, not obliged: C18 does not mention int_stop): Evolution(p0, (evals, evecs), "
                   "method='integrate' [the default], int_stop=fn) passes the int_stop guard, installs the solved method "
                   "and never consults the stopping condition; the evolution itself is right"],
      BOUNDED_FOR={"Evolution.__init__": ["Evolution", "evolution"], "Evolution._setup_solved_ham": ["solve"]},
      EXPLANATION="E1: support table of Evolution.__init__ by kind enumeration (96 combinations x own-raise paths): the "
                  "constructor raises or installs an update method whose own precondition covers (state kind, Hamiltonian "
                  "kind), the _method string says 'integrate' iff the integrating method is installed (so the t / pt "
                  "properties read the field that method maintains), time/state fields are initialised (I(evo) at t0); "
                  "helpers _setup_solved_ham (stored system is the eigendecomposition, pe0 = V^dag p0 [V]), "
                  "_start_integrator (equation matches (state, time dependence), built from the given Hamiltonian, starts "
                  "at (ravel p0, t0), solout forwards (t, y, ham) and returns the stop verdict), _calc_evo_eq (full table), "
                  "_setup_callback (closures executed symbolically: every compute function once per step with (t, pt, ham); "
                  "the integration callback hands over qarray(y.reshape(d,-1)) = what pt reports). Time algebra with an "
                  "uninterpreted one-parameter group: _update_to_solved_ket/dop use t - t0 (absolute), _update_to_expm_ket "
                  "uses t - self.t then sets _t = t (incremental): pt == U(t - t0) p0 and t' == t after every update, "
                  "two-sided for density operators; update_to dispatches exactly once; at_times (loop invariant, symbolic "
                  "length): the j-th yield is the state at ts[j], one yield per requested time. fdx: the real constructor on "
                  "all 2 x 4 x 2 x 6 combinations + one step vs scipy.linalg.expm, and _calc_evo_eq on its 16 inputs.")
entry("C07", modules=["contracts.c07_circuit"],
      PROVIDERS=["contracts.c07_circuit.provider_gates", "contracts.c07_circuit.provider_cache"],
      TRUSTED=["E2: sympy 1.14 polynomial arithmetic over Q(i) (Poly, domain QQ_I), expand_trig, conjugate of expressions "
               "in real symbols; autoray dispatch to the functions registered for backend 'sympy' (complex, stack, array, "
               "tensordot, transpose, einsum, reshape: thin exact wrappers over sympy / numpy object arrays); cotengra "
               "contracts the ten tensors of su4_gate_param_gen through those wrappers",
               "E2: the normal form modulo {s_k^2 + c_k^2 - 1} decides identities of trigonometric polynomials for all "
               "real parameters (disjoint-variable Groebner basis; real points of a product of circles are Zariski dense)",
               "E2: the textbook table in contracts/c07_circuit.py::_textbook (written from the defining formulas: "
               "rotations exp(-i t/2 P), controlled-U with the first listed qubit as control, Google fSim / general fSim, "
               "qiskit XXPlusYY / XXMinusYY with qubit 0 = first listed qubit, Vatan-Williams SU(4) circuit, qsim "
               "x_1_2 / y_1_2 / hz_1_2); its bit-order convention is checked natively on Circuit + CX (8 cases)",
               "E4: leaf summaries by name: validator _maybe_init_storage, invalidator clear_storage, stamp "
               "_sample_n_gates, counter num_gates = len(_gates), state _psi; their bodies are checked structurally "
               "(cache-leaf-* obligations)",
               "E4 / C03: methods of the state network without trailing underscore do not modify it (except the declared "
               "apply_to_arrays, add_tag, drop_tags, retag_all, randomize); in-place operations squeeze_, astype_, "
               "gauge_all_simple_, add_tag, apply_to_arrays, view_as_, view_like_ change the representation, not the "
               "denoted state (C04)"],
      ASSUMPTIONS=["E2: float literals of the builders are exact dyadic rationals, except roundings of closed forms, which "
                   "are replaced by the closed form when within 1 ulp (u2_gate_param_gen: 2**0.5 -> sqrt(2); constant "
                   "arrays: +-0.7071067811865475/6 -> +-sqrt(2)/2); every substitution is listed in the obligation detail",
                   "E2: parameters are real; one obligation per registered gate name; multi-controlled gates built by "
                   "build_controlled_gate_htn / Gate.build_mpo from a unitary target are not covered here (C06, bounded)",
                   "E4 R1: calls on objects other than self do not apply gates to self unless self is passed as an argument; "
                   "unresolvable self.<attr>(...) callables (to_backend, methods an abstract base expects from subclasses) "
                   "are assumed pure and listed in the census obligation",
                   "E4 R1/R2: objects reached through self's cache containers (the sub-circuits stored by "
                   "sample_gate_by_gate) are owned by the cache: nobody else applies gates to them, their cache is "
                   "covered by valid(self)",
                   "E4 R2: a generator method called without `yield from` runs to completion inside the caller (its "
                   "yields are not suspension points of the caller)",
                   "E4 R3: CircuitBase.apply_to_arrays(fn) is representation-only: fn converts backend / dtype and "
                   "preserves values (every call site in the package does); with a value-changing fn the parameters "
                   "change while cache and gate record stay (observed natively: amplitude stays at the cached value)",
                   "E4 R3: constructors are exempt (the object is born invalid: stamp -1, checked by R4); exceptions "
                   "raised half-way through a mutator are not covered (bounded drivers: a rejected gate)",
                   "E4 R5 (name-level): a variable named in the key expression is taken to be captured by the key; "
                   "representation-only query arguments, not required in keys: optimize, backend (route / library), dtype "
                   "(precision; floats are reals), simplify_sequence / seq, equalize_norms / simplify_equalize_norms "
                   "(value-preserving simplifications, C04), simplify_atol / atol (simplifier tolerance: an approximation "
                   "knob -- conditionals cached under one tolerance or dtype are reused under another), progbar",
                   "the MPS `sample` generators hold no cache field; that they keep sampling the state of the first "
                   "next() after later gates (a snapshot) is outside the cache typestate: bounded drivers"],
      EXPLANATION="E2: the real builders of circuit/gates.py (loaded from the source text) executed on sympy symbols "
                  "through autoray; U^dag U = I and U = textbook decided for all real parameters by exact normal forms of "
                  "trigonometric polynomials (SU4 with 15 parameters included); every constant gate array recognised in "
                  "closed form (1 ulp) and checked exactly; CX bit order checked natively. E4: query-cache typestate by "
                  "reflection over every method of every class of circuit/*.py deriving from CircuitBase, in every "
                  "subclass context (dynamic dispatch of self / super / properties resolved through the MRO): R1 cache "
                  "accesses dominated by the validator, R2 valid havoc'd at yield, R3 mutators end invalidated (append to "
                  "the gate list counts: the validator compares a gate counter; the list never shrinks), R4 copy / "
                  "constructor write the cache fields atomically, R5 cache keys cover the data dependences of the cached "
                  "value; failing obligations carry a native replay executed on the real classes.")


entry("C14", modules=["contracts.c14_bp"],
      E1=["quimb/tensor/belief_propagation/bp_common.py::combine_local_contractions"],
      TRUSTED=["complex power by polar form: (phase*10^lg)^p = phase^p * 10^(p*lg) in an abelian phase group",
               "autoray abs / log10 are the mathematical functions on non-zero values"],
      ASSUMPTIONS=["convergence of message passing and tree-exactness are NOT within reach of any contract: they are "
                   "decided by the bounded stand-in only; only the mantissa/exponent combiner is proved",
                   "without check_zero every value is non-zero (log10 defined)"],
      EXPLANATION="E1 (polar domain): combine_local_contractions returns (m0*10^e0*prod x_i^p_i)^power for all numbers "
                  "of values, in both return forms, and returns zero iff check_zero and some value is zero.")

_C15 = "quimb/core.py"
_C15O = "quimb/gen/operators.py"
entry("C15", modules=["contracts.c15_kron"],
      E1=[f"{_C15}::dynal", f"{_C15}::gen_matching_dynal", f"{_C15}::gen_ops_maybe_sliced", f"{_C15}::kron",
          f"{_C15}::_dim_map_1d", f"{_C15}::_dim_map_1dtrim", f"{_C15}::_dim_map_1dcyclic", f"{_C15}::_dim_map_2d",
          f"{_C15}::_dim_map_2dtrim", f"{_C15}::_dim_map_2dcyclic", f"{_C15}::_dim_map_nd", f"{_C15}::dim_map",
          f"{_C15}::_dim_compressor", f"{_C15}::dim_compress", f"{_C15}::ikron.gen_ops",
          "quimb/calc.py::partial_transpose", f"{_C15O}::ham_heis.gen_term", f"{_C15O}::ham_heis",
          f"{_C15O}::ham_ising", f"{_C15O}::ham_XY", f"{_C15O}::ham_XXZ"],
      LEMMAS=True,
      PROVIDERS=["contracts.c15_kron.provider_leaf_model"],
      TRUSTED=["leaf: _kron_core(*factors) is the right-nested Kronecker product of its factors, i.e. row s of the product "
               "of row windows [lo_i, hi_i) is the tensor product of rows lo_i + t_i with (t_i) the mixed-radix digits of s "
               "w.r.t. the window sizes (definition of the Kronecker product: row r of A(x)B is (r div rows_B, r mod "
               "rows_B)); the leaf is sp.kron / numba kron_dense (C16 carrier); checked against numpy's kron on the "
               "complete grid K<=3, rows<=3 (thorough: 4), every row window, dense and csr, by the fdx provider "
               "(exhaustive over the stated finite grid, not proved)",
               "encoding: numpy / scipy row slicing X[lo:hi, :] follows python slice semantics (negative bounds count from "
               "the end, bounds are clipped, None = end); for factor slicing the side condition 0 <= lo <= hi <= rows is "
               "an obligation (enc); the model is compared with python, numpy and scipy slicing for every length <= 6 "
               "and every bound in [-R-2, R+2] or None by the fdx provider",
               "encoding: a generator is identified with the sequence of values it yields (the generators under contract "
               "have no side effects, so lazy and eager evaluation agree); generator expressions are evaluated eagerly",
               "solver: products of symbolic dimensions are non-linear integer terms decided by z3's non-linear arithmetic "
               "(no product axioms assumed); the ghost digits of the skolem row in kron's post-condition are introduced by "
               "their defining euclidean divisions (existence and uniqueness of quotient and remainder for a positive "
               "divisor)",
               "leaf: int2tup keeps membership (int -> 1-tuple); _find_shape_of_nested_int_array returns the shape of the "
               "nested sequence; spin_operator / eye / kron / ikron inside ham_heis are uninterpreted term constructors "
               "(the operator algebra is bounded, E3); sp.isspmatrix_coo / issparse / .tocsr / .tocoo / .asformat only "
               "change the format label; scipy coo matrices are not subscriptable and numpy arrays have no .tocsr "
               "(modelled as TypeError / AttributeError)",
               "induction principle for the loop of partial_transpose (invariant proved for an arbitrary iteration) and "
               "the skolem-axis argument (a statement proved for an arbitrary fixed axis j holds for all axes)"],
      ASSUMPTIONS=["STRUCTURE BOUND (value-unbounded): the number of subsystems / factors K is fixed per case and all "
                   "dimensions, indices, row numbers and coordinates are symbolic integers: dynal, gen_matching_dynal "
                   "K<=4; gen_ops_maybe_sliced, kron (ownership arithmetic) K<=3; _dim_compressor / dim_compress K<=5 with "
                   "every subset of marked positions; ikron.gen_ops K<=4 with every placement plan; _dim_map_1d/2d(+trim, "
                   "cyclic) M<=3 coordinates; _dim_map_nd K<=3 extents, M<=3 (K=3: M<=2) coordinates, 4 flag combinations; "
                   "dim_map K<=3, M=2.  Larger K / M: bounded run-time contracts only.  partial_transpose and the ham_heis "
                   "coverage are for ALL n (symbolic)",
                   "dimensions / extents >= 1 throughout; kron: 0 <= ri < rf is the property's domain, the range check "
                   "against D is the code's (ValueError allowed exactly when ri < 0 or rf > D); stype / coo_build / "
                   "parallel: (None|'csr', False, False); kron factors all dense / all coo for K<=2, all csr for K<=3 (the "
                   "routes differ only in format conversions); gen_ops_maybe_sliced also with alternating coo/csr",
                   "_dim_compressor is proved for dims >= 2; with a subsystem of dimension 1 (cases dims>=1, K<=2) the same "
                   "post-condition FAILS on the unchanged tree (finding C15-b); dim_compress is therefore stated for "
                   "dims >= 2 (it inherits the defect through its helper); autoplace markers (dims < 0) are excluded",
                   "ikron.gen_ops: the placement plan (block k = positions s_k..e_k, first and last in inds) satisfies the "
                   "overlay condition size(op_k) = prod dims[s_k..e_k], the first dimension of a multi-site block is >= 2 and "
                   "no named interior position already reaches size(op_k); dims of -1 (autoplace) excluded; the body of "
                   "ikron outside gen_ops (argument normalisation, zip/sorted/cycle of operators) is NOT under contract",
                   "dim_map: dims is a nested sequence (the ndarray kind differs only in how shape / ndim are read); "
                   "1-d lattice with cyclic=True and trim=True FAILS on the unchanged tree (TypeError, finding C15-f)",
                   "ham_heis: n >= 2; j and b scalar or triple; parallel in {False, True, None}; the closing bond of a "
                   "cyclic chain is the ordered pair (n-1, 0), so a cyclic 2-chain counts its bond twice; what ikron / "
                   "kron / spin_operator compute is bounded (E3); ham_j1j2, ham_mbl, ham_heis_2D (numpy fancy indexing): "
                   "bounded only"],
      BOUNDED_FOR={"_dim_compressor": ["dim_compress"], "dim_compress": ["dim_compress"], "dim_map": ["dim_map"],
                   "kron": ["kron"], "gen_ops": ["ikron"], "partial_transpose": ["partial_transpose"],
                   "ham_heis": ["ham_heis"], "gen_term": ["ham_heis"]},
      EXPLANATION="E1 (structure-bounded, value-unbounded; non-linear integer arithmetic): dynal yields the mixed-radix "
                  "digits (ranges + weighted sum = x); gen_matching_dynal yields exactly the leading digits of ri and rf up "
                  "to the first difference (ordered when ri <= rf); gen_ops_maybe_sliced cuts factor i to rows [d1,d2+1); "
                  "kron(..., ownership=(ri,rf)): ri_got <= ri < rf <= rf_got, the windows lie inside the factors, the result "
                  "has rf-ri rows and, for an arbitrary row s, the row of the full product it equals (row arithmetic of the "
                  "Kronecker product) is ri+s -- for every 0 <= ri < rf <= D, every factor size; the range check raises "
                  "only outside [0,D]; coo operands are converted before slicing.  _dim_map_*: flat index = row-major "
                  "stride formula, cyclic wraps mod the extent, trim drops exactly the out-of-range coordinates, otherwise "
                  "out-of-range raises; dim_map dispatches (table read from the source) to the right helper and flattens "
                  "dims K-1 times.  _dim_compressor / dim_compress: blocks = maximal runs of equally marked positions with "
                  "the product of their dims, flags alternate, product preserved.  ikron.gen_ops: identity / operator "
                  "blocks tile the dimension list as planned.  partial_transpose: for ALL n the transpose sends ket axis j "
                  "to j+n and bra axis j+n to j exactly for j in sysa.  ham_heis: gen_term's three kinds of term, the range "
                  "terms_needed and the two-site term (field on its first site) + six coverage lemmas: every bond its "
                  "interaction once, closing bond iff cyclic, every site its field once, for ALL n.  fdx provider: the "
                  "abstract models of the trusted leaves (_kron_core rows, slicing) against the real code, exhaustive over "
                  "the stated finite grid.")


_C19 = "quimb/operator/configcore.py"
entry("C19", modules=["contracts.c19_ranking"],
      E1=[f"{_C19}::{_f}" for _f in (
          "flatconfig_to_rank_nosymm", "rank_into_flatconfig_nosymm", "rank_to_flatconfig_nosymm",
          "calculate_strides", "flatconfig_to_rank_mixed_radix_nosymm", "rank_into_flatconfig_mixed_radix_nosymm",
          "rank_to_flatconfig_mixed_radix_nosymm",
          "flatconfig_to_rank_z2", "rank_into_flatconfig_z2", "rank_to_flatconfig_z2",
          "build_pascal_table", "flatconfig_to_rank_u1_pascal", "rank_into_flatconfig_u1_pascal",
          "rank_to_flatconfig_u1_pascal",
          "flatconfig_to_rank_u1u1_pascal", "rank_into_flatconfig_u1u1_pascal", "rank_to_flatconfig_u1u1_pascal",
          "_check_next_coupled_term")],
      LEMMAS=True,
      PROVIDERS=["contracts.c19_ranking.provider_fdx"],
      TRUSTED=["induction over the naturals: every inductive lemma of C19 is discharged as a base / step (/ conclusion) "
               "pair; the induction principle that joins them is not mechanised",
               "forall-introduction over the skolem index g!skolem: the unranking kernels are proved at one arbitrary, "
               "unconstrained index, which stands for every index",
               "composition of the kernel contracts with the lemmas into the bijection statement (rank o unrank = id on "
               "[0,size), unrank o rank = id on the sector, ranks in [0,size), size = 2^n / 2^(n-1) / C(n,k) / "
               "C(na,ka)*C(nb,kb) / prod sizes) is a paper argument over proved pieces (stated in the module docstring "
               "and next to each lemma group)",
               "fdx reference: the thirteen 2x2 matrices of contracts.c19_ranking.textbook_mats (written from the textbook "
               "conventions documented in SparseOperatorBuilder.add_term, not read from quimb) and numpy's 2x2 products"],
      ASSUMPTIONS=["njit kernels: decorators dropped, ints mathematical; overflow side conditions emitted where shifts are "
                   "used: n <= 62 is a precondition of the binary kernels (nosymm / z2), every `(r << 1) | x` is shown "
                   "<= 2^63-1 and `1 << (n-2)` has 0 <= n-2 <= 62; binomials / mixed-radix products are NOT bounded (C(n,k) "
                   "< 2^63 needs n <= 66)",
                   "bit operations are encoded arithmetically, each with a proved `enc` side condition: r<<1 = 2r (r>=0), "
                   "r>>1 = r div 2 (r>=0), r&1 = r mod 2 (r>=0), a|b = a+b (a even, b a bit), a^b = (a+b) mod 2 (bits), "
                   "1<<e = pow2(e) (e>=0)",
                   "ASSUMED encoding of and-with-a-power-of-two in rank_into_flatconfig_z2: for r >= 0 and m = 2^e (e >= 0, "
                   "proved: m == pow2(n-2-i) in iteration i), r & m = m if (r >> e) is odd else 0",
                   "spec functions are uninterpreted; only ground instances of their defining equations are assumed (val, "
                   "sh, pow2, par, PB, C [C(n,0)=1, C(0,k)=0 for k>=1, Pascal's rule], R/KR, UR/UK, ST, S, H, SO, Touched); "
                   "instances of proved lemmas are assumed where a comment names the lemma",
                   "array predicates IsBits / IsPascal / TermOK are opaque in the code proofs and used through instances of "
                   "their definitions at the indices read (bits-subrange / bits-shift are proved from the unfolded "
                   "definitions); build_pascal_table proves the unfolded (quantified) table property",
                   "rank_into_flatconfig_z2 / rank_to_flatconfig_z2 require n >= 2: `1 << (n - 2)` is a negative shift "
                   "otherwise; flatconfig_to_rank_u1_pascal requires a bit string of weight exactly k (else pt is indexed "
                   "out of range); rank_into_flatconfig_u1_pascal requires 0 <= r < C(n,k) for the same reason; the Pascal "
                   "table parameter must satisfy pt[a,b] = C(a,b) (b <= a), 0 above the diagonal, on its whole shape "
                   "(what build_pascal_table returns); u1u1 sectors require 0 <= ka <= na, 0 <= kb <= nb",
                   "u1u1 view model: flatconfig[:na] is the same storage with length na; flatconfig[na:] is shift(c,na) with "
                   "shift(c,off)[j] = c[j+off]; a callee's writes into a view are written through to the base array; "
                   "products and quotients by the symbolic block size Db = C(nb,kb) are kept abstract inside the code proofs "
                   "(mul / div / mod with the division theorem x = d*div(x,d) + mod(x,d), 0 <= mod < d for d >= 1, python "
                   "semantics for a positive divisor) and defined as x*y in the arithmetic lemmas",
                   "_check_next_coupled_term: sizes_op[ia] in {1,2} and 0 <= regs[ia] < n on the term (TermOK), bi a bit "
                   "string, the term's entries lie inside the stacked arrays; proved: index arithmetic, all subscripts in "
                   "bounds, frame of bj; NOT under contract: the value written at the term's registers and hij (bounded "
                   "drivers + the fdx obligations on build_coupling_numba / _OPMAP row order)",
                   "not under contract (bounded drivers only): the generic dispatchers rank_to_flatconfig / "
                   "flatconfig_to_rank / build_coo_numba_core / matvec_numba, the build_coo_* / matvec_* drivers, "
                   "flatconfig_coupling_numba, HilbertSpace orderings",
                   "fdx simplify_single_site_ops: complete over all sequences of 1..3 (thorough: 4) names of _OPMAP; the "
                   "coefficient (the function is linear in it) is represented by 1.0 and 0.75-0.5j; comparison atol 1e-12 "
                   "(all entries are dyadic rationals, exact in binary floating point)",
                   "fdx jordan_wigner_transform: all single- and two-operator terms over the 13 names on 4 registers, "
                   "identity labelling and one permuted string labelling, plus the empty term"],
      BOUNDED_FOR={"flatconfig_to_rank_nosymm": ["HilbertSpace (no symmetry)"],
                   "rank_into_flatconfig_nosymm": ["HilbertSpace (no symmetry)"],
                   "rank_to_flatconfig_nosymm": ["HilbertSpace (no symmetry)"],
                   "calculate_strides": ["mixed-radix HilbertSpace"],
                   "flatconfig_to_rank_mixed_radix_nosymm": ["mixed-radix HilbertSpace"],
                   "rank_into_flatconfig_mixed_radix_nosymm": ["mixed-radix HilbertSpace"],
                   "rank_to_flatconfig_mixed_radix_nosymm": ["mixed-radix HilbertSpace"],
                   "flatconfig_to_rank_z2": ["HilbertSpace Z2"], "rank_into_flatconfig_z2": ["HilbertSpace Z2"],
                   "rank_to_flatconfig_z2": ["HilbertSpace Z2"],
                   "build_pascal_table": ["HilbertSpace U1:", "get_size(sector, symmetry)"],
                   "flatconfig_to_rank_u1_pascal": ["HilbertSpace U1:"], "rank_into_flatconfig_u1_pascal": ["HilbertSpace U1:"],
                   "rank_to_flatconfig_u1_pascal": ["HilbertSpace U1:"],
                   "flatconfig_to_rank_u1u1_pascal": ["HilbertSpace U1U1"],
                   "rank_into_flatconfig_u1u1_pascal": ["HilbertSpace U1U1"],
                   "rank_to_flatconfig_u1u1_pascal": ["HilbertSpace U1U1"],
                   "_check_next_coupled_term": ["config_coupling / flatconfig_coupling", "build_sparse_matrix(stype)"],
                   "simplify_single_site_ops": ["processed term list (H.terms)", "build_dense == sum of Kronecker products"],
                   "get_pauli_decomp": ["processed term list (H.terms)"],
                   "jordan_wigner_transform": ["processed term list (H.terms)"]},
      EXPLANATION="E1: 18 njit kernels of operator/configcore.py proved against recurrence specs for ALL sizes: binary "
                  "(no symmetry), Z2, U1 (Pascal table), U1xU1 (div/mod composition over array views) and mixed-radix "
                  "rank / unrank kernels, their allocating wrappers, build_pascal_table (pt[n,k] = C(n,k), 0 above the "
                  "diagonal), calculate_strides, and the index arithmetic + frame of _check_next_coupled_term; all "
                  "subscripts in bounds, no division by zero, shift / or encodings exact, no int64 overflow in the binary "
                  "kernels for n <= 62.  Lemmas (base / step pairs, z3): each rank / unrank pair is mutually inverse "
                  "between [0,size) and the sector's configurations, with size 2^n, 2^(n-1), C(n,k), C(na,ka)*C(nb,kb), "
                  "prod sizes.  fdx (complete finite domains, real functions executed): _OPMAP rows = get_mat = textbook "
                  "matrices, two-entry rows list input 0 then 1 as _check_next_coupled_term needs (also on the flat arrays "
                  "emitted by build_coupling_numba), get_pauli_decomp sums to the operator for every name and both use_zx, "
                  "jordan_wigner_transform prepends exactly one z per lower register before every ladder operator, "
                  "simplify_single_site_ops preserves the product for every sequence of <= 3 (thorough 4) names -- the "
                  "last FAILS on the unchanged tree for length >= 2 (inverted coefficient ratio, DESIGN finding 14).")


entry("C03", modules=["contracts.c03_frame"],
      PROVIDERS=["contracts.c03_frame.provider_frame", "contracts.c03_frame.provider_alias"],
      TRUSTED=["E4 leaf summaries (declared, joined with the derived ones; their consistency is an obligation "
               "`::leaf-summary-consistent`): modify, _set_data, add_tensor, pop_tensor, _link_*/_unlink_*, add_tag, "
               "drop_tags, retag_, reindex_, set_params, apply_to_arrays, add, delete, __setitem__/__delitem__, "
               "multiply_, in-place dunder operators modify their receiver; any unresolved method whose name ends in "
               "one underscore modifies its receiver",
               "E4 leaf: copy()/deepcopy() return an object through which the receiver cannot be observed to change "
               "(network copies share the immutable data arrays only); select*/_select_tids/tensors return VIEWS "
               "holding the receiver's own tensor objects unless virtual=False",
               "E4 declared typing facts: the attributes exponent, inds, shape, dtype, *_ind_id, *_tag_id, L/Lx/Ly/Lz, "
               "nsites, num_tensors hold immutable values; Tensor._owners (weak back-references) and attributes "
               "initialised lazily under an `is None` / hasattr test are not observable state",
               "E4 O3: functools.partialmethod / inspect report the function objects the live classes resolve to"],
      ASSUMPTIONS=["E4 is an AST-level may-analysis: callee names on receiver-derived values are resolved through "
                   "the class hierarchy of the enclosing class (MRO + every subclass override) or, for values of "
                   "unknown class, by name over the Tensor/TensorNetwork families; callees that cannot be resolved "
                   "(callbacks, external libraries) are ASSUMED pure and listed in the detail of the obligation and "
                   "in `inplace-census`",
                   "option dictionaries passed as **opts carry a flag (inplace=...) only if the function itself "
                   "stores one in them; a flag forwarded through a function's own **kwargs is tracked",
                   "aliases of the receiver created by storing it into fields of OTHER pre-existing objects are not "
                   "tracked (stores into objects constructed in the function, containers and views are)",
                   "arrays are immutable values (no in-place numpy writes): checked by the bounded C03 drivers with "
                   "read-only arrays, not by E4"],
      EXPLANATION="E4 frame analysis over the ast of every function with an `inplace` parameter under quimb/tensor "
                  "(216, of which 167 in the five anchored files): abstract values OTHER / SAFE{flag} / ORIG with "
                  "part-depths, path facts on the flag (`if inplace:`, early returns, `inplace or x is not None`), "
                  "effect + return-value summaries derived for ~1200 (function, parameter) pairs by fixpoint over the "
                  "call graph and checked at ~3000 call sites; obligation per function: no write to a value that may "
                  "be the original receiver when the flag is false (O1 idiom/delegation dominance, O2 no write to the "
                  "original name or its parts after the idiom, O4 call sites vs callee summaries). O3: 154 `name_` "
                  "aliases checked by reflection against the function the same class resolves `name` to.")


entry("C17", modules=["contracts.c17_select"],
      E1=["quimb/linalg/numpy_linalg.py::sort_inds", "quimb/linalg/numpy_linalg.py::eigs_numpy"],
      TRUSTED=["numpy applies the key lambdas element-wise; np.argsort / np.sort return a stable ascending permutation",
               "nla.eigh / scipy eigh return all eigenpairs, eigenvector i in column i (leaf: residuals are checked by the "
               "bounded drivers)"],
      ASSUMPTIONS=["sort_inds: keys must be defined: SM on non-zero entries, T* entries not exactly on the target sigma",
                   "eigs_numpy: Hermitian problem (real eigenvalues), dense operator, no metric B; kinds return_vecs, sort, "
                   "P in {None, given}; a complex key is only accepted for a real spectrum",
                   "solver accuracy, residuals, orthonormality, other backends: bounded stand-in only"],
      EXPLANATION="E1 (nonlinear real arithmetic): for each of the 11 selection rules the sort key is strictly monotone in "
                  "the documented order for all (complex) spectrum entries; eigs_numpy returns exactly min(k,n) entries, "
                  "the k best by the rule, each value paired with its own vector (same re-indexing), ascending if sort, "
                  "vectors mapped out of the subspace iff P is given.")


_C05 = "quimb/tensor/decomp.py"
entry("C05", modules=["contracts.c05_decomp"],
      E1=[f"{_C05}::_compute_number_svals_to_keep_numba", f"{_C05}::_compute_svals_renorm_factor_numba",
          f"{_C05}::_trim_and_renorm_svd_result_numba", f"{_C05}::_trim_and_renorm_svd_result",
          f"{_C05}::_do_absorb", f"{_C05}::_do_absorb_numba"],
      LEMMAS=True,
      PROVIDERS=["contracts.c05_decomp.provider"],
      TRUSTED=["leaf np.sum / xp.sum: the sum of the elementwise powers over the index range of the (sliced) array, i.e. "
               "presum(A,p,k) = sum_{i<k} A_i^p for a prefix, tailsum(A,p,n,k) = sum_{k<=i<n} A_i^p for a suffix",
               "leaf np.sum(mask) / xp.count_nonzero(mask): the number of True entries (count_gt, count_cumlt defined "
               "recursively); its boundary reading on a monotone mask is the proved lemma count-boundary",
               "leaf xp.cumsum: entry k is presum(A,p,k+1); the last entry the total; a one-element slice csp[..., k-1:k] / "
               "csp[..., -1:] along the last axis holds that entry and broadcasts as a scalar (side conditions hi = lo+1 "
               "and 0 <= lo < len are obligations)",
               "leaf np.abs / xp.abs elementwise; np.sqrt of a real: the non-negative root (rsqrt(x)^2 = x, rsqrt(x) >= 0 "
               "for x >= 0); x**(1/2) is that root; x**p for a symbolic exponent is the uninterpreted pw(x,p) with "
               "pw(x,p) >= 0 (> 0) for x >= 0 (> 0) and (x^(1/p))^p = x for x >= 0, p > 0",
               "leaf np.isnan: False (reals); np.ascontiguousarray: identity; broadcasting of a one-element array "
               "(`sabs[..., 0:1]`, `csp[..., -1:]`) as a scalar",
               "leaf rdmul(x,d) = x.diag(d), ldmul(d,x) = diag(d).x; uninterpreted matrix algebra: the product is "
               "associative (ground instances), diag(sqrt s).diag(sqrt s) = diag(s); U[..., :, :k] / VH[..., :k, :] are "
               "uninterpreted functions colslice(U,k) / rowslice(VH,k) with colslice(U, len(s)) = U, rowslice(VH, len(s)) = VH",
               "leaf parse_info_extras(info, ('error',)): the returned dict has the key 'error' iff the caller asked for the "
               "truncation error; get_namespace / infer_backend: plain numpy-like namespace (no tensorflow dtype cast)",
               "_do_absorb / _do_absorb_numba used as callees by the trim functions: pure functions of their four arguments "
               "(the table itself is proved separately for every code)",
               "induction principle over the naturals for the lemma pairs (base, step): split-sum, tail-monotone, "
               "presum-monotone, count-boundary",
               "fdx isometry: numpy matrix products / norms on fixed seeded full-rank inputs (tolerance 1e-8, 1e-6 for the "
               "Gram based / randomised / iterative drivers)"],
      ASSUMPTIONS=["spectrum s: length >= 1, non-negative and sorted descending (|s| when use_abs), no NaN (floats are reals); "
                   "s_0 > 0 when renorm > 0 (a zero matrix with renorm > 0 divides by zero: ZeroDivisionError in the "
                   "accelerated path -- outside the property's domain, stated as pre-condition)",
                   "max_bond = -1 or >= 1; cutoff any real (negative / zero cutoffs are what the trim functions pass when "
                   "only renorm > 0 requests the dynamic branch: then nothing is discarded for a negative target)",
                   "cutoff_mode in the six codes of the source; renorm in {0, 1, 2} concretely and any integer p >= 3 "
                   "symbolically (pw uninterpreted); non-integer renorm in (0,2) is outside the documented domain",
                   "1-d spectrum (2-d input matrix): batched input of the generic function (batch_dims non-empty, xp.max "
                   "over the batch) is covered by the bounded drivers only",
                   "ties are left open exactly as DESIGN C05: sum modes are proved as tail(n) <= target (or n = len(s) and "
                   "target < 0) and n > 1 => tail(n-1) >= target; `<`/`<=` variants of the comparison of the discarded "
                   "weight with the target are therefore both accepted; abs / rel are proved as the exact count "
                   "max(1, #{s > thr}) (DESIGN B.4)",
                   "relational obligation generic == accelerated: both functions are proved against ONE functional "
                   "specification (TrimBase.trim_post: kept number, renormalisation factor, error, factors); lemmas "
                   "relational-*: that specification determines the kept number up to ties and the factor uniquely",
                   "fdx domain: method spellings = registered drivers + 'auto', 'eig', 'lq', 'lq:cholesky'; absorb spellings = "
                   "all keys of _ABSORB_MAP + 'auto'; truncation settings (max_bond, cutoff) in {(None,0.0), (None,1e-10), "
                   "(4,0.0), (4,1e-10), (None,None)}, all cutoff_mode spellings, renorm in {None,0,1,2,3,True,False}",
                   "fdx isometry obligations enumerate the (method, absorb) table exhaustively; the factor itself is "
                   "measured on 6 fixed seeded matrices per driver (tall, wide, square x float64, complex128; Hermitian "
                   "positive definite for eigh / eigsh / cholesky; iterative drivers with max_bond = 2): that part is a "
                   "sample, not a decision"],
      BOUNDED_FOR={"_trim_and_renorm_svd_result": ["kept singular values", "agree", "info['error']"],
                   "_trim_and_renorm_svd_result_numba": ["kept singular values", "agree", "info['error']"],
                   "_compute_number_svals_to_keep_numba": ["kept rank", "least"],
                   "_compute_svals_renorm_factor_numba": ["kept singular values"],
                   "_do_absorb": ["requested form"], "_do_absorb_numba": ["requested form"]},
      EXPLANATION="E1 over the reals, VCs from the current source of 6 functions of decomp.py + 15 lemmas: "
                  "_compute_number_svals_to_keep_numba (6 cutoff modes; loop invariant on the tail sum; result = least k >= 1 "
                  "satisfying the rule, ties open), _compute_svals_renorm_factor_numba (f^p * sum_{i<n} s^p = sum s^p for "
                  "p = 1, 2, symbolic p >= 3), _trim_and_renorm_svd_result_numba and the generic _trim_and_renorm_svd_result "
                  "against one functional spec (1 <= n <= len(s), n <= max_bond, n = min(rule, cap), kept values = f*s[:n], "
                  "error = sqrt(sum_{i>=n} s_i^2), factors = absorb-form of (U[:, :n], f*s[:n], VH[:n])), _do_absorb / "
                  "_do_absorb_numba (11-code table, product = U diag(s) VH, isometric factors unscaled). All 24 (cutoff mode, renorm) "
                  "cases of the generic function discharge since the fix of finding 6a (before it: `renorm-factor` failed "
                  "wherever renorm != power of the mode, UnboundLocalError for abs / rel with renorm > 0; the revert is a "
                  "selftest mutant). fdx: parse_method_absorb / parse_split_opts total on the whole method x absorb x "
                  "truncation table (2.3e5 executions), memo-key soundness per parameter of the three cached parsers with "
                  "key equality decided by the real cache (discharged since parse_split_opts is lru_cache(typed=True): fix "
                  "of finding 6b), isometry flags per (method, absorb) against the real drivers (fail for polar_right / "
                  "polar_left / cholesky: finding 10, open), "
                  "consistency of _RETURNS_*_ABSORBS and _ABSORB_TRANSPOSE_MAP with _do_absorb.")
_TG, _T1 = "quimb/tensor/tnag/tebd.py", "quimb/tensor/tn1d/tebd.py"
entry("C11", modules=["contracts.c11_tebd"],
      E1=[f"{_TG}::trotter_schedule", f"{_TG}::LocalHamGen.__init__", f"{_T1}::LocalHam1D.__init__", f"{_T1}::TEBD.sweep",
          f"{_T1}::TEBD._get_gate_from_ham", f"{_T1}::TEBD.choose_time_step", f"{_T1}::TEBD._compute_sweep_dt_tol",
          f"{_T1}::TEBD.step", f"{_T1}::TEBD.update_to", f"{_T1}::TEBD.at_times"],
      LEMMAS=True,
      TRUSTED=["leaf: gate_split_(U, where=(a,b), absorb) applies U on sites (a,b) and splits; absorb='right' leaves site a a "
               "left isometry, absorb='left' leaves site b a right isometry; the truncation is optimal only when the "
               "orthogonality centre is on the two sites (checked by the C08 / C11 bounded drivers)",
               "leaf: TEBD._get_gate_from_ham / LocalHamGen.get_gate_expm return a function of (exponent, sites) (cache "
               "keyed on object identity: the recycled-id hazard noted in DESIGN section 5 is not modelled)",
               "C08 contracts of left/right_canonize(_site) (proved there) are used as callees of TEBD.sweep",
               "MERGE: two sweeps of the same direction compose to one with the summed fraction, Sw(d,a,Sw(d,b,S)) = "
               "Sw(d,a+b,S) -- this is the meaning given to 'modulo merging equal neighbours' (gates of one sweep act on "
               "disjoint bonds, except (L-1,0) and (0,1) on odd periodic chains where the identity holds only to first order)",
               "definitional recursions RS / LS / Sw / Tm / Em / Dm of the spec functions (ground instances)",
               "leaf: sorted(ts) is the ascending rearrangement of ts; Progbar(ts) iterates ts unchanged; a real power of "
               "a positive base is positive; x ** k is uninterpreted for k > 4 (expanded products for k <= 4)",
               "leaf: LocalHamGen cached helpers: _flip_cached exchanges the two sites (linear), _add_cached / _div_cached "
               "are the vector-space operations, _op_id_cached / _id_op_cached are kron(x, I) / kron(I, x) (linear), "
               "_convert_from_qarray_cached keeps the operator; operators are elements of the free vector space over "
               "their atoms (most general model of add / divide-by-scalar)",
               "termination of update_to's while loop from 'the time advances by exactly _dt > 0 per iteration' (proved "
               "as t == Tm(n)) by the Archimedean property of the reals (meta-argument)",
               "4 ** (1/3) is the rational value of the double CPython computes"],
      ASSUMPTIONS=["times / fractions are reals: t + (T - t) == T exactly",
                   "TEBD: L >= 2 symbolic (periodic: L >= 3; the two-site ring, where (0,1) and (1,0) are the same stored "
                   "term, is outside the domain); cyclic and imag enumerated; direction in {'right','left'}; explicit "
                   "dt > 0 / tol > 0; the gauge clauses (mpsghost of C08) are stated for open chains only",
                   "NOTE (informational, not obliged: C11 speaks about untruncated evolution, where an off-centre split "
                   "is exact): with VERIF_C11_GAUGE=1 the gauge analysis is emitted for all cases and shows that "
                   "consecutive same-direction sweeps occur with queue=False (final step of every update_to after the "
                   "queue drain, order-4 step without queue, successive update_to / at_times targets): their gates are "
                   "split with the orthogonality centre at the wrong end (natively: 159 of 568 gates at L=10, order 2, "
                   "20 targets; infidelity 8e-6 vs 2e-7 at max_bond=16) -- a quality-of-truncation issue. By default the "
                   "mpsghost machinery is on only for imag=True, where it decides the renormalisation obligation",
                   "callers of sweep (step, update_to, at_times) track the gauge through the abstract flag g_centre (0: "
                   "centre at site 0, 1: at L-1, 3: after an imaginary-time left sweep) that the body proof of sweep "
                   "relates to the quantified isL / isR facts; in update_to / at_times the evolved state is summarised by "
                   "spec functions of (order, step, number of steps)",
                   "LocalHam1D.__init__: symbolic L >= 1 (periodic L >= 3), supplied H2 an arbitrary finite map on integer "
                   "pairs; LocalHamGen.__init__: BOUNDED ENUMERATION of graphs (chains 2..8, rings 3..8, flipped keys, both "
                   "orientations, star, triangle, 2x2 grid with tuple coordinates) x 5 kinds of H1, operators symbolic",
                   "order 4: the identity s+s+(1-4s)+s+s = 1 is proved for all real s as a lemma (z3) and the code's "
                   "multipliers are shown to have that shape; the Suzuki value itself is checked to cancel the third order "
                   "term to 1e-15"],
      BOUNDED_FOR={"TEBD.sweep": ["sweep", "TEBD"], "TEBD.step": ["step", "TEBD"], "TEBD.at_times": ["at_times", "TEBD"],
                   "TEBD.update_to": ["update_to", "TEBD"], "trotter_schedule": ["trotter"],
                   "LocalHamGen.__init__": ["LocalHam"], "LocalHam1D.__init__": ["LocalHam1D"]},
      EXPLANATION="E1: trotter_schedule closed form for ALL numbers of layers (orders 1, 2, 4; symbolic sequences; "
                  "palindrome / per-layer-sum / Suzuki lemmas); LocalHam1D.__init__ for symbolic L (map invariant: default "
                  "term exactly on absent bonds (i,(i+1) mod L), i < L-1+cyclic); LocalHamGen.__init__ on enumerated graphs "
                  "with symbolic operators (flip/merge of (b,a) keys, weight 1/num_pairs on factor pair.index(site), "
                  "per-site weights sum to 1); TEBD.sweep for symbolic L: bond coverage (skolem bond: a right sweep puts "
                  "exactly one gate of the requested fraction on every even bond (+(L-1,0) if cyclic and L odd), a left "
                  "sweep on every odd bond (+(L-1,0) if cyclic and L even), nothing else), gate chain in order, queue "
                  "logic (logical state advances by Sw(direction, fraction) modulo MERGE, empty after queue=False), gauge "
                  "(centre on the sites of every gate_split_, centre at L-1 / 0 afterwards, imaginary-time "
                  "renormalisation divides the centre -- emitted for imag=True only, see ASSUMPTIONS); step / _compute_sweep_dt_tol / choose_time_step / "
                  "_get_gate_from_ham; update_to over the reals (t' == T exactly, t == Tm(n) in the loop, last partial "
                  "step in (0, _dt], error bound accumulates |H| dt^(order+1), queue empty afterwards); at_times (the j-th "
                  "yield is a copy of the state at sorted(ts)[j], one yield per requested time). Failing on the "
                  "unchanged tree: TEBD.sweep[direction=left,...,imag=True]::renorm@L:renormalised site is the "
                  "orthogonality centre (the left sweep divides site 1, the centre is site 0: unnormalised state).")


# -----------------------------------------------------------------------------------------------------------
# claimed level per property once the deductive part is in place (overrides the level written by the bounded-driver
# author in props/CNN.py; read by tools_manifest.py and by vf.framework for the evidence file)
# -----------------------------------------------------------------------------------------------------------
_T_E1 = ("VCs generated from the real source (python ast -> z3) against sidecar contracts with loop invariants, callee "
         "contracts and lemmas; run-time contracts on the real functions as the bounded stand-in")
LEVELS = {
    "C01": ("proof", "Deductive proof (den domain: log-prefactor arithmetic + uninterpreted contraction) that every return path of "
            "the 9 contraction entry points of tensor_core.py denotes the value of the network including its stored exponent, "
            "in every return form, for all networks / exponents / option kinds, relative to the stated leaf contract of "
            "cotengra; numerical agreement of every route with numpy.einsum is checked by run-time contracts on a bounded "
            "domain (labelled bounded).", _T_E1),
    "C03": ("proof", "Frame proof (ast effect analysis, one obligation per method, all discharged) that the plain spelling of "
            "every method with an `inplace` parameter under quimb/tensor never mutates its receiver, plus alias pairing "
            "through the MRO; labelled equality, array sharing and axis-order invariance are run-time contracts on a "
            "bounded receiver x method x argument table (labelled bounded).",
            "modular effect (frame) analysis over the ast of the real classes + alias pairing by reflection; run-time "
            "contracts with read-only arrays as the bounded stand-in"),
    "C08": ("proof", "Deductive proof (ghost isometry arrays per MPS object, quantified invariants) that 48 real functions -- the "
            "canonisation, sweep, swap and compression methods of MatrixProductState, every gate route (gate_split, auto-swap, "
            "sub-MPO, non-local, the gate dispatcher), measure / sample_configuration / sample, the canonical-form consumers, "
            "and the CircuitMPS / CircuitPermMPS / CircuitMPSLazy methods that thread the record -- leave a sound record for "
            "the object the caller keeps (and never touch the record of an object the caller does not keep), for all lengths, "
            "sites and option kinds, relative to the QR / split / 1D-compression leaf contracts; threaded histories against the "
            "dense state are run-time contracts (labelled bounded).", _T_E1),
    "C16": ("proof", None, None),
    "C19": ("proof", "Deductive proof that the 18 ranking kernels of configcore.py are mutually inverse bijections between "
            "[0, sector size) and the sector with the right combinatorial size (67 lemmas: inductions as base/step pairs), for "
            "all n <= 62; operator tables decided by finite-domain exhaustive enumeration on the real functions; agreement "
            "of all representations with an independent Kronecker reference by run-time contracts (labelled bounded).",
            _T_E1 + "; finite-domain exhaustive obligations (fdx) on the real tables"),
    "C04": ("other", "Proof core (den domain): strip_exponent, distribute_exponent, equalize_norms and maybe_unwrap preserve the "
            "denoted value exactly and leave the promised form; every rewrite named in the statement is covered by run-time "
            "contracts (dense before == after, promised forms) on a bounded domain.", _T_E1),
    "C05": ("other", "Proof core over the reals: kept rank is the least satisfying the cutoff rule, renormalisation, error and "
            "absorb forms of the generic and accelerated truncation (shared spec => they agree), option parsers decided "
            "exhaustively (totality, memo-key soundness, isometry claims); factorizations themselves are run-time "
            "contracts against numpy on a bounded table.", _T_E1 + "; finite-domain exhaustive obligations (fdx)"),
    "C07": ("other", "Proved for all real parameters: every registered gate builder is unitary and equals its textbook definition "
            "(real builders run on sympy symbols, exact algebraic normal form); proved per method: the query-cache "
            "discipline (validated before access, re-validated after yield, mutation ends invalidated, atomic copy); "
            "agreement of every simulator and query with a dense reference is a run-time contract on bounded programs.",
            "symbolic evaluation of the real gate builders with a CAS; ast typestate analysis of the cache discipline; "
            "run-time contracts as the bounded stand-in"),
    "C11": ("other", "Proof core: Trotter schedule closed form, term distribution of the LocalHam constructors, sweep bond coverage "
            "and queue logic, t' == T and step bookkeeping of TEBD for all chain lengths; evolution against explicit product "
            "formulas / expm is a run-time contract on bounded chains.", _T_E1),
    "C14": ("other", "Only the mantissa/exponent combiner every flavour uses is proved (polar domain); convergence and "
            "tree-exactness cannot be expressed by a contract within reach and are decided by run-time contracts on bounded "
            "trees only.", _T_E1),
    "C15": ("other", "Proof core (structure-bounded, value-unbounded): digit/ownership/placement arithmetic of dynal, kron, dim_map, "
            "dim_compress, ikron, partial_transpose and ham_heis for every dimension value with up to 3-5 subsystems; the "
            "algebra (embedding, permutation, partial trace, sparse formats) is a run-time contract vs explicit numpy.", _T_E1),
    "C17": ("other", "Proof core: the 11 selection keys are strictly monotone in the documented order and eigs_numpy returns the k best "
            "pairs with values and vectors re-indexed together; residuals, orthonormality and every other backend are "
            "run-time contracts on matrices with a prescribed spectrum.", _T_E1),
    "C18": ("other", "Proof core: the (method x state x Hamiltonian) support table, the time algebra of the update methods "
            "(state == U(t-t0) p0, two-sided for density operators), callbacks and at_times; the dynamics against "
            "scipy.linalg.expm are run-time contracts on bounded systems.", _T_E1 + "; finite-domain exhaustive support table"),
}


LEVELS.update({
    "C02": ("other", "Proof core (tnmaps/fsets): the map-maintenance primitives of TensorNetwork (_link/_unlink tags and inds, "
            "add_tensor, pop_tensor, _modify_tensor_*, _get_tids_from, _next_tid) keep the class invariant and have the exact "
            "abstract effect over the whole view, and the 22 oset methods equal set algebra, for all networks without a label "
            "repeated on one tensor (the repeated-label defect is a recorded finding); every other mutator and whole mutation "
            "histories are run-time contracts (maps vs an independent recount after every step) on bounded histories.", _T_E1),
    "C06": ("other", "Proof core (label calculus): the eager/lazy gate wiring of _tensor_network_gate_inds_basic and the mode table of "
            "tensor_network_gate_inds for any number of sites; every application mode against the embedded dense operator is a "
            "run-time contract on bounded geometries.", _T_E1),
    "C09": ("other", "Proof core (label calculus): tensor_network_align, apply_op_vec, apply_op_op (all four which_A x which_B, "
            "renames only where the operator acts), partial_trace_to_mpo (row labels on the unconjugated layer), expec_TN_1D; "
            "(sweep discipline) the flat compress / left_compress / right_compress family hands every bond of an open chain to a "
            "compression call with exactly the caller's max_bond and cutoff and leaves the promised canonical form, for all "
            "lengths and forms; arithmetic, generators and every 1D compression method against dense linear algebra are "
            "run-time contracts on bounded chains.", _T_E1),
    "C10": ("other", "Proof core (label calculus): DMRG / DMRGX assemble <bra|H|ket> with the bra on the upper and the ket on the lower "
            "labels and hand the eigensolver the effective operator with bra rows and ket columns; (sweep discipline, open "
            "chains, symbolic length and block size) MovingEnvironment keeps its class invariant, every environment is read only "
            "where it was stored, sweep visits exactly the positions 0..L-bsz with the state in the gauge the local problem "
            "needs, sweep t receives item t of the bond and cutoff schedules (the last one repeating) and two-site updates end "
            "within the cap; the variational claims (energy of the returned state, bounds, monotonicity) are run-time contracts "
            "on bounded chains.", _T_E1),
    "C13": ("other", "Proof core (label calculus): make_reduced_density_matrix, partial_trace_exact and local_expectation_exact attach "
            "ket / bra labels and pair tensordot axes as sum rho[k,b] G[b,k] for any number of sites; every other route "
            "(canonical, environment, boundary, cluster, loop expansion) against the dense state is a run-time contract on "
            "bounded systems.", _T_E1),
})


LEVELS.update({
    "C12": ("exploration", "Bounded run-time contracts decide the three clauses of the statement: every compressed contraction scheme "
            "(2D / 3D boundary contraction from every side, in 13 / 7 sequences and every registered mode, row / column / "
            "plaquette environments, HOTRG, CTMRG, coarse graining, compressed contraction of arbitrary graphs along several "
            "trees, compress_all* and the arbitrary-geometry compressors) is run on small random networks (a) with max_bond above "
            "every exact bond -- and with caps EQUAL to the exact bond size -- and cutoff=0, where the value / denoted tensor must "
            "equal the exact contraction computed by numpy, and (b) with a small cap, where every bond handed back must be within "
            "the cap; stored environments joined with the part they exclude must reproduce the whole. Proved in addition, for all "
            "lattice sizes (E1 on _contract_boundary_core, the interleaved boundary sequence handler and the two direction "
            "wrappers): the boundary bookkeeping -- every range handed on is the current boundary line and its inner neighbour "
            "inside the current extent, opposing boundaries respect max_separation, the loop terminates, max_bond / cutoff / "
            "compress_opts reach every compress call unchanged. That is bookkeeping, not one of the three clauses: the level "
            "stays exploration.",
            _T_E1 + " (bookkeeping only)"),
    "C20": ("other", "Proof core, structure-bounded (number of subsystems K <= 4, kraus_op K <= 3; all dimensions, thresholds and "
            "index values symbolic; ent_cross_matrix / projector / purify / the logneg_subsys renumbering loop for all sizes): "
            "24 functions of calc.py and the lazy partial-trace operators hand their callees the same physical subsystems, in "
            "the order the definition needs, on every shortcut route; outcome labels, rank decisions and Pauli enumerations are "
            "decided (fdx) on the real functions; the numerical values themselves (entropies, negativity, fidelity, discord "
            "minimisation, bounds, invariances) are run-time contracts against plain linear algebra on a bounded domain.",
            _T_E1 + "; finite-domain exhaustive obligations (fdx)"),
})


def level_of(pid):
    return LEVELS.get(pid)


_C02T = "quimb/tensor/tensor_core.py"
_C02U = "quimb/utils.py"
entry("C02", modules=["contracts.c02_maps"],
      E1=[f"{_C02T}::TensorNetwork._link_tags", f"{_C02T}::TensorNetwork._unlink_tags",
          f"{_C02T}::TensorNetwork._link_inds", f"{_C02T}::TensorNetwork._unlink_inds",
          f"{_C02T}::TensorNetwork._reset_inner_outer", f"{_C02T}::TensorNetwork._next_tid",
          f"{_C02T}::TensorNetwork.add_tensor", f"{_C02T}::TensorNetwork.pop_tensor",
          f"{_C02T}::TensorNetwork._modify_tensor_tags", f"{_C02T}::TensorNetwork._modify_tensor_inds",
          f"{_C02T}::TensorNetwork._get_tids_from", f"{_C02T}::oset_union", f"{_C02T}::oset_intersection"] +
         [f"{_C02U}::oset.{m}" for m in ("add", "discard", "remove", "clear", "update", "union", "intersection_update",
                                         "intersection", "difference_update", "difference", "copy", "from_dict",
                                         "_from_dict", "__eq__", "__or__", "__ior__", "__and__", "__iand__", "__sub__",
                                         "__isub__", "__len__", "__contains__")],
      PROVIDERS=["contracts.c02_maps.provider_fsets"],
      TRUSTED=["fsets: card(S) of a finite set with the ground-instantiated axioms card>=0, card==0 <=> S=={}, "
               "card(S+{t}) = card(S)+[t not in S], card(S-{t}) = card(S)-[t in S], assumed at the add/discard/literal "
               "sites only (exhaustively checked against true cardinality on a 3-element universe by provider_fsets)",
               "leaf: iterating an oset / a dict enumerates exactly its members, each once (order unspecified); "
               "oset(it) / dict.fromkeys holds exactly the items of it; oset((t,)) has one member; toolz.concat yields the "
               "items of all parts (the first three exhaustively checked on the real oset for sequences of length <= 3)",
               "leaf: object.__new__(oset) makes a blank oset; dict item store / pop(k, None) / del / clear / update / copy / "
               "__len__ / __contains__ / == with their python meaning on dicts whose values are all None (key-set view); "
               "set(d), set.intersection, set.union as set algebra",
               "leaf (symbolic length only): oset_intersection / oset_union of the entries of a key sequence of symbolic "
               "length return {t | t in all / in some entry}; both combiners are PROVED on tuples of 0-3 osets",
               "leaf: Tensor.copy() keeps the tag and label sequences; Tensor.add_owner / remove_owner do not touch the "
               "network's maps (owner registry I6 is not part of these contracts)",
               "finiteness of tensor_map: its int keys have a strict upper bound (ghost; gives the decreasing measure of "
               "the while loop of _next_tid)",
               "skolem form: every statement is proved at ONE arbitrary key X, tid T, element E, position J (constants that "
               "are never constrained); INV is assumed at the same constants; a callee's contract is used only at the keys "
               "at which its precondition is re-proved at the call site"],
      ASSUMPTIONS=["labels repeated on one tensor: known defect, DESIGN finding 2 / C02-a, reported by the bounded driver. "
                   "DOMAIN RESTRICTION of every case except `repeats-allowed`: no tensor carries the same label twice, so that "
                   "(I5) inner <=> carried by >= 2 TENSORS, outer <=> by exactly 1, equals the property's fresh scan "
                   "(occurrences WITH multiplicity). Preconditions: the label sequence handed to _link_inds has pairwise "
                   "distinct items and tid is in no entry of those labels; add_tensor's tensor has no repeated label; "
                   "_unlink_inds / _unlink_tags / _link_tags: no restriction (any sequence, tid member or not)",
                   "case `repeats-allowed` of _link_inds / _unlink_inds drops the restriction (ghost occ = occurrences with "
                   "multiplicity, mult = multiplicity on tensor tid, inds = the complete label tuple of tid): _link_inds is "
                   "proved, _unlink_inds FAILS on the unchanged tree (obligations "
                   "TensorNetwork._unlink_inds[repeats-allowed]::inv-step@loop0:INV-I4-inner-outer-cover-dom / "
                   "INV-I5-inner-iff-count>=2 / INV-I5-outer-iff-count==1; natively replayed)",
                   "labels, tags and tids are Int-coded; tids are ints (pop_tensor: int tid kind only; the tag-selecting kind "
                   "goes through _get_tids_from_tags and is not covered)",
                   "oset: membership view only -- insertion ORDER (what iteration / popleft / popright / repr show) is NOT "
                   "specified by these contracts and not covered; `others` are osets (update / union also: one plain iterable of "
                   "symbolic length); 0-3 others; intersection_update / difference_update / difference need at least one "
                   "argument (with none the code raises IndexError, unlike the builtin set); the dict of an oset is not shared "
                   "with another oset (only the private _from_dict could create sharing)",
                   "_get_tids_from: xs is an oset (what tags_to_oset hands over); which in {all, any, !all, !any} or an invalid "
                   "string (KeyError); a key absent from the map raises KeyError (as coded); the empty key set selects nothing "
                   "for all/any and every tensor for !all/!any (as coded)",
                   "_reset_inner_outer: every label of the sequence is a key of ind_map (else KeyError)",
                   "(I2)/(I3) (an entry holds tid <=> tid in tensor_map and its tensor carries the key) are stated for "
                   "add_tensor, pop_tensor and (at the re-keyed tid) _modify_tensor_*; the link/unlink primitives "
                   "deliberately break and restore them and are specified on the maps alone",
                   "NOT brought under contract (bounded drivers only): add_tensor_network, add, remove_all_tensors, "
                   "__setitem__/__delitem__/delete, _get_tids_from_tags/_inds, _select_tids, partition(_tensors), the copy "
                   "branch of __init__, __getstate__/__setstate__, Tensor.add_owner/remove_owner/check_owners/modify"],
      BOUNDED_FOR={"TensorNetwork._link_tags": ["ind_map / tag_map"], "TensorNetwork._unlink_tags": ["ind_map / tag_map"],
                   "TensorNetwork._link_inds": ["ind_map / tag_map", "_inner_inds / _outer_inds"],
                   "TensorNetwork._unlink_inds": ["_inner_inds / _outer_inds", "ind_map / tag_map"],
                   "TensorNetwork._reset_inner_outer": ["_inner_inds / _outer_inds"],
                   "TensorNetwork._next_tid": ["tensor_map and the tensors' labels/tags show exactly the abstract effect"],
                   "TensorNetwork.add_tensor": ["tensor_map and the tensors' labels/tags show exactly the abstract effect",
                                                "ind_map / tag_map"],
                   "TensorNetwork.pop_tensor": ["tensor_map and the tensors' labels/tags show exactly the abstract effect",
                                                "ind_map / tag_map", "_inner_inds / _outer_inds"],
                   "TensorNetwork._modify_tensor_tags": ["ind_map / tag_map"],
                   "TensorNetwork._modify_tensor_inds": ["ind_map / tag_map", "_inner_inds / _outer_inds"],
                   "TensorNetwork._get_tids_from": ["select / select_tensors / _get_tids_from_tags"],
                   "oset_union": ["select / select_tensors / _get_tids_from_tags"],
                   "oset_intersection": ["select / select_tensors / _get_tids_from_tags"]},
      EXPLANATION="E1 (tnmaps + fsets): ghost state per network object (entries, key presence and ghost cardinality of tag_map / "
                  "ind_map, inner / outer, keys of tensor_map, ghost tag / label sequence per tid). Class invariant INV: (I1) key "
                  "present <=> entry non-empty, (Icard) ghost count == card(entry), (I4) inner / outer disjoint and cover the "
                  "keys, (I5) inner <=> count >= 2, outer <=> count == 1, (I2/I3) entry holds tid <=> the tensor stored under "
                  "tid carries the key. Proved for every sequence length, every key and tid (skolem form), over the WHOLE view: "
                  "_link_tags / _unlink_tags / _link_inds / _unlink_inds / _reset_inner_outer (loop invariants over the "
                  "processed prefix through the spec function seen(seq, x, i)), _next_tid (fresh, first free from the counter, "
                  "terminates), add_tensor (T' = T + {tid'}, tid' free, maps gain exactly the tensor's tags / labels), "
                  "pop_tensor (the inverse; KeyError iff absent, nothing changed), _modify_tensor_tags / _inds (exactly one tid "
                  "re-keyed to `new`, via the proved oset difference), _get_tids_from (exactly the intersection / union of the "
                  "entries or its complement within tensor_map), oset_union / oset_intersection on 0-3 sets, and 22 oset methods "
                  "against set algebra incl. frame (new-returning methods leave receiver and arguments untouched and return "
                  "an unshared object; in-place ones modify / return the receiver; aliasing o.op(o) included). Known defect "
                  "reproduced as failing obligations of the case `repeats-allowed` of _unlink_inds.")


# ---- label calculus (contracts/c09_labels.py): state / operator conventions of C09, C10, C13 -------------------------
_AG = "quimb/tensor/tnag/core.py"
_T1 = "quimb/tensor/tn1d/core.py"
_DM = "quimb/tensor/tn1d/dmrg.py"
_LABEL_TRUSTED = [
    "CONVENTION (fixed once for the label calculus, checked at run time by the bounded drivers against to_dense): the "
    "dense form of an operator network has rows = its UPPER labels and columns = its LOWER labels; A.apply(x) contracts "
    "A's lower labels with x; tn.H is element-wise conjugation only (for operators NOT the adjoint); the matrix element "
    "<b|A|k> is the network in which the CONJUGATED vector shares its labels with A's upper leg and the unconjugated one "
    "with A's lower leg; two networks combined with | / & / |= are summed over the labels they share",
    "FRESHNESS axiom: rand_uuid() returns an index id different from every id in existence (inputs, string literals of "
    "the source, earlier uuids); two different string literals are two different ids; id.format(site) is injective in "
    "(id, site) over the ids in play; get_symbol(0), get_symbol(1), ... are the distinct letters a, b, c, ...",
    "leaf: TensorNetwork.reindex(map) replaces every occurrence of a key label by its value and touches nothing else; "
    "copy() gives a distinct object in the same label state; .H / conj_() flip the conjugation ghost of every layer and "
    "rename nothing; x |= A adds A's tensors to x (x keeps its class and declared ids); a | b, a & b make a new network",
    "leaf: contraction of tags (^, >>=), fuse_multibonds_, compress, drop_tags, add_tag, retag_, replace_section_with_svd "
    "rename no outer label; view_as_(cls, **props) stores the given properties without relabelling",
    "leaf: f_ = functools.partialmethod(f, inplace=True); the property getters site_ind_id / upper_ind_id / lower_ind_id "
    "return the private field; site_ind(x) / upper_ind(x) / lower_ind(x) = declared id .format(x)",
    "SKOLEM SITE: every obligation is stated for one arbitrary site s (sets of sites are abstracted to the Boolean 's is "
    "a member'); a statement proved for s holds for every site",
]
entry("C09", modules=["contracts.c09_labels"],
      E1=[f"{_AG}::TensorNetworkGenVector.reindex_sites", f"{_AG}::TensorNetworkGenOperator.reindex_upper_sites",
          f"{_AG}::TensorNetworkGenOperator.reindex_lower_sites", f"{_AG}::TensorNetworkGenVector.site_ind_id",
          f"{_AG}::TensorNetworkGenOperator.upper_ind_id", f"{_AG}::TensorNetworkGenOperator.lower_ind_id",
          f"{_AG}::tensor_network_align", f"{_AG}::TensorNetworkGen.align", f"{_AG}::tensor_network_apply_op_vec",
          f"{_AG}::tensor_network_apply_op_op", f"{_AG}::TensorNetworkGenOperator.apply",
          f"{_T1}::TensorNetwork1DVector.reindex_sites", f"{_T1}::MatrixProductState.partial_trace_to_mpo",
          f"{_T1}::expec_TN_1D", f"{_T1}::TensorNetwork1DVector.expec"],
      TRUSTED=_LABEL_TRUSTED,
      ASSUMPTIONS=[
          "label calculus: index ids are elements of an uninterpreted sort with equality only; networks are heap objects "
          "with declared ids and ghost layers (conj, present, label id per physical leg); inputs are well formed (the "
          "labels on a present site are those of the declared ids, upper id != lower id) -- a requires clause that is "
          "re-proved for every result (aligned-wf)",
          "operator setters raise ValueError when the new id equals the operator's other id: the contracts of the callers "
          "carry the corresponding requires (ids-distinct-*): tensor_network_align needs level id j-1 != old lower id of "
          "operator j and level id j != new upper id; all of them hold by freshness inside apply_op_vec / apply_op_op / "
          "DMRG.__init__",
          "tensor_network_align: kinds enumerated = every sequence of length 2-4 over {vector, operator} x ind_ids None | "
          "given x inplace x trace (trace only with an operator first and last: it reads tns[0].upper_ind_id)",
          "apply_op_vec / apply_op_op: the operator acts on a subset of the target's sites (requires A-acts-on-sites-of-"
          "target); which_A / which_B in {lower, upper, other}; (contract, fuse_multibonds, compress) enumerated over "
          "four combinations covering every branch; inplace x inplace_A fully",
          "partial_trace_to_mpo: keep is a sequence or a slice; upper_ind_id != site_ind_id (otherwise nothing is kept "
          "apart: requires); the site renumbering of rescale_sites is abstracted to 'every entry maps id.format(old) to "
          "the same id.format(new)' + one entry per kept site for both ids (counting invariant)",
          "expec_TN_1D: sequences (v,v), (v,o,v), (v,o,o,v) and the raising (v,v,v); requires that the first vector's id "
          "is not one of the LATER generated level ids '__ind_b{}__', ... (native: ValueError 'index appears more than "
          "twice' -- see final report)"],
      BOUNDED_FOR={
          "tensor_network_align": ["expec_TN_1D(bra, ops..., ket)"],
          "TensorNetworkGen.align": ["expec_TN_1D(bra, ops..., ket)"],
          "tensor_network_apply_op_vec": ["the documented pair of label families is contracted", "MPO.apply(MPS) == A @ a",
                                          "sub-MPO on a subset of sites applied to an MPS"],
          "tensor_network_apply_op_op": ["the documented pair of label families is contracted", "MPO.apply(MPS) == A @ a",
                                         "sub-MPO on a subset of sites applied to an MPO"],
          "TensorNetworkGenOperator.apply": ["MPO.apply(MPS) == A @ a", "sub-MPO on a subset of sites"],
          "MatrixProductState.partial_trace_to_mpo": ["MPS.partial_trace_to_mpo(keep)", "partial_trace_to_mpo(keep)"],
          "TensorNetwork1DVector.reindex_sites": ["MPS.partial_trace_to_mpo(keep)"],
          "TensorNetworkGenVector.reindex_sites": ["sub-MPO on a subset of sites applied to an MPS"],
          "TensorNetworkGenOperator.reindex_upper_sites": ["sub-MPO on a subset of sites applied to an MPO"],
          "TensorNetworkGenOperator.reindex_lower_sites": ["the documented pair of label families is contracted"],
          "TensorNetworkGenVector.site_ind_id": ["expec_TN_1D(bra, ops..., ket)"],
          "TensorNetworkGenOperator.upper_ind_id": ["expec_TN_1D(bra, ops..., ket)", "MPO.apply(MPS) == A @ a"],
          "TensorNetworkGenOperator.lower_ind_id": ["expec_TN_1D(bra, ops..., ket)", "MPO.apply(MPS) == A @ a"],
          "expec_TN_1D": ["expec_TN_1D(bra, ops..., ket)"],
          "TensorNetwork1DVector.expec": ["expec_TN_1D(bra, ops..., ket)", "MPS overlap / norm / distance"]},
      EXPLANATION="E1 (label calculus, one arbitrary site, for all networks / ids): the partial renames "
                  "reindex_sites / reindex_upper_sites / reindex_lower_sites and the three declared-id setters (strongest "
                  "form: every label slot of every layer); tensor_network_align for every vector/operator sequence of "
                  "length 2-4 (network j joins j+1, a FIRST vector sits on the operator's UPPER labels, a LAST one on the "
                  "LOWER labels, documented level ids, first network unchanged without ind_ids, trace, frame); "
                  "apply_op_vec / apply_op_op for all which_A / which_B (the result denotes the documented dense product "
                  "under the target's ORIGINAL ids, joined through a fresh id, renamed ONLY where A acts -- finding 7); "
                  "Operator.apply dispatch; partial_trace_to_mpo (upper id on the unconjugated layer -- finding 15); "
                  "expec_TN_1D / MPS.expec (bra first, ket last).")

entry("C10", modules=["contracts.c09_labels"],
      E1=[f"{_AG}::tensor_network_align", f"{_AG}::TensorNetworkGen.align", f"{_DM}::DMRG.__init__",
          f"{_DM}::DMRGX.__init__", f"{_DM}::DMRG.form_local_ops", f"{_DM}::DMRGX.form_local_ops",
          f"{_DM}::DMRG._update_local_state_1site", f"{_DM}::parse_2site_inds_dims",
          f"{_DM}::DMRG._update_local_state_2site"],
      TRUSTED=_LABEL_TRUSTED + [
          "leaf: MPO.rand_state gives a new well formed unconjugated state with site id 'k{}' on every site of the "
          "operator; MPO.identity gives a well formed operator with the same declared ids on the same sites",
          "leaf: the effective tensor (ME_eff_ham() ^ '_HAM')['_HAM'] has exactly the labels of the bra and ket site "
          "tensors as open legs; Tensor.to_dense(rows, cols) fuses `rows` into the row and `cols` into the column index; "
          "TNLinearOperator(tn, left_inds, right_inds): left_inds index the rows (output of matvec); eigh(A, B, v0) "
          "returns a column vector in A's column order; Tensor.split(left_inds, right_inds, get='arrays') returns the "
          "factors with axes (left_inds..., bond) and (bond, right_inds...)",
          "class invariant of the solver object (assumed on entry of the local updates, re-established by them): _b[i] "
          "holds the element-wise conjugate of _k[i] with corresponding axis order"],
      ASSUMPTIONS=[
          "DMRG.__init__ / DMRGX.__init__: only the label bookkeeping is interpreted; schedules, options and energies "
          "are opaque.  p0 None | given; cyclic symbolic.  DMRGX: requires p0.site_ind_id != '__ham2{}__' (the literal id "
          "of the middle level; otherwise the operator setter raises ValueError)",
          "form_local_ops: opts['local_eig_ham_dense'] and opts['local_eig_norm_dense'] in {None, True, False}, cyclic "
          "symbolic; the 1-site / 2-site updates are verified for an arbitrary site i, direction right | left",
          "the sweep discipline / mpsghost part of the design's P list for C10 (sweep, MovingEnvironment ranges, bond "
          "schedule) is NOT covered by this module"],
      BOUNDED_FOR={
          "DMRG.__init__": ["DMRG (complex Hermitian H)", "DMRG: reported energy == psi^dag H psi"],
          "DMRGX.__init__": ["DMRGX"],
          "DMRG.form_local_ops": ["DMRG (complex Hermitian H)", "DMRG: reported energy == psi^dag H psi",
                                  "DMRG on a periodic MPO"],
          "DMRGX.form_local_ops": ["DMRGX"],
          "DMRG._update_local_state_1site": ["DMRG (complex Hermitian H)", "DMRG: reported energy == psi^dag H psi"],
          "DMRG._update_local_state_2site": ["DMRG (complex Hermitian H)", "DMRG: reported energy == psi^dag H psi"],
          "parse_2site_inds_dims": ["DMRG (complex Hermitian H)"],
          "tensor_network_align": ["DMRG (complex Hermitian H)"], "TensorNetworkGen.align": ["DMRG (complex Hermitian H)"]},
      EXPLANATION="E1 (label calculus): DMRG.__init__ builds <b|ham|k>: _b is the conjugate of _k and sits on ham's UPPER "
                  "(row) labels, _k on the LOWER (column) labels and keeps its site id (finding 11), ham / p0 only copied; "
                  "DMRGX.__init__: TN_energy2 = <b|H H|k> in the same convention; form_local_ops (dense and linear-operator "
                  "routes, ham and norm): rows = lix, columns = uix; parse_2site_inds_dims: lix from the bra, uix / dims "
                  "from the ket, own bond excluded, order (i, i+1); the 1-site and 2-site updates hand the eigensolver "
                  "Heff[rows = bra labels, columns = ket labels] and a ket-ordered initial guess, and write the result back "
                  "as (ket data, ket labels) / (conjugated data, bra labels).")

entry("C13", modules=["contracts.c09_labels"],
      E1=[f"{_AG}::TensorNetworkGenVector.make_reduced_density_matrix", f"{_AG}::TensorNetworkGenVector.partial_trace_exact",
          f"{_AG}::TensorNetworkGenVector.local_expectation_exact", f"{_AG}::TensorNetworkGenVector.reindex_sites",
          f"{_T1}::TensorNetwork1DVector.reindex_sites", f"{_T1}::MatrixProductState.partial_trace_to_mpo"],
      TRUSTED=_LABEL_TRUSTED + [
          "leaf: tn.contract(output_inds=X) returns a tensor whose axes are X in that order; Tensor.to_dense(rows, cols); "
          "tensordot(a, b, axes=(A, B)) sums over the pairs (axis A[j] of a, axis B[j] of b); a C-order reshape of a "
          "D x D matrix to (d_1..d_n, d_1..d_n) puts the row index on the first n axes; an operator in tensor form has the "
          "row index of site j on axis j and the column index on axis n+j; <psi|G|psi> = sum_{k,b} psi[k] conj(psi)[b] "
          "G[b,k]",
          "label level of make_reduced_density_matrix: one ARBITRARY label l of the state (skolem label) with the "
          "definitional facts 'l is site_ind(c) for the site c at position p of gen_site_coos, or is no site label' and "
          "'l is the key at position q of ind_map' (dict keys and sites are distinct); l + mangle_append is a label "
          "different from every label of the state (no check is made by quimb: check_collisions=False)"],
      ASSUMPTIONS=[
          "where: a single site | a sequence of symbolic length ng >= 1 (local_expectation_exact: sequence only -- it takes "
          "len(where)); normalized in {True, False, 'return'}; get in {matrix, array, tensor, other}; rehearse in {False, "
          "True}; G as a matrix or as a 2*ng-dimensional array; allow_dangling in {True, False}",
          "the tensordot pairing obligation is proved for EVERY ng (symbolic length, skolem axis position), not by "
          "enumeration"],
      BOUNDED_FOR={
          "TensorNetworkGenVector.make_reduced_density_matrix": ["make_reduced_density_matrix(where)"],
          "TensorNetworkGenVector.partial_trace_exact": ["partial_trace_exact(where)"],
          "TensorNetworkGenVector.local_expectation_exact": ["local_expectation_exact"],
          "MatrixProductState.partial_trace_to_mpo": ["partial_trace_to_mpo(keep)"],
          "TensorNetwork1DVector.reindex_sites": ["partial_trace_to_mpo(keep)"],
          "TensorNetworkGenVector.reindex_sites": ["partial_trace_to_mpo(keep)"]},
      EXPLANATION="E1 (label calculus): make_reduced_density_matrix for an arbitrary label (two loop invariants): kept "
                  "sites keep the ket label and get the bra label, traced sites share it, every other non-dangling label "
                  "is mangled on the bra only, the bra layer is the conjugate; partial_trace_exact: axes (*k, *b) in the "
                  "order of where, rows = ket labels, normalised exactly once iff normalized is True, 'return' gives the "
                  "unnormalised rho and its trace; local_expectation_exact: the tensordot pairing is sum rho[k,b] G[b,k] "
                  "for every ng; partial_trace_to_mpo: the declared upper id labels the unconjugated layer (finding 15).")

entry("C06", modules=["contracts.c09_labels"],
      E1=["quimb/tensor/gating.py::_tensor_network_gate_inds_basic", "quimb/tensor/gating.py::tensor_network_gate_inds"],
      TRUSTED=[
          "CONVENTION: a gate array in tensor form has the ROW (output) index of target j on axis j and the COLUMN (input) "
          "index on axis ng+j; 'applying G' (G @ x) sums the column axes with the network's labels and leaves the row "
          "axes outside under the ORIGINAL labels; transposed, the two halves exchange roles (checked at run time: "
          "dense(after) == embedded operator @ dense(before))",
          "FRESHNESS axiom: every rand_uuid() label differs from every target label and from every other new label "
          "(instantiated at two arbitrary positions of the target sequence)",
          "leaf: tn.reindex_(map) moves the target legs from the key labels to the value labels (keys pairwise distinct); "
          "tn |= T attaches a tensor; tensor_contract(*site tensors, TG) keeps the outer labels; Tensor.gate_(G, ix, "
          "transpose) applies G (G^T) on one label and keeps the labels [run-time contract 'Tensor.gate']; the eager-split "
          "and lazy-split implementations and maybe_factor_gate (a reshape) are leaves; utils.check_opt raises ValueError "
          "unless value in valid; the module constants _BASIC/_SPLIT/_VALID_GATE_CONTRACT are re-read from the source"],
      ASSUMPTIONS=[
          "_tensor_network_gate_inds_basic: ng symbolic (>= 1), one arbitrary target position (skolem); contract in the four "
          "basic modes x isparam x transpose; requires ng == len(inds), the targets are legs of the network, each target "
          "label on exactly one tensor (single-target route)",
          "tensor_network_gate_inds: contract over the 7 valid modes + an invalid one x ng in {1, 2, 3+ (symbolic >= 3)} x "
          "isparam x (dagger, transpose) in {(F,F),(T,F),(F,T)} x inplace; the expected behaviour is the declarative table "
          "gate_mode_table of the contract module (per class of ng)",
          "NOT covered here (design P list of C06): _tensor_network_gate_inds_lazy_split, maybe_factor_gate, gate_TN_1D "
          "dispatch, the tnag gate site->label mapping"],
      BOUNDED_FOR={
          "_tensor_network_gate_inds_basic": ["TensorNetwork.gate_inds: dense(after)", "gate / gate_inds on a state-like",
                                              "Tensor.gate: x <- G x"],
          "tensor_network_gate_inds": ["TensorNetwork.gate_inds: dense(after)", "gate / gate_inds on a state-like"]},
      EXPLANATION="E1 (label calculus, arbitrary target position, every ng): _tensor_network_gate_inds_basic attaches the "
                  "gate through fresh labels so that the network's old labels join the gate's COLUMN axes (ROW axes when "
                  "transposed) and the other half carries the ORIGINAL labels (outer labels unchanged), on the lazy, "
                  "contract=True / single tensor, single-target and eager-split routes; tensor_network_gate_inds: every "
                  "(mode, ng, parametrised) request raises ValueError or reaches exactly one implementation with the "
                  "effective contract value of the mode table, G conjugated iff dagger, transpose = transpose or dagger, "
                  "receiver untouched unless inplace.")


_C20 = "quimb/calc.py"
_C20A = "quimb/linalg/approx_spectral.py"
entry("C20", modules=["contracts.c20_calc"],
      E1=[f"{_C20}::{_f}" for _f in (
          "check_dims_and_indices", "mutinf_subsys", "mutinf", "schmidt_gap", "partial_transpose_norm", "logneg", "negativity",
          "logneg_subsys", "one_way_classical_information", "quantum_discord", "correlation", "qid", "ent_cross_matrix",
          "simulate_counts", "dephase", "kraus_op", "projector", "measure", "purify", "concurrence")] +
         [f"{_C20}::logneg_subsys#all-n",  # second contract on logneg_subsys: the renumbering loop for a SYMBOLIC number of subsystems
          f"{_C20A}::gen_bipartite_spectral_fn.bipartite_spectral_fn", f"{_C20A}::lazy_ptr_linop", f"{_C20A}::lazy_ptr_ppt_linop"],
      LEMMAS=True,
      PROVIDERS=["contracts.c20_calc.provider_fdx"],
      TRUSTED=[
          "leaf ptr(p, dims, keep): the reduced state of p on the SET of subsystems `keep` of `dims`, subsystems ordered by "
          "increasing index (the order of `keep` is immaterial; position r of the result is the r-th smallest kept index); "
          "int2tup / `in` / tuple concatenation read and combine subsystem sets by membership [bounded: driver C20, C15]",
          "leaves entropy, entropy_subsys, tr_sqrt, tr_sqrt_subsys, logneg_subsys_approx, eigvalsh, norm_trace_dense, "
          "partial_transpose (own contract in C15), ikron (C15), expec, dot, kron (`&`), tr, eye, purify, pauli, bloch_state, "
          "scipy minimize, array_contract / np.einsum, Tensor / `&` / aslinearoperator: uninterpreted symbols applied to the "
          "canonical encoding of their arguments (what they compute is decided by the bounded drivers); eigvalsh(rho, k=2) "
          "returns min(2, size) eigenvalues",
          "quantum-state facts used ONLY as hypotheses of post-conditions (never derived): (P1) for a pure state a spectral "
          "function of the reduced state of X equals that of the complement of X (Schmidt decomposition), (P2) a subsystem "
          "of dimension 1 can be added to / removed from X, (P3) the entropy of the reduced state of no subsystem is 0; the "
          "pure-bipartition identity ||rho^T_A||_1 = (tr sqrt rho_A)^2 and the symmetry of the measures under A <-> B",
          "index calculus: a contraction (einsum subscripts / array_contract labels / tensor-network labels) is identified "
          "with its canonical form (operands ordered by tensor, labels renamed by first occurrence); einsum's implicit "
          "output = labels occurring once, alphabetically; einsum('aa->a', M) is a writeable view of the diagonal",
          "numpy leaves: np.argwhere(mask) lists the true positions in increasing order (instances at the skolem column); "
          "np.random.choice returns elements of its pool (distinct when replace=False); rng.choice(d, size=C, p=) returns C "
          "integers of range(d); toolz frequencies / keymap (counts per value; keys relabelled); python's format "
          "mini-language for one integer field ('{:0>Wb}': fill, alignment, width, base 2/8/10/16)",
          "skolem arguments: ent_cross_matrix is proved for ONE arbitrary pair of blocks / ONE arbitrary entry of the "
          "upscaled array, projector for ONE arbitrary column; the induction principle for their loop invariants",
          "monomial bookkeeping of products of dimensions (prod, products and exact quotients of monomials); the side "
          "condition dividend == divisor * quotient is an emitted obligation (enc)",
          "fdx: pauli_decomp is linear in its operator argument (expec is linear), so the 4**n matrix units decide every "
          "operator; textbook Pauli matrices written down in the contract module; the stubs replacing `correlation` / "
          "`pauli` inside pauli_correlations record their arguments faithfully",
          "E4: 2**-n is 1 / 2**n with 2**n defined by its recurrence (lemmas pow2-positive-base / -step; the induction "
          "principle on n)"],
      ASSUMPTIONS=[
          "STRUCTURE BOUND (value-unbounded): the number of subsystems K is fixed per case and all dimensions (>= 1), "
          "thresholds, ranks and scalar parameters are symbolic: bipartite_spectral_fn, schmidt_gap, mutinf, "
          "partial_transpose_norm K<=4 with every (non-empty) subset A; mutinf_subsys, logneg_subsys K<=4 with every pair of "
          "disjoint non-empty subsets (A, B) -- plus, for logneg_subsys, the renumbering loop of the exact route for a "
          "SYMBOLIC number of subsystems (membership arrays; route conditions uninterpreted there); lazy_ptr_linop K<=4 / lazy_ptr_ppt_linop K<=4 with sorted and reversed index "
          "tuples; kraus_op K<=3 with every ordered tuple `where`; quantum_discord K<=4 with symbolic sysa != sysb; "
          "correlation 2-3 sites; qid <= 3 indices; check_dims_and_indices <= 2+2 indices; ent_cross_matrix: block size 1..3 "
          "concrete, number of sites SYMBOLIC (all sz_p); projector / measure: spectrum of SYMBOLIC size n; simulate_counts: "
          "n <= 3 sites, phys_dim SYMBOLIC; dephase: dimension d SYMBOLIC.  Larger K: bounded run-time contracts only",
          "subsystem-set arguments are abstracted to their membership (any int / tuple / order); the order-sensitive "
          "arguments (quantum_discord's sysa, sysb; kraus_op's where; the lazy operators' index tuples) are kept as ordered "
          "data; A and B disjoint and non-empty; indices in range (check_dims_and_indices raises otherwise: own contract)",
          "floats are reals: an integer rand_rank and the float of the same value are distinguished by KIND (case), as "
          "python's isinstance does; dephase float kind: the proportion means int(rand_rank * d) clamped to 1..d",
          "KNOWN FAILURES on the unchanged tree (real defects, contracts kept as they are; all of them discharge on the "
          "tree repaired since -- the selftest puts each defect back as a mutant): schmidt_gap index obligation when A has total "
          "dimension 1 and B not (C20-c); simulate_counts label base (E1 and fdx, C20-e); dephase integer rand_rank = 1 "
          "(C20-f); quantum_discord first / measured party vs (sysa, sysb) (C20-g); correlation(sparse=True, dense "
          "operators covering the whole system) on the fdx grid (C20-k)",
          "NOT under contract (discrete part trivial or numerical): fidelity, entropy, tr_sqrt, trace_distance, the Wootters "
          "formula inside concurrence (only its input state is under contract), partial_transpose (contract in C15), decomp's "
          "body (fdx on the Pauli instance instead), bell_decomp beyond its bindings, pauli_correlations' body (fdx with "
          "stubbed callee), the Lanczos routines, is_degenerate, page_entropy, heisenberg_energy",
          "fdx grids: simulate_counts phys_dim 2..5 with phys_dim**n <= 125 (thorough 256), every basis state as ket and "
          "projector; pauli_decomp n <= 3; pauli_correlations tuples of <= 2 (thorough 3) operator pairs on 3 sites; "
          "correlation dims in {1,2,3}^2, {1,2}^3 (thorough {1,2,3}^3) of total dimension > 1, every ordered site pair, "
          "sparse in {None, False, True}, dense / csr operators, ket / operator"],
      BOUNDED_FOR={"schmidt_gap": ["schmidt_gap"], "simulate_counts": ["simulate_counts"], "dephase": ["dephase"],
                   "quantum_discord": ["quantum_discord"], "correlation": ["correlation"], "mutinf_subsys": ["mutinf_subsys"],
                   "mutinf": ["mutinf"], "logneg_subsys": ["logneg_subsys"], "ent_cross_matrix": ["ent_cross_matrix"],
                   "kraus_op": ["kraus_op"], "projector": ["projector"], "measure": ["measure"], "qid": ["qid"],
                   "lazy_ptr_linop": ["lazy_ptr_linop"], "lazy_ptr_ppt_linop": ["lazy_ptr_linop"],
                   "bipartite_spectral_fn": ["entropy_subsys"], "decomp": ["pauli_decomp"],
                   "pauli_correlations": ["pauli_correlations"]},
      EXPLANATION="E1 (discrete skeleton; structure-bounded, value-unbounded): which subsystems every shortcut traces out, "
                  "how they are renumbered and which dims are handed on -- bipartite_spectral_fn / schmidt_gap / "
                  "partial_transpose_norm work on A or its complement (constant only when a side is trivial, approximate "
                  "route iff the threshold is reached by the chosen side), mutinf(_subsys) = S(A)+S(B)-S(AB) of the same "
                  "state and dims with the options passed on, logneg_subsys hands logneg the kept dims in index order and "
                  "A's positions among the kept, quantum_discord's pair state with sysa first and sysb measured (FAILED on the "
                  "unchanged tree: C20-g), one_way_classical_information measures the second party, correlation / qid embed each operator "
                  "at its own site, ent_cross_matrix block arithmetic for ALL numbers of sites (skolem pair / entry, array "
                  "accesses in range, upscaling), simulate_counts draws C samples of range(phys_dim**n) with the Born "
                  "probabilities and labels them in base phys_dim with n digits (base FAILED on the unchanged tree: C20-e), dephase reads an integer "
                  "rand_rank as a count and a float as a proportion (FAILED for the integer 1 on the unchanged tree: C20-f), kraus_op's two "
                  "contractions as index calculus for every ordered `where`, projector includes exactly the columns within "
                  "tol once (all n), measure pairs probability / eigenvalue / projector / normalisation, the lazy partial-trace "
                  "operators sum exactly the traced axes and transpose exactly A; schmidt_gap reads a second eigenvalue that "
                  "does not exist when A is trivial (FAILED on the unchanged tree: C20-c).  fdx / E4: simulate_counts labels on every basis state, "
                  "pauli_decomp enumerates every Pauli string once with coefficient tr(Pa)/2^n (matrix units, n<=3; "
                  "normalisation * 2^n == 1 for all n), pauli_correlations letter/site pairing, correlation with the real "
                  "ikron on a complete small grid (sparse=True with dense operators covering the system FAILED on the unchanged tree: C20-k).")


# ---- C08, second part: the remaining record-threading carriers and the MPS circuit classes (contracts/c08_more.py) ----
_C08C, _C08K, _C08G = "quimb/tensor/circuit/mps.py", "quimb/tensor/circuit/core.py", "quimb/tensor/circuit/gates.py"
entry_extend(
    "C08", modules=["contracts.c08_more"],
    E1=[f"{_C08}::MatrixProductState.{m}" for m in (
        "schmidt_values", "entropy", "schmidt_gap", "bipartite_schmidt_state", "local_expectation_canonical",
        "compute_local_expectation_canonical", "measure", "sample_configuration", "sample", "gate_split",
        "gate_with_auto_swap", "gate_with_submpo", "gate_nonlocal")]
    + [f"{_C08}::gate_TN_1D", f"{_C08}::TensorNetwork1DVector.gate",
       f"{_C08G}::apply_swap", f"{_C08G}::_apply_controlled_gate_mps", f"{_C08G}::apply_controlled_gate",
       f"{_C08K}::CircuitBase._apply_gate"]
    + [f"{_C08C}::CircuitMPS.{m}" for m in ("local_expectation", "fidelity_estimate", "sample", "get_psi", "apply_gates",
                                            "partial_trace")]
    + [f"{_C08C}::CircuitPermMPS.{m}" for m in ("_apply_gate", "local_expectation", "sample")]
    + [f"{_C08C}::CircuitMPSLazy.{m}" for m in ("_compress", "_apply_gate", "local_expectation", "fidelity_estimate",
                                                "get_psi", "sample")],
    TRUSTED=[
        "leaf: gate_inds(G, (ind a, ind b), contract='split', absorb=...) on adjacent sites touches only the tensors of a "
        "and b; absorb='right' leaves the tensor of a an isometry towards b, 'left' the tensor of b an isometry towards a, "
        "'both'/None neither [C05 split leaf, DESIGN 1.5]",
        "leaf: tensor_network_1d_compress(region or whole chain, inplace=True) leaves the region in canonical form with the "
        "centre at its first site (last if sweep_reverse), contracts every lazily attached operator tensor of the region in "
        "and touches nothing outside the region [DESIGN C08 *A*]",
        "leaf: gate_with_op_lazy_(mpo) changes (attaches tensors to) the sites min(sites)..max(sites) of the operator only; "
        "partition(site tags, which='any', inplace=True) / `psi |= sub` split a site range off and put it back",
        "leaf: the generic TensorNetworkGenVector.gate(contract=True) on ONE site changes that site's tensor only, keeps its "
        "isometry flags iff the gate is unitary, and does not interpret the canonical-form record",
        "leaf: isel_ / modify(data=...) / reindex_ on one site tensor change that tensor only (its flags are dropped); "
        "`tn ^= slice(a, a+2)` and contract_tags_([tag i, tag i+1]) merge two adjacent site tensors into one carrying both "
        "tags (no isometry claim for it); retag_ moves one tensor to the neighbouring (vacated) site tag",
        "leaf: Circuit._maybe_convert (dtype / backend conversion), clear_storage, warnings, array / random-namespace "
        "calls (sum, real, choice, default_rng, stack, ...) do not change which site tensors are isometries",
        "MPS.copy() yields a distinct object with the same isometry flags; dict.copy() of the record a distinct dict",
    ],
    ASSUMPTIONS=[
        "c08_more re-registers three c08_mps contracts by subclasses that only add kinds / clauses / callee use: "
        "canonicalize (info=None: the post-condition speaks about the private witness record), singular_values (record = "
        "(i,i), exact raise condition, frame), partial_trace_to_dense_canonical (info absent / {}, three-site where, record "
        "inside where, frame)",
        "domains: sites / bonds / qubits on the chain (0 <= site < L; measure(remove=True) needs L >= 2; sample* need L >= 1); "
        "`terms` of compute_local_expectation_canonical: symbolic number of items, all keys of one kind per case (int | pair | "
        "triple of sites on the chain), the sort only permutes them (its key function is evaluated on an arbitrary item for "
        "definedness); sub-MPO support = `where` when `where` is given",
        "the dict comprehension of compute_local_expectation_canonical is cut with an invariant by a loop rule written in the "
        "contract (on_dictcomp: init / arbitrary iteration / step; complete split on 'first iteration or later' because the "
        "record changes kind with the first term); the comprehension body is the real expression",
        "measure(remove=True): the renumbering loop is proved with a skolem row (flags of one arbitrary site k and of k+1); "
        "ghost `gap` tracks which site tag is vacated / shared so that retag_ never overwrites a live tensor and _L is only "
        "reduced after the renumbering",
        "gate_split has no record parameter: promised are the frame, the isometry by `absorb`, and the derived record rule (if "
        "the centre was inside {a,b} before, the stated new record is sound) -- nothing about records whose centre is elsewhere",
        "gate_with_submpo / gate_nonlocal with method='lazy' (and gate_TN_1D routing there) do not interpret the record: "
        "promised are record untouched, only the operator's span changes, sound if the span lies inside the record; the "
        "operator is left pending (ghost) until a compression",
        "gate_TN_1D / TensorNetwork1DVector.gate / CircuitBase._apply_gate: only the contract modes that keep MPS form "
        "('auto-mps', 'swap+split', 'nonlocal', True on one site); a ONE-site gate takes the generic route, which does not "
        "interpret the record: soundness is promised if the gate is unitary or the site lies inside the recorded range "
        "(DESIGN C08 domain note); 'swap+split' with more than two sites raises ValueError before anything is touched "
        "(so CircuitPermMPS rejects 3-qubit gates); controlled gates = one control + one target, and in 'swap+split' mode "
        "apply_controlled_gate raises ValueError (nothing touched)",
        "circuit classes: tag_gate_* options off (the MPS circuit defaults); record kinds {} / None / pair (the library never "
        "writes 'calc' there); class invariant = same _psi object, same shared record dict, N = L, and -- unless a lazily "
        "attached operator is pending -- record in range and Sound(record, _psi); CircuitMPSLazy additionally: pending => "
        "some site counter is set (ghost `nonempty`; exact counts are a policy); the accessors of CircuitMPS require that "
        "nothing is pending; fidelity_estimate additionally requires an ORDERED pair (it reads the record raw) -- every "
        "record the library writes is ordered, but that is not part of the proved invariant",
        "CircuitPermMPS: `qubits` is a permutation of range(N) (index() returns a site, distinct qubits distinct sites); that "
        "the permutation matches the state is C07's matter; one-qubit gates are assumed unitary in the CircuitPermMPS / "
        "CircuitMPSLazy contracts (the physical site is internal)",
    ],
    EXPLANATION="E1 second part (c08_more): schmidt_values / entropy / schmidt_gap / bipartite_schmidt_state (record (i,i), "
                "ValueError exactly off the inner bonds, nothing touched then), local_expectation_canonical, "
                "compute_local_expectation_canonical (inplace=False: caller's record and receiver unchanged; invariant over "
                "the terms), measure (all get / remove / inplace kinds; remove shifts the ghost arrays; record = "
                "min(site, L'-1) as documented), sample_configuration / sample (record of self only read), gate_split "
                "(record not interpreted: frame + isometry by absorb + derived record rule), gate_with_auto_swap, "
                "gate_with_submpo, gate_nonlocal, the gate_TN_1D dispatcher and TensorNetwork1DVector.gate, apply_swap / "
                "apply_controlled_gate(_mps) of circuit/gates.py, CircuitBase._apply_gate and the methods of CircuitMPS / "
                "CircuitPermMPS / CircuitMPSLazy that touch gate_opts['info'] (plus apply_gates with the class invariant as "
                "loop invariant and partial_trace / get_psi, by dynamic class of the receiver): class invariant "
                "Sound(gate_opts.info, _psi).")


# ---- C10 / C09 / C12, sweep discipline (contracts/c10_sweeps.py): moving environments, sweep order + gauge, bond schedule;
# ---- 1D compression sweeps; 2D interleaved boundary bookkeeping and cap threading
_SW = "contracts.c10_sweeps"
_T2D = "quimb/tensor/tn2d/core.py"
_SW_TRUSTED_COMMON = [
    "E1 engine extensions used by contracts/c10_sweeps.py (all opt-in, additive): on_dict / on_listcomp hooks (abstract value "
    "for a dict display with a symbolic key / for a filter comprehension whose 2**len outcomes are irrelevant), ev_Set (set "
    "display of concrete elements), Loop.exact_last (python value of a for-loop variable AFTER the loop: last item, or the "
    "previous binding / unbound after zero iterations)",
    "callee effects written as array DEFINITIONS (z3 lambda terms) instead of quantified assumptions where stated in the "
    "contract (CompressSweep.apply): the defined state is the strongest one satisfying the proved ensures of the callee",
]
entry_extend(
    "C10", modules=[_SW],
    E1=[f"{_DM}::MovingEnvironment.{m}" for m in ("site_tag", "init_non_segment", "init_segment", "__init__", "move_right",
                                                   "move_left", "move_to", "__call__")]
    + [f"{_DM}::DMRG.{m}" for m in ("_set_bond_dim_seq", "_set_cutoff_seq", "_canonize_after_1site_update",
                                     "_update_local_state", "sweep", "sweep_right", "sweep_left", "solve")]
    + [f"{_DM}::DMRG1._update_local_state_1site", f"{_DM}::DMRG2._update_local_state_2site"],
    TRUSTED=_SW_TRUSTED_COMMON + [
        "tensor contractions are opaque: an environment network is abstracted to (free site block, number of _LEFT / _RIGHT "
        "tensors, sites they stand for); leaf algebra: env | tnc.select(site) adds an ADJACENT site; env | end piece adds a "
        "_LEFT / _RIGHT standing for exactly the sites beside the block (never a second one); env ^ (end tag, site tag) / "
        "env.select([end tag, site tag], which='any') ^ all contracts the end tensor with the ADJACENT free site; a virtual "
        "copy has the same content; Tensor(tags='_LEFT'|'_RIGHT') is a scalar dummy standing for no site; "
        "site_tag_id.format(j) is the tag of site j",
        "definitional facts of python floor division / modulo by a positive symbolic divisor (q = 0, r = a for 0 <= a < b, "
        "...) are assumed where `% self.L` is evaluated (exact where they apply)",
        "FRESHNESS (not mechanised): the contracted _LEFT / _RIGHT pieces of envs[k] are snapshots; they are up to date because "
        "a sweep only modifies sites inside the current block (and, for bsz = 1, the next site of the sweep direction), never a "
        "site already absorbed into the environment of a later position",
        "leaf [itertools]: chain(seq, repeat(x)) yields seq[k] for k < len(seq) and x afterwards; cycle(s) yields items of s; "
        "next(it) returns the item at the iterator's position and advances it by one",
        "leaf [C05 / DESIGN 1.5]: T_AB.split(left_inds, right_inds, get='arrays', absorb, max_bond=m, ...) returns (L, R) with L "
        "a left isometry for absorb='right', R a right isometry for absorb='left', new bond <= m; Tensor.modify(data=...) "
        "replaces one site tensor and nothing else; a local eigenvector written to a site carries no isometry claim",
        "leaf: left_/right_canonize_site, left_/right_canonize with bra=self._b: the proved C08 contracts (bra=None) are used "
        "and the bra is assumed to receive the conjugate of the same data (obligation: bra=self._b IS passed)",
        "leaf: form_local_ops builds Heff / Neff from ME_eff_ham() at its current position (label level proved in "
        "contracts/c09_labels.py); _eigs solves ONE local eigenproblem; post_check / _print_* / _compute_post_sweep / "
        "_check_convergence do not touch the state",
        "ASSUMPTION: MatrixProductState.expand_bond_dimension(new_bond_dim, rand_strength=eps, bra=...) keeps isometries "
        "(exactly when no bond grows or eps = 0; up to the noise eps = opts['bond_expand_rand_strength'] = 1e-6 otherwise): "
        "DMRG1's canonical form between alternating sweeps is exact only up to that noise",
    ],
    ASSUMPTIONS=[
        "open boundary only (cyclic=False, not segmented); MovingEnvironment: L >= bsz >= 1 with bsz SYMBOLIC; the whole chain "
        "is one segment range(0, L-bsz+1) (what __init__ passes; proved as call-pre); move_right only on an environment begun at "
        "the left, move_left only on one begun at the right, move_to(i) only AWAY from the begin side (a move back towards the "
        "begin side adds a second _RIGHT / _LEFT tensor: native ValueError 'index appears more than twice' on contraction -- "
        "DMRG never does this: proved as call-pre in _update_local_state / sweep)",
        "DMRG: bsz in {1, 2} (the dispatch table), direction in {'R','L'} / {'right','left'}, verbosity = 0 (progress bar not "
        "interpreted), options enumerated as given (max_bond, cutoff, cutoff_mode, method) | none; the sweep comprehension "
        "[self._update_local_state(i, ...) for i in sweep] is cut by an invariant like a loop",
        "solve: bond_dims / cutoffs None | scalar | sequence of symbolic length >= 1; sweep_sequence None | a string over "
        "{L, R} of arbitrary content (every next() is L or R); suppress_warnings True | False; max_sweeps >= 0",
        "schedule kinds: bond_dims int | non-empty sequence of ints (documented domain; numpy integers are not `int` and are "
        "rejected natively with TypeError); cutoffs float | non-empty sequence | python int (the last one FAILS: finding)",
        "the ghost `capd` (bond k was last written by a split that received the sweep's max_bond, hence <= max_bond) says "
        "nothing about bonds the sweep never splits: DMRG1 (no split) is outside it (known finding C10-c)",
    ],
    BOUNDED_FOR={
        "MovingEnvironment.init_segment": ["DMRG: reported energy == psi^dag H psi"],
        "MovingEnvironment.__init__": ["DMRG: reported energy == psi^dag H psi"],
        "MovingEnvironment.move_right": ["DMRG: reported energy == psi^dag H psi"],
        "MovingEnvironment.move_left": ["DMRG: reported energy == psi^dag H psi"],
        "MovingEnvironment.move_to": ["DMRG: reported energy == psi^dag H psi"],
        "MovingEnvironment.__call__": ["DMRG: reported energy == psi^dag H psi"],
        "DMRG.sweep": ["DMRG: the returned state is normalised", "DMRG: bond dimension of the state <= the scheduled cap"],
        "DMRG.solve": ["DMRG: bond dimension of the state <= the scheduled cap", "DMRG: the returned state is normalised"],
        "DMRG._set_bond_dim_seq": ["DMRG: bond dimension of the state <= the scheduled cap"],
        "DMRG._set_cutoff_seq": ["DMRG: bond dimension of the state <= the scheduled cap"],
        "DMRG._update_local_state": ["DMRG: the returned state is normalised"],
        "DMRG1._update_local_state_1site": ["DMRG: the returned state is normalised"],
        "DMRG2._update_local_state_2site": ["DMRG: the returned state is normalised",
                                            "DMRG: bond dimension of the state <= the scheduled cap"],
        "DMRG._canonize_after_1site_update": ["DMRG: the returned state is normalised"]},
    EXPLANATION="E1 (sweep discipline, contracts/c10_sweeps.py): MovingEnvironment on open chains for symbolic L and bsz: "
                "init_segment establishes, and move_right / move_left / move_to keep, the class invariant (envs[k] exists "
                "exactly for 0 <= k <= L-bsz, free block [k,k+bsz), prepared far-side environments, near-side environments "
                "up to pos), every index stays in [0, L-bsz] / [0, L), envs[k] is only read where stored, move_to terminates, "
                "and ME() is built from exactly the sites < pos (left) and >= pos+bsz (right) [regression guard for finding C10-d: a read of the "
                "loop variable after an empty loop is the obligation no-raise-UnboundLocalError]. DMRG: _set_bond_dim_seq / "
                "_set_cutoff_seq: the k-th next() returns bds[min(k, len-1)]; solve: sweep number t receives item k0+t of "
                "both schedules, as does DMRG1's expand_bond_dimension; canonize = not (direction+previous in {LR, RL}) "
                "always meets the gauge precondition of sweep; sweep: visits exactly positions 0..L-bsz in order (reversed "
                "for L), at every local eigenproblem the sites < i are left- and the sites >= i+bsz right-isometric, the "
                "environment is begun on the start side and moved forward only, options reach the split unchanged, "
                "absorb follows the direction, afterwards left- / right-canonical and (bsz = 2) every bond <= max_bond.")

entry_extend(
    "C09", modules=[_SW],
    E1=[f"{_T1}::set_default_compress_mode"]
    + [f"{_T1}::TensorNetwork1DFlat.{m}" for m in ("left_compress_site", "right_compress_site", "left_compress",
                                                    "right_compress", "compress")],
    TRUSTED=_SW_TRUSTED_COMMON + [
        "leaf [C05 + reading of tensor_core.tensor_compress_bond]: tensor_compress_bond(tl, tr, absorb, reduced, max_bond, "
        "cutoff, ...) on neighbours (tl left of tr) leaves the bond between them <= max_bond and touches no other tensor; the "
        "non-absorbing tensor is isometric: absorb='right' & reduced != 'right' -> tl left-isometric; absorb='left' & reduced "
        "!= 'left' -> tr right-isometric; otherwise neither (reduced='left' / 'right' decompose ONE tensor only)",
        "leaf [QR]: left_/right_canonize_site (proved C08 contracts) never increase a bond dimension: the ghost `capd` (bond "
        "(k,k+1) was last compressed by a call that received exactly the caller's max_bond / cutoff, hence <= max_bond) "
        "survives canonization",
    ],
    ASSUMPTIONS=[
        "1D compression sweeps: open boundary (cyclic=False), bra=None, create_bond=False; options enumerated as none | "
        "{max_bond, cutoff} | {max_bond, cutoff, absorb='both'}; start / stop None | int with the swept range inside the chain; "
        "compress(form): form None | 'left' | 'right' | 'flat' | int c with 0 <= c < L | any other value (must raise)",
        "the truncation is optimal (and the error bound of C05 applies) only because compress(form) canonizes towards the far "
        "side first: that is the gauge argument of C08, not restated here",
    ],
    BOUNDED_FOR={
        "TensorNetwork1DFlat.compress": ["compress(form): unchanged when untruncated, bonds <= cap, promised canonical centre"],
        "TensorNetwork1DFlat.left_compress": ["compress(form): unchanged when untruncated, bonds <= cap, promised canonical centre"],
        "TensorNetwork1DFlat.right_compress": ["compress(form): unchanged when untruncated, bonds <= cap, promised canonical centre"],
        "TensorNetwork1DFlat.left_compress_site": ["compress_site(i): unchanged when cap >= bond dimension"],
        "TensorNetwork1DFlat.right_compress_site": ["compress_site(i): unchanged when cap >= bond dimension"],
        "set_default_compress_mode": ["compress(form): unchanged when untruncated, bonds <= cap, promised canonical centre"]},
    EXPLANATION="E1 (cap threading + canonical form, contracts/c10_sweeps.py): left_/right_compress_site hand every caller "
                "option to exactly one tensor_compress_bond on the bond next to i and only ADD defaults (absorb, reduced, "
                "cutoff_mode); left_/right_compress: loop invariant over the swept prefix (every swept bond compressed with "
                "exactly the caller's max_bond / cutoff, swept sites isometric, frame outside); compress(form): EVERY bond "
                "(k,k+1), 0 <= k < L-1 is compressed with the caller's options for every form ('flat': the two half sweeps "
                "meet at L//2 without gap), hence max_bond() <= cap, and the promised form holds: right / None: sites > 0 "
                "right-isometric, left: sites < L-1 left-isometric, int c: centre at c, flat: no claim.")

entry_extend(
    "C12", modules=[_SW],
    E1=[f"{_T2D}::TensorNetwork2D.{m}" for m in ("_contract_interleaved_boundary_sequence", "contract_boundary",
                                                  "contract_boundary_from", "_contract_boundary_core")],
    TRUSTED=_SW_TRUSTED_COMMON + [
        "DECLARED value-preserving operations (exact when untruncated; their numerical content is what the C12 drivers check): "
        "contract_boundary_from_(xrange, yrange, from_which=d, ...) contracts the boundary row / column d of the current "
        "extent into its inner neighbour and compresses (extent shrinks by one on side d); equalize_norms_() redistributes "
        "norms / the stored exponent; contract(**opts) is the final exact contraction; contract_((tag1, tag2), which='any'), "
        "contract_between, `self ^= tag` contract tensors; canonize_plane / compress_plane / _compress_between_tids are "
        "gauge moves / truncations with the given cap",
        "leaf: get_ranges_present() returns non-empty coordinate ranges; parse_boundary_sequence returns a tuple of strings "
        "from {xmin, xmax, ymin, ymax} of any length; utils.ensure_dict(x) = {} for None, else a dict COPY; Rotator2D(tn, "
        "xrange, yrange, from_which): plane = from_which[0], sweep over the plane coordinate from the starting side inwards "
        "(istep = +1 from 'min', -1 from 'max'), sweep_other over the sorted other range, site_tag(i, j) a tag",
        "the direction queue of the handler is abstracted to its LENGTH (content: arbitrary directions); the filter "
        "comprehension before the loop returns an arbitrary sub-list",
    ],
    ASSUMPTIONS=[
        "_contract_interleaved_boundary_sequence: max_separation >= 0; borders all given (xmin <= xmax, ymin <= ymax) | all "
        "automatic; sequence None | given; around None | a non-empty collection; inplace True | False; (equalize_norms, "
        "strip_exponent, final_contract) in {(auto,F,T), (auto,T,T), (True,F,F), (False,T,T)}; progbar off",
        "contract_boundary / contract_boundary_from: mode in {mps, full-bond} resp. {mps, full-bond, projector2d, any 1D "
        "method name}; extra options none | two; _contract_boundary_core: from_which each of the four sides, compress_late "
        "True | False, max_bond int | None, layer_tags None | two tags, caller's compress_opts with / without its own absorb",
    ],
    BOUNDED_FOR={
        "TensorNetwork2D._contract_interleaved_boundary_sequence": ["contract_boundary (2D)"],
        "TensorNetwork2D.contract_boundary": ["contract_boundary (2D)"],
        "TensorNetwork2D.contract_boundary_from": ["contract_boundary_from_{xmin,xmax,ymin,ymax}"],
        "TensorNetwork2D._contract_boundary_core": ["contract_boundary (2D)", "contract_boundary_from_{xmin,xmax,ymin,ymax}"]},
    EXPLANATION="E1 (bookkeeping + cap threading, contracts/c10_sweeps.py): _contract_interleaved_boundary_sequence: loop "
                "invariant separations[d] == boundaries[dmax] - boundaries[dmin] and boundaries == the extent of the working "
                "network (ghost extent advanced by the leaf); every range handed to contract_boundary_from_ is the current "
                "boundary line and its inner neighbour, inside the extent, over the full other extent; opposing boundaries "
                "never get closer than max_separation; the while loop terminates (measure: excess separations + queue "
                "length); every operation acts on the working network (receiver iff inplace) and is a declared "
                "value-preserving one; contract_boundary_opts reach every call unchanged; equalize_norms='auto' resolution, "
                "final-contract defaults. contract_boundary / contract_boundary_from: max_bond, cutoff and every other option "
                "reach the handler / the boundary method of the mode unchanged. _contract_boundary_core: every "
                "_compress_between_tids / compress_plane call receives the caller's max_bond, cutoff, equalize_norms and "
                "compress_opts (+ default absorb only) [max_bond=None with compress_late=False FAILS: int > None].")


# extension entries kept one file per property (contracts/index_ext_cNN*.py, each calling entry_extend) so that
# contract authors working in parallel never edit this file; imported in name order
import glob as _glob  # noqa: E402
import os as _os  # noqa: E402

for _p in sorted(_glob.glob(_os.path.join(_os.path.dirname(_os.path.abspath(__file__)), "index_ext_*.py"))):
    importlib.import_module("contracts." + _os.path.basename(_p)[:-3])
