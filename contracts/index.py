"""index of the deductive part (E1 contracts, lemmas, E2/E4/fdx providers) per property.
The property modules under props/ carry the bounded drivers and the manifest metadata; this index is merged
into them by vf.framework.load_prop."""
import importlib

INDEX = {}


def entry(pid, modules=(), **kw):
    INDEX[pid] = dict(modules=list(modules), **kw)


def load(pid):
    e = INDEX.get(pid)
    if not e:
        return None
    for m in e["modules"]:
        importlib.import_module(m)
    out = dict(e)
    provs = []
    for p in e.get("PROVIDERS", []):
        if isinstance(p, str):
            mod, _, fn = p.rpartition(".")
            provs.append(getattr(importlib.import_module(mod), fn))
        else:
            provs.append(p)
    out["PROVIDERS"] = provs
    return out


_C08 = "quimb/tensor/tn1d/core.py"
entry("C08", modules=["contracts.c08_mps"],
      E1=[f"{_C08}::parse_cur_orthog", f"{_C08}::TensorNetwork1DFlat.left_canonize_site",
          f"{_C08}::TensorNetwork1DFlat.right_canonize_site", f"{_C08}::TensorNetwork1DFlat.left_canonicalize",
          f"{_C08}::TensorNetwork1DFlat.right_canonicalize", f"{_C08}::MatrixProductState.shift_orthogonality_center",
          f"{_C08}::TensorNetwork1DFlat.calc_current_orthog_center", f"{_C08}::MatrixProductState.canonicalize"],
      TRUSTED=["leaf: tensor_canonize_bond(T1,T2) leaves T1 an isometry towards T2 and touches no other tensor (QR); "
               "checked at run time by the C08 drivers",
               "leaf: count_canonized returns (lo, ro) such that the lo leading sites are left isometries, the ro trailing "
               "sites right isometries and lo+ro <= L-1 (numerical test inside quimb)"],
      ASSUMPTIONS=["open boundary chains (cyclic=False); bra=None; normalize=False in the sweep helpers",
                   "union-typed parameters are enumerated by kind (where: int|pair; record: pair|int|'calc'|None via "
                   "info or via cur_orthog; inplace: True|False): every combination is its own obligation set"],
      EXPLANATION="E1 (mpsghost): ghost arrays isL/isR per MPS heap object; proved for all L, all sites, all kinds: "
                  "left/right_canonize_site, left/right_canonicalize (loop invariants over the swept prefix + frame), "
                  "shift_orthogonality_center (strongest frame form), calc_current_orthog_center, parse_cur_orthog, "
                  "canonicalize: Sound(info', result) and min(where) <= a <= b <= max(where), receiver untouched when "
                  "not in place, nothing outside the span of old record and target touched.")


_TC = "quimb/tensor/tensor_core.py"
entry("C01", modules=["contracts.c01_den"],
      E1=[f"{_TC}::tensor_contract", f"{_TC}::maybe_unwrap", f"{_TC}::TensorNetwork.contract_tags",
          f"{_TC}::TensorNetwork.contract", f"{_TC}::TensorNetwork.contract_cumulative", f"{_TC}::TensorNetwork.item",
          f"{_TC}::TNLinearOperator.__init__", f"{_TC}::TensorNetwork.aslinearoperator", f"{_TC}::TensorNetwork.trace"],
      TRUSTED=["leaf: array_contract / cotengra computes the sum-of-products of the arrays it is given over the labels "
               "not in the output; with strip_exponent it returns (mantissa, e) with mantissa*10**e equal to that value",
               "leaf: partition_tensors returns (rest, matched) whose joint contraction is the original network and the "
               "rest keeps the stored exponent (C02); reindex / transpose_ relabel without changing values (C03)",
               "leaf: the action of TNLinearOperator is the contraction of the tensors stored in _tensors",
               "norm is homogeneous: norm(10^e d) = 10^e norm(d); tensors are non-zero and finite (log10 defined)"],
      ASSUMPTIONS=["den domain: a value is 10^e*d with d in an uninterpreted sort, contraction = uninterpreted join with "
                   "unit; exponent bookkeeping is then linear real arithmetic + EUF. Which labels are summed (label "
                   "calculus / output_inds inference) is NOT part of this domain: carried by opaque values",
                   "kinds enumerated: tags in {all, ..., some}; strip_exponent, inplace, preserve_tensor in {True, False}; "
                   "equalize_norms in {'auto', True, False}; exponent None | real; get=None; max_bond=None (exact route); "
                   "generic (non structured) network class; non-empty network"],
      BOUNDED_FOR={"TensorNetwork.contract_tags": ["contract_tags", "contract(tags"], "TensorNetwork.item": ["item"],
                   "TNLinearOperator.__init__": ["TNLinearOperator", "linear operator"]},
      EXPLANATION="E1 (den domain): for every return path of tensor_contract, maybe_unwrap, TensorNetwork.contract, "
                  "contract_tags, contract_cumulative (loop invariant), item, trace, aslinearoperator and the "
                  "TNLinearOperator constructor: den(result) == den(old(self)) incl. the stored exponent, in every "
                  "return form (network | tensor | scalar | (mantissa, exponent)), and the receiver is unchanged when "
                  "not in place.")
entry("C04", modules=["contracts.c01_den"],
      E1=[f"{_TC}::TensorNetwork.strip_exponent", f"{_TC}::TensorNetwork.distribute_exponent",
          f"{_TC}::TensorNetwork.equalize_norms", f"{_TC}::maybe_unwrap"],
      TRUSTED=["leaf: multiply_each(x) multiplies each of the n tensors by x (positive scalar: log prefactor += n*log10 x)",
               "norm is homogeneous; tensors non-zero and finite"],
      ASSUMPTIONS=["den domain as in C01; equalize_norms / distribute_exponent on a network with at least one tensor "
                   "(on an empty network distribute_exponent divides by zero: outside the domain)",
                   "value kinds: None | True | positive real"],
      EXPLANATION="E1 (den domain): strip_exponent, distribute_exponent, equalize_norms (loop invariant) and the "
                  "redistribution inside maybe_unwrap preserve the denoted value exactly and leave the promised form "
                  "(tensor norm == value, exponent == new_exponent / 0 after redistribution).")
