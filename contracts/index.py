"""index of the deductive part (E1 contracts, lemmas, E2/E4/fdx providers) per property.
The property modules under props/ carry the bounded drivers and the manifest metadata; this index is merged
into them by vf.framework.load_prop."""
import importlib

INDEX = {}


def entry(pid, modules=(), **kw):
    INDEX[pid] = dict(modules=list(modules), **kw)


def load(pid):
    e = INDEX.get(pid)
    if not e:
        return None
    for m in e["modules"]:
        importlib.import_module(m)
    out = dict(e)
    provs = []
    for p in e.get("PROVIDERS", []):
        if isinstance(p, str):
            mod, _, fn = p.rpartition(".")
            provs.append(getattr(importlib.import_module(mod), fn))
        else:
            provs.append(p)
    out["PROVIDERS"] = provs
    return out


_C08 = "quimb/tensor/tn1d/core.py"
entry("C08", modules=["contracts.c08_mps"],
      E1=[f"{_C08}::parse_cur_orthog", f"{_C08}::TensorNetwork1DFlat.left_canonize_site",
          f"{_C08}::TensorNetwork1DFlat.right_canonize_site", f"{_C08}::TensorNetwork1DFlat.left_canonicalize",
          f"{_C08}::TensorNetwork1DFlat.right_canonicalize", f"{_C08}::MatrixProductState.shift_orthogonality_center",
          f"{_C08}::TensorNetwork1DFlat.calc_current_orthog_center", f"{_C08}::MatrixProductState.canonicalize",
          f"{_C08}::MatrixProductState.swap_sites_with_compress", f"{_C08}::MatrixProductState.swap_site_to",
          f"{_C08}::MatrixProductState.compress_site", f"{_C08}::MatrixProductState.singular_values",
          f"{_C08}::MatrixProductState.magnetization", f"{_C08}::MatrixProductState.partial_trace_to_dense_canonical"],
      TRUSTED=["leaf: tensor_canonize_bond(T1,T2) leaves T1 an isometry towards T2 and touches no other tensor (QR); "
               "checked at run time by the C08 drivers",
               "leaf: Tensor.split(absorb) of a two-site tensor leaves the non-absorbing factor isometric (left: the right "
               "factor, right: the left factor, both/unspecified: neither) [C05]; tensor_compress_bond likewise",
               "leaf: count_canonized returns (lo, ro) such that the lo leading sites are left isometries, the ro trailing "
               "sites right isometries and lo+ro <= L-1 (numerical test inside quimb)"],
      ASSUMPTIONS=["open boundary chains (cyclic=False); bra=None; normalize=False in the sweep helpers",
                   "union-typed parameters are enumerated by kind (where: int|pair; record: pair|int|'calc'|None via "
                   "info or via cur_orthog; inplace: True|False): every combination is its own obligation set"],
      EXPLANATION="E1 (mpsghost): ghost arrays isL/isR per MPS heap object; proved for all L, all sites, all kinds: "
                  "left/right_canonize_site, left/right_canonicalize (loop invariants over the swept prefix + frame), "
                  "shift_orthogonality_center (strongest frame form), calc_current_orthog_center, parse_cur_orthog, "
                  "canonicalize: Sound(info', result) and min(where) <= a <= b <= max(where), receiver untouched when "
                  "not in place, nothing outside the span of old record and target touched.")


_TC = "quimb/tensor/tensor_core.py"
entry("C01", modules=["contracts.c01_den"],
      E1=[f"{_TC}::tensor_contract", f"{_TC}::maybe_unwrap", f"{_TC}::TensorNetwork.contract_tags",
          f"{_TC}::TensorNetwork.contract", f"{_TC}::TensorNetwork.contract_cumulative", f"{_TC}::TensorNetwork.item",
          f"{_TC}::TNLinearOperator.__init__", f"{_TC}::TensorNetwork.aslinearoperator", f"{_TC}::TensorNetwork.trace"],
      TRUSTED=["leaf: array_contract / cotengra computes the sum-of-products of the arrays it is given over the labels "
               "not in the output; with strip_exponent it returns (mantissa, e) with mantissa*10**e equal to that value",
               "leaf: partition_tensors returns (rest, matched) whose joint contraction is the original network and the "
               "rest keeps the stored exponent (C02); reindex / transpose_ relabel without changing values (C03)",
               "leaf: the action of TNLinearOperator is the contraction of the tensors stored in _tensors",
               "norm is homogeneous: norm(10^e d) = 10^e norm(d); tensors are non-zero and finite (log10 defined)"],
      ASSUMPTIONS=["den domain: a value is 10^e*d with d in an uninterpreted sort, contraction = uninterpreted join with "
                   "unit; exponent bookkeeping is then linear real arithmetic + EUF. Which labels are summed (label "
                   "calculus / output_inds inference) is NOT part of this domain: carried by opaque values",
                   "kinds enumerated: tags in {all, ..., some}; strip_exponent, inplace, preserve_tensor in {True, False}; "
                   "equalize_norms in {'auto', True, False}; exponent None | real; get=None; max_bond=None (exact route); "
                   "generic (non structured) network class; non-empty network"],
      BOUNDED_FOR={"TensorNetwork.contract_tags": ["contract_tags", "contract(tags"], "TensorNetwork.item": ["item"],
                   "TNLinearOperator.__init__": ["TNLinearOperator", "linear operator"]},
      EXPLANATION="E1 (den domain): for every return path of tensor_contract, maybe_unwrap, TensorNetwork.contract, "
                  "contract_tags, contract_cumulative (loop invariant), item, trace, aslinearoperator and the "
                  "TNLinearOperator constructor: den(result) == den(old(self)) incl. the stored exponent, in every "
                  "return form (network | tensor | scalar | (mantissa, exponent)), and the receiver is unchanged when "
                  "not in place.")
entry("C04", modules=["contracts.c01_den"],
      E1=[f"{_TC}::TensorNetwork.strip_exponent", f"{_TC}::TensorNetwork.distribute_exponent",
          f"{_TC}::TensorNetwork.equalize_norms", f"{_TC}::maybe_unwrap"],
      TRUSTED=["leaf: multiply_each(x) multiplies each of the n tensors by x (positive scalar: log prefactor += n*log10 x)",
               "norm is homogeneous; tensors non-zero and finite"],
      ASSUMPTIONS=["den domain as in C01; equalize_norms / distribute_exponent on a network with at least one tensor "
                   "(on an empty network distribute_exponent divides by zero: outside the domain)",
                   "value kinds: None | True | positive real"],
      EXPLANATION="E1 (den domain): strip_exponent, distribute_exponent, equalize_norms (loop invariant) and the "
                  "redistribution inside maybe_unwrap preserve the denoted value exactly and leave the promised form "
                  "(tensor norm == value, exponent == new_exponent / 0 after redistribution).")
_EVO = "quimb/evo.py"
entry("C18", modules=["contracts.c18_evo"],
      E1=[f"{_EVO}::_calc_evo_eq", f"{_EVO}::Evolution.__init__", f"{_EVO}::Evolution._setup_solved_ham",
          f"{_EVO}::Evolution._start_integrator", f"{_EVO}::Evolution._setup_callback",
          f"{_EVO}::Evolution._update_to_expm_ket", f"{_EVO}::Evolution._update_to_solved_ket",
          f"{_EVO}::Evolution._update_to_solved_dop", f"{_EVO}::Evolution._update_to_integrate",
          f"{_EVO}::Evolution.update_to", f"{_EVO}::Evolution.at_times", f"{_EVO}::Evolution.t", f"{_EVO}::Evolution.pt"],
      PROVIDERS=["contracts.c18_evo.provider_support_table"],
      TRUSTED=["leaf: expm_multiply(c*H, v) = exp(c H) v, acting from the left only (on a density operator that is "
               "exp(-i tau H) rho, not the von Neumann flow)",
               "leaf: spectral theorem for (l, V) = eigh(H): V diag(explt(l,tau)) V^dag psi = exp(-i tau H) psi and "
               "V (diag(lt) (V^dag rho V) diag(conj lt)) V^dag = exp(-i tau H) rho exp(+i tau H); explt(l,tau) = exp(-i tau l); "
               "ldmul / rdmul multiply by a diagonal from the left / right",
               "group law of the one-parameter groups Uact / Uconj / Flow: G(a, G(b, x)) = G(a+b, x) (ground instances)",
               "leaf: scipy complex_ode.integrate(t) moves (t, y) to time t along the flow of the right-hand side it was "
               "built with; set_initial_value / set_integrator / set_solout store their arguments",
               "leaf: qu() / qarray() / toarray() change the representation, not the denoted state; y.reshape(d,-1) of the "
               "ravelled state is the state; functools.lru_cache(1) wrapper denotes the wrapped Hamiltonian function",
               "leaf: Try2Then3Args(fn)(t, p, H) calls fn(t, p) or fn(t, p, H) exactly once with the same t, p",
               "leaf: iterating / unpacking a matrix yields its rows (ValueError unless it has exactly two rows); "
               "progbar(ts) iterates ts unchanged; continuous_progbar is a plain context manager",
               "fdx oracle: scipy.linalg.expm and numpy.linalg.eigh on 2x2 / 3x3 Hermitian matrices"],
      ASSUMPTIONS=["kinds enumerated: method in {solve, integrate, expm, 'bogus'}; state in {ket, density operator}; "
                   "Hamiltonian in {dense qarray, sparse csr, (evals, evecs) tuple, [evals, evecs] list, scipy "
                   "LinearOperator, time-dependent callable returning a dense (or sparse) matrix}; int_stop None | callable; "
                   "compute None | callable | dict of two callables; progbar False | True. quimb Lazy, plain ndarray and "
                   "coo/bsr Hamiltonians are outside the table (bounded drivers only)",
                   "times are reals; the Hilbert-space dimension d >= 1 is symbolic in E1 (d = 2 takes the row-unpacking "
                   "path); the fdx provider runs the real constructor at d = 2 and d = 3",
                   "the dynamics itself (ODE integration accuracy, expm accuracy) is not proved: bounded drivers"],
      BOUNDED_FOR={"Evolution.__init__": ["Evolution", "evolution"], "Evolution._setup_solved_ham": ["solve"]},
      EXPLANATION="E1: support table of Evolution.__init__ by kind enumeration (96 combinations x own-raise paths): the "
                  "constructor raises or installs an update method whose own precondition covers (state kind, Hamiltonian "
                  "kind), the _method string says 'integrate' iff the integrating method is installed (so the t / pt "
                  "properties read the field that method maintains), time/state fields are initialised (I(evo) at t0); "
                  "helpers _setup_solved_ham (stored system is the eigendecomposition, pe0 = V^dag p0 [V]), "
                  "_start_integrator (equation matches (state, time dependence), built from the given Hamiltonian, starts "
                  "at (ravel p0, t0), solout forwards (t, y, ham) and returns the stop verdict), _calc_evo_eq (full table), "
                  "_setup_callback (closures executed symbolically: every compute function once per step with (t, pt, ham); "
                  "the integration callback hands over qarray(y.reshape(d,-1)) = what pt reports). Time algebra with an "
                  "uninterpreted one-parameter group: _update_to_solved_ket/dop use t - t0 (absolute), _update_to_expm_ket "
                  "uses t - self.t then sets _t = t (incremental): pt == U(t - t0) p0 and t' == t after every update, "
                  "two-sided for density operators; update_to dispatches exactly once; at_times (loop invariant, symbolic "
                  "length): the j-th yield is the state at ts[j], one yield per requested time. fdx: the real constructor on "
                  "all 2 x 4 x 2 x 6 combinations + one step vs scipy.linalg.expm, and _calc_evo_eq on its 16 inputs.")
entry("C07", modules=["contracts.c07_circuit"],
      PROVIDERS=["contracts.c07_circuit.provider_gates", "contracts.c07_circuit.provider_cache"],
      TRUSTED=["E2: sympy 1.14 polynomial arithmetic over Q(i) (Poly, domain QQ_I), expand_trig, conjugate of expressions "
               "in real symbols; autoray dispatch to the functions registered for backend 'sympy' (complex, stack, array, "
               "tensordot, transpose, einsum, reshape: thin exact wrappers over sympy / numpy object arrays); cotengra "
               "contracts the ten tensors of su4_gate_param_gen through those wrappers",
               "E2: the normal form modulo {s_k^2 + c_k^2 - 1} decides identities of trigonometric polynomials for all "
               "real parameters (disjoint-variable Groebner basis; real points of a product of circles are Zariski dense)",
               "E2: the textbook table in contracts/c07_circuit.py::_textbook (written from the defining formulas: "
               "rotations exp(-i t/2 P), controlled-U with the first listed qubit as control, Google fSim / general fSim, "
               "qiskit XXPlusYY / XXMinusYY with qubit 0 = first listed qubit, Vatan-Williams SU(4) circuit, qsim "
               "x_1_2 / y_1_2 / hz_1_2); its bit-order convention is checked natively on Circuit + CX (8 cases)",
               "E4: leaf summaries by name: validator _maybe_init_storage, invalidator clear_storage, stamp "
               "_sample_n_gates, counter num_gates = len(_gates), state _psi; their bodies are checked structurally "
               "(cache-leaf-* obligations)",
               "E4 / C03: methods of the state network without trailing underscore do not modify it (except the declared "
               "apply_to_arrays, add_tag, drop_tags, retag_all, randomize); in-place operations squeeze_, astype_, "
               "gauge_all_simple_, add_tag, apply_to_arrays, view_as_, view_like_ change the representation, not the "
               "denoted state (C04)"],
      ASSUMPTIONS=["E2: float literals of the builders are exact dyadic rationals, except roundings of closed forms, which "
                   "are replaced by the closed form when within 1 ulp (u2_gate_param_gen: 2**0.5 -> sqrt(2); constant "
                   "arrays: +-0.7071067811865475/6 -> +-sqrt(2)/2); every substitution is listed in the obligation detail",
                   "E2: parameters are real; one obligation per registered gate name; multi-controlled gates built by "
                   "build_controlled_gate_htn / Gate.build_mpo from a unitary target are not covered here (C06, bounded)",
                   "E4 R1: calls on objects other than self do not apply gates to self unless self is passed as an argument; "
                   "unresolvable self.<attr>(...) callables (to_backend, methods an abstract base expects from subclasses) "
                   "are assumed pure and listed in the census obligation",
                   "E4 R1/R2: objects reached through self's cache containers (the sub-circuits stored by "
                   "sample_gate_by_gate) are owned by the cache: nobody else applies gates to them, their cache is "
                   "covered by valid(self)",
                   "E4 R2: a generator method called without `yield from` runs to completion inside the caller (its "
                   "yields are not suspension points of the caller)",
                   "E4 R3: CircuitBase.apply_to_arrays(fn) is representation-only: fn converts backend / dtype and "
                   "preserves values (every call site in the package does); with a value-changing fn the parameters "
                   "change while cache and gate record stay (observed natively: amplitude stays at the cached value)",
                   "E4 R3: constructors are exempt (the object is born invalid: stamp -1, checked by R4); exceptions "
                   "raised half-way through a mutator are not covered (bounded drivers: a rejected gate)",
                   "E4 R5 (name-level): a variable named in the key expression is taken to be captured by the key; "
                   "representation-only query arguments, not required in keys: optimize, backend (route / library), dtype "
                   "(precision; floats are reals), simplify_sequence / seq, equalize_norms / simplify_equalize_norms "
                   "(value-preserving simplifications, C04), simplify_atol / atol (simplifier tolerance: an approximation "
                   "knob -- conditionals cached under one tolerance or dtype are reused under another), progbar",
                   "the MPS `sample` generators hold no cache field; that they keep sampling the state of the first "
                   "next() after later gates (a snapshot) is outside the cache typestate: bounded drivers"],
      EXPLANATION="E2: the real builders of circuit/gates.py (loaded from the source text) executed on sympy symbols "
                  "through autoray; U^dag U = I and U = textbook decided for all real parameters by exact normal forms of "
                  "trigonometric polynomials (SU4 with 15 parameters included); every constant gate array recognised in "
                  "closed form (1 ulp) and checked exactly; CX bit order checked natively. E4: query-cache typestate by "
                  "reflection over every method of every class of circuit/*.py deriving from CircuitBase, in every "
                  "subclass context (dynamic dispatch of self / super / properties resolved through the MRO): R1 cache "
                  "accesses dominated by the validator, R2 valid havoc'd at yield, R3 mutators end invalidated (append to "
                  "the gate list counts: the validator compares a gate counter; the list never shrinks), R4 copy / "
                  "constructor write the cache fields atomically, R5 cache keys cover the data dependences of the cached "
                  "value; failing obligations carry a native replay executed on the real classes.")


entry("C14", modules=["contracts.c14_bp"],
      E1=["quimb/tensor/belief_propagation/bp_common.py::combine_local_contractions"],
      TRUSTED=["complex power by polar form: (phase*10^lg)^p = phase^p * 10^(p*lg) in an abelian phase group",
               "autoray abs / log10 are the mathematical functions on non-zero values"],
      ASSUMPTIONS=["convergence of message passing and tree-exactness are NOT within reach of any contract: they are "
                   "decided by the bounded stand-in only; only the mantissa/exponent combiner is proved",
                   "without check_zero every value is non-zero (log10 defined)"],
      EXPLANATION="E1 (polar domain): combine_local_contractions returns (m0*10^e0*prod x_i^p_i)^power for all numbers "
                  "of values, in both return forms, and returns zero iff check_zero and some value is zero.")
