"""C01 -- exponent (log-prefactor) bookkeeping of the contraction entry points of quimb/tensor/tensor_core.py.

den domain.  A tensor / scalar value is 10^e * d with e a real (log10 prefactor accumulated by scalings) and d an
element of an uninterpreted sort `Den` (the 'direction': the data up to the tracked prefactor).  Contraction of a
collection is `join` (uninterpreted, unit ONE).  All scalings that occur in the code are by positive scalars obtained
from norms: norm(10^e d) = 10^(e + lnrm(d))  (homogeneity of the norm, lnrm uninterpreted).  Hence every exponent
manipulation is *linear real arithmetic + EUF*.  A network N denotes  10^(N.exponent + N.lg) * N.dir  where lg is the
(ghost) sum of the prefactors of its tensors and dir the join of their directions.

Property (C01): every evaluating route returns the value of the network:  den(result) == den(old(self)).
Preconditions (stated): tensors are non-zero and finite (else log10 is -inf / nan).
Label bookkeeping (which labels are summed) is not part of this domain: it is carried by opaque values.
"""

import z3

from vf.pyvc import (And, Contract, If, Implies, Loop, NS, Not, Opaque, Or, PyRaise, Ref, StarArg, Unsupported, R, Z,
                     is_z3, is_num, register, REGISTRY)

F = "quimb/tensor/tensor_core.py"
TN = f"{F}::TensorNetwork"

Den = z3.DeclareSort("Den")
join = z3.Function("join", Den, Den, Den)
ONE = z3.Const("ONE", Den)
lnrm = z3.Function("lnrm", Den, z3.RealSort())


class TVal:
    """a Tensor or a raw scalar/array: 10^e * d"""

    def __init__(self, e, d, is_tensor, note=""):
        self.e, self.d, self.is_tensor, self.note = e, d, is_tensor, note

    truth = True


class PosScalar:
    """a positive real scalar 10^l"""

    def __init__(self, l):
        self.l = l


class Bag:
    """a collection of tensors of symbolic length: joint value 10^lg * d"""

    def __init__(self, lg, d, nonempty, count=None):
        self.lg, self.d, self.nonempty, self.count = lg, d, nonempty, count

    @property
    def truth(self):
        return self.nonempty


class Inds:
    """a tuple of labels of unknown content; only its emptiness matters to the control flow"""

    def __init__(self, nonempty):
        self.nonempty = nonempty

    @property
    def truth(self):
        return self.nonempty


BUILTIN_ALL = object()


_dq = z3.Const("d!q", Den)
UNIT_LAW = z3.ForAll([_dq], And(join(ONE, _dq) == _dq, join(_dq, ONE) == _dq))  # definition of ONE (empty product)


def new_tn(cx, name="tn"):
    if not cx.ghost.get("unit_law"):
        cx.ghost["unit_law"] = True
        cx.assume(UNIT_LAW)
    r = cx.new_obj("TN", exponent=cx.Real(f"{name}_exponent"), lg=cx.Real(f"{name}_lg"),
                   dir=z3.Const(cx._name(f"{name}_dir"), Den), num_tensors=cx.Int(f"{name}_n"), structured=False)
    cx.assume(cx.fields(r)["num_tensors"] >= 0)
    cx.assume(Implies(cx.fields(r)["num_tensors"] == 0, And(cx.fields(r)["dir"] == ONE, cx.fields(r)["lg"] == 0)))
    return r


def den_of(cx, x, pre=False):
    """(log10 prefactor, direction) of a result object"""
    if isinstance(x, Ref) and x.kind == "TN":
        f = cx.pre(x) if pre else cx.fields(x)
        return f["exponent"] + f["lg"], f["dir"]
    if isinstance(x, TVal):
        return x.e, x.d
    if isinstance(x, tuple) and len(x) == 2 and isinstance(x[0], (TVal, Ref)) and (is_z3(x[1]) or is_num(x[1])):
        e, d = den_of(cx, x[0])
        return e + R(x[1]), d
    return None


def same_den(a, b):
    return And(a[0] == b[0], a[1] == b[1])


class DenContract(Contract):
    property_ids = ("C01", "C04")
    safety = False

    # ---------------------------------------------------------------- generic modelling of the tensor API
    def attr(self, cx, base, attr, node):
        if base is None and attr == "all":
            return BUILTIN_ALL
        if base is None and attr in ("Tensor", "TensorNetwork"):
            return attr
        if isinstance(base, Ref) and base.kind == "TN":
            f = cx.fields(base)
            if attr == "tensor_map":
                return NS(_tensor_map_of=base)
            if attr == "_CONTRACT_STRUCTURED":
                return f["structured"]
        if isinstance(base, TVal):
            if attr == "ndim":
                nd = cx.Int("ndim")
                cx.assume(nd >= 0)
                return nd
            if attr == "inds":
                return cx.Opaque("inds")
            if attr == "data":
                return TVal(base.e, base.d, False, "data")
        return NotImplemented

    def call(self, cx, name, args, kwargs, node):
        if name == "__isinstance__":
            v, cname = args
            if cname == "Tensor":
                return v.is_tensor if isinstance(v, TVal) else False
            if cname == "TensorNetwork":
                return isinstance(v, Ref) and v.kind == "TN"
            if cname == "float":
                return True  # exponents are reals in this domain
            if cname == "slice":
                return False
            raise Unsupported(f"isinstance(..., {cname})")
        if name == ".values" and isinstance(args[0], NS) and "_tensor_map_of" in args[0]:
            f = cx.fields(args[0]._tensor_map_of)
            return Bag(f["lg"], f["dir"], f["num_tensors"] >= 1, f["num_tensors"])
        if name == ".norm" and isinstance(args[0], TVal):
            t = args[0]
            return PosScalar(t.e + lnrm(t.d))
        if name == "do":
            fn = args[0]
            if fn == "abs" and isinstance(args[1], TVal):
                return PosScalar(args[1].e + lnrm(args[1].d))
            if fn == "log10" and isinstance(args[1], PosScalar):
                return args[1].l
            raise Unsupported(f"do({fn!r}, ...)")
        if name == "__pow__":
            a, b = args
            if a == 10 or a == 10.0:
                return PosScalar(R(b))
            return NotImplemented
        if name == "__binop__":
            op, a, b = args
            if isinstance(a, TVal) and isinstance(b, PosScalar):
                if op == "Mult":
                    return TVal(a.e + b.l, a.d, a.is_tensor)
                if op == "Div":
                    return TVal(a.e - b.l, a.d, a.is_tensor)
            if isinstance(a, PosScalar) and isinstance(b, TVal) and op == "Mult":
                return TVal(b.e + a.l, b.d, b.is_tensor)
            if isinstance(a, PosScalar) and is_num(b) and op == "Pow":
                return PosScalar(a.l * R(b))
            return NotImplemented
        if name == "maybe_realify_scalar":
            t = args[0]
            return TVal(t.e, t.d, False, "scalar")
        if name == "Tensor":
            t = kwargs.get("data", args[0] if args else None)
            return TVal(t.e, t.d, True, "Tensor(...)")
        if name == ".transpose_" and isinstance(args[0], TVal):
            return args[0]
        if name == ".add_tensor" and isinstance(args[0], Ref):
            tn, t = args[0], args[1]
            f = cx.fields(tn)
            if not isinstance(t, TVal):
                raise Unsupported("add_tensor of a non-tensor")
            cx.oblige(f"call-pre@{node.lineno}:add_tensor:is-a-Tensor", "call-pre", t.is_tensor, node.lineno)
            f["lg"] = f["lg"] + t.e
            f["dir"] = join(f["dir"], t.d)
            f["num_tensors"] = f["num_tensors"] + 1
            return None
        if name in (".equalize_norms_",) and isinstance(args[0], Ref):
            # leaf (proved separately in C04's list): representation change only; moves prefactors between the
            # tensors and the stored exponent, the denoted value is unchanged
            tn = args[0]
            f = cx.fields(tn)
            tot = f["exponent"] + f["lg"]
            ne = cx.Real("eq_exponent")
            f["exponent"], f["lg"] = ne, tot - ne
            if args[1:] and not (isinstance(args[1], float) and args[1] == 1.0):
                raise Unsupported("equalize_norms_ with a value other than 1.0")
            if not args[1:]:
                cx.assume(ne == 0)  # equalize_norms_() redistributes the collected exponent
            return tn
        if name.startswith(".") and isinstance(args[0], Ref) and args[0].kind == "TN":
            m = name[1:]
            tgt = METHODS.get(m) or (METHODS.get(m[:-1]) if m.endswith("_") else None)
            if tgt:
                kw = dict(kwargs, inplace=True) if (m.endswith("_") and m not in METHODS) else kwargs
                return cx.call_contract(REGISTRY[tgt], args[1:], kw, node, recv=args[0])
        if name == ".partition_tensors" and isinstance(args[0], Ref):
            return self.leaf_partition(cx, args[0], kwargs.get("inplace", False), node)
        if name == "tags_to_oset" or name == "oset":
            return cx.Opaque("tags")
        if name == "zip" or name == "concat" or name == "_gen_output_inds" or name == "oset_union":
            return cx.Opaque(name)
        if name == "__genexp__":
            return cx.Opaque("genexp")
        if name == "__binop__":
            return NotImplemented
        return NotImplemented

    def leaf_partition(self, cx, tn, inplace, node):
        """partition_tensors(tags, which, inplace) -> (rest network, matched tensors)  [leaf, C02]:
        the rest keeps the stored exponent; joint value of (rest, matched) is the value of the original"""
        f = cx.fields(tn)
        lgR, lgB = cx.Real("lg_rest"), cx.Real("lg_matched")
        dR, dB = z3.Const(cx._name("d_rest"), Den), z3.Const(cx._name("d_matched"), Den)
        nB = cx.Int("n_matched")
        cx.assume(And(0 <= nB, nB <= f["num_tensors"], f["lg"] == lgR + lgB, f["dir"] == join(dR, dB),
                      Implies(nB == f["num_tensors"], And(dR == ONE, lgR == 0)),
                      Implies(nB == 0, And(dB == ONE, lgB == 0))))
        if inplace is True:
            rest = tn
            f["lg"], f["dir"], f["num_tensors"] = lgR, dR, f["num_tensors"] - nB
        else:
            rest = cx.new_obj("TN", exponent=f["exponent"], lg=lgR, dir=dR, num_tensors=f["num_tensors"] - nB,
                              structured=f["structured"])
        return (rest, Bag(lgB, dB, nB >= 1, nB))


METHODS = {}


def unit_axioms(*ds):
    return [join(ONE, d) == d for d in ds] + [join(d, ONE) == d for d in ds]


# -----------------------------------------------------------------------------------------------------------
@register
class TensorContract(DenContract):
    """tensor_contract(*ts, output_inds, strip_exponent, exponent, preserve_tensor):
       value = 10^(exponent or 0) * join(ts);  with strip_exponent the pair (mantissa, e) denotes the same value"""

    target = f"{F}::tensor_contract"
    floor = 8

    def cases(self):
        return [NS(name=f"strip={s},exponent={e},preserve={p},out={o}", strip=s, ek=e, preserve=p, out=o)
                for s in (True, False) for e in ("None", "real") for p in (True, False) for o in ("None", "given")]

    def inputs(self, cx, case):
        bag = Bag(cx.Real("lg_ts"), z3.Const("d_ts", Den), True)
        return dict(tensors=(StarArg(bag),), output_inds=None if case.out == "None" else Inds(cx.Bool("out_nonempty")),
                    optimize=None, get=None, backend=None, preserve_tensor=case.preserve, drop_tags=False,
                    strip_exponent=case.strip, exponent=None if case.ek == "None" else cx.Real("exponent"),
                    contract_opts={})

    def requires(self, a, case):
        return {"get-none": a.get is None}

    def case_of_call(self, cx, a):
        se = a.strip_exponent
        if not isinstance(se, bool):
            raise Unsupported("tensor_contract called with non-boolean strip_exponent")
        return NS(name="call", strip=se, ek="None" if a.exponent is None else "real", preserve=a.preserve_tensor,
                  out="None" if a.output_inds is None else "given")

    def bag_of(self, a):
        ts = a.tensors
        if len(ts) == 1 and isinstance(ts[0], StarArg) and isinstance(ts[0].value, Bag):
            return ts[0].value
        raise Unsupported("tensor_contract on an explicit tensor list")

    def call(self, cx, name, args, kwargs, node):
        if name == "__unpack__" and isinstance(args[0], Opaque) and args[1] == 3:
            return [cx.Opaque("inds"), cx.Opaque("shapes"), cx.Opaque("arrays")]
        if name == "tuple":
            v = args[0] if args else None
            if isinstance(v, Inds):
                return v
            if isinstance(v, Opaque):
                return Inds(cx.Bool("inferred_out_nonempty"))
        if name == "array_contract":
            # leaf [A: cotengra]: contracts the arrays; with strip_exponent returns (mantissa, e) with the same value
            bag = cx.ghost["bag"]
            if kwargs.get("strip_exponent") is True:
                em, er = cx.Real("e_mantissa"), cx.Real("e_stripped")
                cx.assume(em + er == bag.lg)
                return (TVal(em, bag.d, False, "mantissa array"), er)
            if kwargs.get("strip_exponent") is False:
                return TVal(bag.lg, bag.d, False, "array")
            raise Unsupported("array_contract with symbolic strip_exponent")
        return super().call(cx, name, args, kwargs, node)

    def inputs_post(self, cx, a):
        cx.ghost["bag"] = self.bag_of(a)

    def apply(self, cx, a, node, case=None):
        bag = self.bag_of(a)
        cx.oblige(f"call-pre@{node.lineno}:tensor_contract:at-least-one-tensor", "call-pre", bag.nonempty, node.lineno)
        return super().apply(cx, a, node, case)

    def fresh_result(self, cx, a, case):
        bag = self.bag_of(a)
        is_t = Or(a.preserve_tensor, cx.Bool("res_is_tensor"))
        if case.strip:
            return (TVal(cx.Real("res_e"), bag.d, is_t), cx.Real("res_exponent"))
        return TVal(cx.Real("res_e"), bag.d, is_t)

    def ensures(self, a, r, cx, case):
        bag = self.bag_of(a)
        ex = 0 if a.exponent is None else a.exponent
        dv = den_of(cx, r)
        d = {"result-kind": dv is not None and (isinstance(r, tuple) == bool(case.strip))}
        if dv is None:
            return d
        d["value"] = same_den(dv, (bag.lg + ex, bag.d))
        t = r[0] if isinstance(r, tuple) else r
        d["tensor-preserved"] = Implies(Z(a.preserve_tensor), Z(t.is_tensor))
        return d


_orig_inputs = TensorContract.inputs


def _tc_inputs(self, cx, case):
    d = _orig_inputs(self, cx, case)
    cx.ghost["bag"] = d["tensors"][0].value
    return d


TensorContract.inputs = _tc_inputs


@register
class MaybeUnwrap(DenContract):
    target = f"{F}::maybe_unwrap"
    floor = 8

    def cases(self):
        out = []
        for tk in ("TN", "Tensor"):
            for ptn in (True, False):
                for pt in (True, False):
                    for strip in (True, False):
                        for eq in (True, False):
                            for oi in ("None", "given"):
                                out.append(NS(name=f"t={tk},ptn={ptn},pt={pt},strip={strip},eq={eq},out={oi}",
                                              tk=tk, ptn=ptn, pt=pt, strip=strip, eq=eq, oi=oi))
        return out

    def case_of_call(self, cx, a):
        return NS(name="call", tk="TN" if isinstance(a.t, Ref) else "Tensor", ptn=a.preserve_tensor_network,
                  pt=a.preserve_tensor, strip=a.strip_exponent, eq=a.equalize_norms,
                  oi="None" if a.output_inds is None else "given")

    def inputs(self, cx, case):
        if case.tk == "TN":
            t = new_tn(cx, "t")
        else:
            t = TVal(cx.Real("t_e"), z3.Const("t_d", Den), True)
        return dict(t=t, preserve_tensor_network=case.ptn, preserve_tensor=case.pt, strip_exponent=case.strip,
                    equalize_norms=case.eq, output_inds=None if case.oi == "None" else cx.Opaque("output_inds"))

    def call(self, cx, name, args, kwargs, node):
        if name == "__unpack__" and isinstance(args[0], Bag):
            # (t,) = t.tensor_map.values(): exactly one tensor
            bag = args[0]
            cx.oblige(f"unpack@{node.lineno}:exactly-one-tensor", "safety", bag.count == args[1], node.lineno)
            return [TVal(bag.lg, bag.d, True, "the single tensor")]
        if name == "__binop__" and args[0] in ("Eq", "NotEq"):
            return NotImplemented
        return super().call(cx, name, args, kwargs, node)

    def attr(self, cx, base, attr, node):
        r = super().attr(cx, base, attr, node)
        return r

    def modifies(self, a, case):
        return [(a.t, ["exponent", "lg"])] if isinstance(a.t, Ref) else []

    def fresh_result(self, cx, a, case):
        if isinstance(a.t, Ref) and (a.preserve_tensor_network):
            return a.t
        if isinstance(a.t, Ref):
            # network returned as is when it does not hold exactly one tensor -- decided by the caller's state
            raise Unsupported("maybe_unwrap as callee on a network without preserve_tensor_network")
        d = a.t.d
        is_t = True if a.preserve_tensor else cx.Bool("unwrapped_is_tensor")
        if a.strip_exponent:
            return (TVal(cx.Real("mu_e"), d, is_t), cx.Real("mu_exponent"))
        return TVal(cx.Real("mu_e"), d, is_t)

    def ensures(self, a, r, cx, case):
        old = den_of(cx, a.t, pre=True) if isinstance(a.t, Ref) else (a.t.e, a.t.d)
        dv = den_of(cx, r)
        d = {"result-kind": dv is not None}
        if dv is None:
            return d
        d["value"] = same_den(dv, old)
        if isinstance(r, tuple) and not case.strip:
            d["no-pair-unless-stripping"] = False
        if case.strip and not isinstance(r, tuple) and not isinstance(r, Ref):
            d["pair-when-stripping"] = False
        return d


def _cmp_inds(self, cx, name, args, kwargs, node):
    return NotImplemented


@register
class ContractTags(DenContract):
    target = f"{TN}.contract_tags"
    floor = 20

    def cases(self):
        return [NS(name=f"strip={s},eq={e},inplace={i},preserve={p}", strip=s, eq=e, inplace=i, preserve=p)
                for s in (True, False) for e in ("auto", True, False) for i in (True, False) for p in (True, False)]

    def case_of_call(self, cx, a):
        return NS(name="call", strip=a.strip_exponent, eq=a.equalize_norms, inplace=a.inplace, preserve=a.preserve_tensor)

    def inputs(self, cx, case):
        return dict(self=new_tn(cx, "self"), tags=cx.Opaque("tags"), which="any", output_inds=None, optimize=None,
                    get=None, backend=None, strip_exponent=case.strip, equalize_norms=case.eq,
                    preserve_tensor=case.preserve, inplace=case.inplace, contract_opts={})

    raises = {"ValueError": True}  # nothing matched the tags: a rejection

    def requires(self, a, case):
        return {"get-none": a.get is None}

    def modifies(self, a, case):
        return [(a.self, ["exponent", "lg", "dir", "num_tensors"])] if a.inplace else []

    def fresh_result(self, cx, a, case):
        if a.inplace:
            return a.self
        # not in place: a network (partial), a tensor / scalar, or a pair -- the caller cannot know which
        raise Unsupported("contract_tags as a callee is only modelled for inplace=True")

    def ensures(self, a, r, cx, case):
        old = den_of(cx, a.self, pre=True)
        dv = den_of(cx, r)
        d = {"result-kind": dv is not None}
        if dv is None:
            return d
        f = cx.pre(a.self)
        d["value"] = same_den(dv, old)
        if case.inplace:
            d["returns-receiver"] = isinstance(r, Ref) and r == a.self
        else:
            g = cx.fields(a.self)
            d["receiver-unchanged"] = And(g["exponent"] == f["exponent"], g["lg"] == f["lg"], g["dir"] == f["dir"],
                                          g["num_tensors"] == f["num_tensors"])
        if isinstance(r, tuple) and not case.strip:
            d["no-pair-unless-stripping"] = False
        return d

    def call(self, cx, name, args, kwargs, node):
        r = super().call(cx, name, args, kwargs, node)
        return r


METHODS.update({"contract_tags": f"{TN}.contract_tags"})


@register
class Contract_(DenContract):
    """TensorNetwork.contract: dispatch; every branch returns the value of the network"""

    target = f"{TN}.contract"
    floor = 10

    def cases(self):
        return [NS(name=f"tags={t},strip={s},inplace={i},preserve={p}", tags=t, strip=s, inplace=i, preserve=p)
                for t in ("all", "...", "some") for s in (True, False) for i in (True, False) for p in (True, False)]

    def inputs(self, cx, case):
        tags = {"all": BUILTIN_ALL, "...": Ellipsis, "some": cx.Opaque("tags")}[case.tags]
        tn = new_tn(cx, "self")
        cx.assume(cx.fields(tn)["num_tensors"] >= 1)  # domain: non-empty network
        return dict(self=tn, tags=tags, output_inds=None, optimize=None, get=None, max_bond=None,
                    strip_exponent=case.strip, preserve_tensor=case.preserve, backend=None, inplace=case.inplace,
                    kwargs={})

    raises = {"ValueError": True}

    def requires(self, a, case):
        return {"exact-contraction (max_bond None)": a.max_bond is None}

    def call(self, cx, name, args, kwargs, node):
        if name == ".contract_tags" and isinstance(args[0], Ref) and not kwargs.get("inplace", False):
            # non in-place tag contraction: use the proved post-condition of contract_tags directly
            tn = args[0]
            f = cx.fields(tn)
            strip = kwargs.get("strip_exponent", False)
            d = z3.Const(cx._name("ct_dir"), Den)
            e = cx.Real("ct_e")
            cx.assume(And(e == f["exponent"] + f["lg"], d == f["dir"]))
            t = TVal(e, d, cx.Bool("ct_is_tensor"))
            cx.ghost["via_contract_tags"] = True
            if strip:
                ex = cx.Real("ct_exponent")
                return (TVal(e - ex, d, t.is_tensor), ex)
            return t
        return super().call(cx, name, args, kwargs, node)

    def ensures(self, a, r, cx, case):
        old = den_of(cx, a.self, pre=True)
        dv = den_of(cx, r)
        d = {"result-kind": dv is not None}
        if dv is None:
            return d
        f = cx.pre(a.self)
        d["value"] = same_den(dv, old)
        if not case.inplace:
            g = cx.fields(a.self)
            d["receiver-unchanged"] = And(g["exponent"] == f["exponent"], g["lg"] == f["lg"], g["dir"] == f["dir"])
        return d


@register
class ContractCumulative(DenContract):
    target = f"{TN}.contract_cumulative"
    floor = 10

    def cases(self):
        return [NS(name=f"strip={s},eq={e},inplace={i},preserve={p}", strip=s, eq=e, inplace=i, preserve=p)
                for s in (True, False) for e in ("auto", True, False) for i in (True, False) for p in (True, False)]

    def inputs(self, cx, case):
        return dict(self=new_tn(cx, "self"), tags_seq=cx.Opaque("tags_seq"), output_inds=None,
                    strip_exponent=case.strip, equalize_norms=case.eq, preserve_tensor=case.preserve,
                    inplace=case.inplace, contract_opts={})

    raises = {"ValueError": True}

    def call(self, cx, name, args, kwargs, node):
        if name == "__iter__" and isinstance(args[0], Opaque):
            return (cx.Int("len_tags_seq"), lambda t: cx.Opaque("tags_i"))
        if name == ".copy" and isinstance(args[0], Ref):
            f = cx.fields(args[0])
            return cx.new_obj("TN", **dict(f))
        if name == "__binop__" and args[0] == "BitOr":
            return cx.Opaque("c_tags")
        if name == "maybe_unwrap":
            t = args[0]
            if isinstance(t, Ref):
                f = cx.fields(t)
                ptn = kwargs.get("preserve_tensor_network")
                strip = kwargs.get("strip_exponent")
                eq = kwargs.get("equalize_norms")
                # proved contract of maybe_unwrap: same value; result kind depends on the number of tensors
                if eq is True:
                    tot = f["exponent"] + f["lg"]
                    ne = cx.Real("mu_eq_exponent")
                    f["exponent"], f["lg"] = ne, tot - ne
                if ptn is True:
                    return t
                d, e = f["dir"], f["exponent"] + f["lg"]
                if cx.decide(f["num_tensors"] != 1, node.lineno):
                    return t
                is_t = True if kwargs.get("preserve_tensor") else cx.Bool("mu_is_tensor")
                if strip:
                    ex = cx.Real("mu_exponent")
                    return (TVal(e - ex, d, is_t), ex)
                return TVal(e, d, is_t)
        return super().call(cx, name, args, kwargs, node)

    def inv(self, v):
        cx = v.cx
        f = cx.fields(v.tn)
        o = cx.pre(v.old.self)
        return {"value-preserved": And(f["exponent"] + f["lg"] == o["exponent"] + o["lg"], f["dir"] == o["dir"]),
                "copy-iff-not-inplace": (v.tn == v.old.self) == bool(v.old.inplace),
                "receiver-unchanged": True if v.old.inplace else And(
                    cx.fields(v.old.self)["exponent"] == o["exponent"], cx.fields(v.old.self)["lg"] == o["lg"],
                    cx.fields(v.old.self)["dir"] == o["dir"]),
                "eq-kind": isinstance(v.equalize_norms, bool)}

    ghost_fields = ("exponent", "lg", "dir", "num_tensors")

    @property
    def loops(self):
        return {0: Loop("for tags in tags_seq", self.inv)}

    def ensures(self, a, r, cx, case):
        old = den_of(cx, a.self, pre=True)
        dv = den_of(cx, r)
        d = {"result-kind": dv is not None}
        if dv is None:
            return d
        d["value"] = same_den(dv, old)
        if not case.inplace:
            f, g = cx.pre(a.self), cx.fields(a.self)
            d["receiver-unchanged"] = And(g["exponent"] == f["exponent"], g["lg"] == f["lg"], g["dir"] == f["dir"])
        return d


# ----------------------------------------------------------------------------------------------------------
# tensors held by a network (heap objects), exponent moving operations (C04) and the remaining readers (C01)
# ----------------------------------------------------------------------------------------------------------


def new_tensor_in(cx, tn, name="t"):
    """a tensor object held by network tn: 10^e * d; the network's ghost lg/dir already include it"""
    return cx.new_obj("T", e=cx.Real(f"{name}_e"), d=z3.Const(cx._name(f"{name}_d"), Den), owner=tn)


class HeldTensorMixin:
    """modelling of operations on a Tensor object that sits inside a network"""

    def call(self, cx, name, args, kwargs, node):
        if name == ".norm" and isinstance(args[0], Ref) and args[0].kind == "T":
            f = cx.fields(args[0])
            return PosScalar(f["e"] + lnrm(f["d"]))
        if name == ".modify" and isinstance(args[0], Ref) and args[0].kind == "T" and "apply" in kwargs:
            t = args[0]
            f = cx.fields(t)
            new = cx.apply_lambda(kwargs["apply"], [TVal(f["e"], f["d"], False, "data")])
            if not isinstance(new, TVal):
                raise Unsupported("modify(apply=...) with a non-scaling function")
            cx.oblige(f"modify@{node.lineno}:rescaling-only", "frame", new.d == f["d"], node.lineno)
            if f["owner"] is not None:
                o = cx.fields(f["owner"])
                o["lg"] = o["lg"] + (new.e - f["e"])
            f["e"] = new.e
            return None
        if name == "__binop__":
            op, a, b = args
            if isinstance(a, PosScalar) and op == "Div" and (is_num(b)):
                # norm / value with a positive target value
                if not is_z3(b):
                    import math
                    lv = z3.RealVal(0) if float(b) == 1.0 else z3.RealVal(str(math.log10(float(b))))
                else:
                    lv = cx.uf("log10", [R(b)], z3.RealSort())
                return PosScalar(a.l - lv)
            if isinstance(a, TVal) and isinstance(b, PosScalar) and op == "Div":
                return TVal(a.e - b.l, a.d, a.is_tensor)
        return super().call(cx, name, args, kwargs, node)


@register
class StripExponent(HeldTensorMixin, DenContract):
    """strip_exponent(t): the tensor is divided by norm/value and log10 of that factor goes to tn.exponent:
    the denoted value of the network is unchanged"""

    target = f"{TN}.strip_exponent"
    floor = 4

    def cases(self):
        return [NS(name=f"value={v},by={b}", vk=v, by=b) for v in ("None", "True", "real") for b in ("tensor", "tid")]

    def inputs(self, cx, case):
        tn = new_tn(cx, "self")
        t = new_tensor_in(cx, tn)
        cx.ghost["t"] = t
        value = {"None": None, "True": True, "real": cx.Real("value")}[case.vk]
        if case.vk == "real":
            cx.assume(value > 0)
        return dict(self=tn, tid_or_tensor=t if case.by == "tensor" else cx.Opaque("tid"), value=value, check_zero=False)

    def call(self, cx, name, args, kwargs, node):
        if name == "__isinstance__" and args[1] == "Tensor":
            return isinstance(args[0], Ref) and args[0].kind == "T"
        if name == "__getitem__" and isinstance(args[0], NS) and "_tensor_map_of" in args[0]:
            return cx.ghost["t"]
        if name == "do" and args[0] == "log10" and isinstance(args[1], PosScalar):
            return args[1].l
        return super().call(cx, name, args, kwargs, node)

    def modifies(self, a, case):
        return [(a.self, ["exponent", "lg"])]

    def fresh_result(self, cx, a, case):
        return None

    def ensures(self, a, r, cx, case):
        f, p = cx.fields(a.self), cx.pre(a.self)
        d = {"value-preserved": And(f["exponent"] + f["lg"] == p["exponent"] + p["lg"], f["dir"] == p["dir"]),
             "tensor-count": f["num_tensors"] == p["num_tensors"]}
        t = cx.ghost.get("t")
        if t is not None:
            tf = cx.fields(t)
            target = 0 if a.value is None or a.value is True else cx.uf("log10", [R(a.value)], z3.RealSort())
            d["tensor-norm-is-value"] = tf["e"] + lnrm(tf["d"]) == target
        return d


@register
class MultiplyEach(DenContract):
    """leaf for this domain (its loop is label plumbing over the tensor list): every one of the n tensors is
    multiplied by x.  Only positive real x is modelled: lg' = lg + n*log10(x)  [assumed; checked by E3]"""

    target = f"{TN}.multiply_each"
    floor = 0

    def inputs(self, cx, case):
        raise Unsupported("multiply_each is used as an assumed callee contract only")

    def modifies(self, a, case):
        return [(a.self, ["lg"])] if a.inplace else []

    def fresh_result(self, cx, a, case):
        if not a.inplace:
            raise Unsupported("multiply_each not in place")
        return a.self

    def requires(self, a, case):
        return {"positive-scalar": isinstance(a.x, PosScalar)}

    def ensures(self, a, r, cx, case):
        f, p = cx.fields(a.self), cx.pre(a.self)
        return {"lg": f["lg"] == p["lg"] + R(p["num_tensors"]) * a.x.l}


METHODS.update({"multiply_each": f"{TN}.multiply_each", "strip_exponent": f"{TN}.strip_exponent"})


@register
class DistributeExponent(DenContract):
    target = f"{TN}.distribute_exponent"
    floor = 3

    def inputs(self, cx, case):
        tn = new_tn(cx, "self")
        cx.assume(cx.fields(tn)["num_tensors"] >= 1)
        return dict(self=tn, new_exponent=cx.Real("new_exponent"))

    def apply(self, cx, a, node, case=None):
        cx.oblige(f"call-pre@{node.lineno}:distribute_exponent:at-least-one-tensor", "call-pre",
                  cx.fields(a.self)["num_tensors"] >= 1, node.lineno)
        return super().apply(cx, a, node, case)

    safety = True

    def call(self, cx, name, args, kwargs, node):
        if name == "__binop__" and args[0] == "Pow":
            return NotImplemented
        return super().call(cx, name, args, kwargs, node)

    def modifies(self, a, case):
        return [(a.self, ["exponent", "lg"])]

    def fresh_result(self, cx, a, case):
        return None

    def ensures(self, a, r, cx, case):
        f, p = cx.fields(a.self), cx.pre(a.self)
        return {"value-preserved": And(f["exponent"] + f["lg"] == p["exponent"] + p["lg"], f["dir"] == p["dir"]),
                "exponent-is-new": f["exponent"] == R(a.new_exponent)}


METHODS.update({"distribute_exponent": f"{TN}.distribute_exponent"})


@register
class EqualizeNorms(DenContract):
    target = f"{TN}.equalize_norms"
    floor = 6
    ghost_fields = ("exponent", "lg", "dir", "num_tensors")

    def cases(self):
        return [NS(name=f"value={v},inplace={i}", vk=v, inplace=i) for v in ("None", "real") for i in (True, False)]

    def inputs(self, cx, case):
        tn = new_tn(cx, "self")
        value = None if case.vk == "None" else cx.Real("value")
        if value is not None:
            cx.assume(value > 0)
        # domain: a network with at least one tensor (equalize_norms() of an empty network divides by zero)
        cx.assume(cx.fields(tn)["num_tensors"] >= 1)
        return dict(self=tn, value=value, check_zero=False, inplace=case.inplace)

    def call(self, cx, name, args, kwargs, node):
        if name == ".copy" and isinstance(args[0], Ref):
            return cx.new_obj("TN", **dict(cx.fields(args[0])))
        if name == "__iter__" and isinstance(args[0], NS) and "_tensor_map_of" in args[0]:
            f = cx.fields(args[0]._tensor_map_of)
            return (f["num_tensors"], lambda t: cx.Opaque("tid"))
        if name == ".strip_exponent" and isinstance(args[0], Ref):
            # proved contract of strip_exponent (by tid): value preserved, count unchanged
            tn = args[0]
            f = cx.fields(tn)
            tot = f["exponent"] + f["lg"]
            ne = cx.Real("se_exponent")
            f["exponent"], f["lg"] = ne, tot - ne
            return None
        return super().call(cx, name, args, kwargs, node)

    def inv(self, v):
        cx = v.cx
        f, o = cx.fields(v.tn), cx.pre(v.old.self)
        d = {"value-preserved": And(f["exponent"] + f["lg"] == o["exponent"] + o["lg"], f["dir"] == o["dir"]),
             "count": f["num_tensors"] == o["num_tensors"],
             "copy-iff-not-inplace": (v.tn == v.old.self) == bool(v.old.inplace)}
        if not v.old.inplace:
            g = cx.fields(v.old.self)
            d["receiver-unchanged"] = And(g["exponent"] == o["exponent"], g["lg"] == o["lg"], g["dir"] == o["dir"])
        return d

    @property
    def loops(self):
        return {0: Loop("for tid in tn.tensor_map", self.inv)}

    def ensures(self, a, r, cx, case):
        if not isinstance(r, Ref):
            return {"returns-network": False}
        f, o = cx.fields(r), cx.pre(a.self)
        d = {"value-preserved": And(f["exponent"] + f["lg"] == o["exponent"] + o["lg"], f["dir"] == o["dir"]),
             "returns-receiver-iff-inplace": (r == a.self) == bool(case.inplace)}
        if a.value is None:
            d["exponent-redistributed"] = Implies(f["num_tensors"] >= 1, f["exponent"] == 0)
        if not case.inplace:
            g = cx.fields(a.self)
            d["receiver-unchanged"] = And(g["exponent"] == o["exponent"], g["lg"] == o["lg"], g["dir"] == o["dir"])
        return d


@register
class Item(DenContract):
    target = f"{TN}.item"
    floor = 2

    def inputs(self, cx, case):
        return dict(self=new_tn(cx, "self"))

    def call(self, cx, name, args, kwargs, node):
        if name == "__unpack__" and isinstance(args[0], Bag):
            bag = args[0]
            cx.oblige(f"unpack@{node.lineno}:exactly-one-tensor", "safety", bag.count == args[1], node.lineno)
            return [TVal(bag.lg, bag.d, True, "the single tensor")]
        if name == ".item" and isinstance(args[0], TVal):
            return TVal(args[0].e, args[0].d, False, "scalar")
        return super().call(cx, name, args, kwargs, node)

    def requires(self, a, case):
        return {}

    def ensures(self, a, r, cx, case):
        # item() is the entry of the lone tensor: the MANTISSA of the value.  The library's own use (and its test-suite:
        # ``tn.item() * 10**tn.exponent`` after contract_hotrg_(equalize_norms=1.0)) multiplies the stored exponent back in,
        # so the contract is value(network) == item() * 10**exponent  [an earlier version demanded the exponent inside
        # item(); that was more than the library promises -- see DESIGN 8.8]
        dv = den_of(cx, r)
        if dv is None:
            return {"result-kind": False}
        ex = cx.pre(a.self)["exponent"]
        return {"result-kind": True,
                "item()-times-ten-to-the-stored-exponent-is-the-value": same_den((dv[0] + ex, dv[1]), den_of(cx, a.self, pre=True))}

    def inputs(self, cx, case):  # noqa: F811
        tn = new_tn(cx, "self")
        cx.assume(cx.fields(tn)["num_tensors"] == 1)
        return dict(self=tn)


@register
class TNLinearOperatorInit(DenContract):
    """TNLinearOperator(tn, ...): the operator acts as the contraction of the tensors stored in self._tensors
    (assumed leaf for the action); the constructor must therefore store tensors whose joint value is the value of
    the network *including* its stored exponent"""

    target = f"{F}::TNLinearOperator.__init__"
    floor = 2

    def inputs(self, cx, case):
        tn = new_tn(cx, "tns")
        cx.assume(cx.fields(tn)["num_tensors"] >= 1)
        op = cx.new_obj("LinOp")
        return dict(self=op, tns=tn, left_inds=cx.Opaque("l"), right_inds=cx.Opaque("r"), ldims=cx.Opaque("ldims"),
                    rdims=cx.Opaque("rdims"), optimize=None, backend=None, is_conj=False)

    def attr(self, cx, base, attr, node):
        if isinstance(base, Ref) and base.kind == "TN" and attr == "tensors":
            f = cx.fields(base)
            return Bag(f["lg"], f["dir"], f["num_tensors"] >= 1, f["num_tensors"])
        if isinstance(base, Opaque):
            return cx.Opaque(attr)
        return super().attr(cx, base, attr, node)

    def call(self, cx, name, args, kwargs, node):
        if name == ".copy" and isinstance(args[0], Ref) and args[0].kind == "TN":
            return cx.new_obj("TN", **dict(cx.fields(args[0])))
        if name in ("get_tensor_linop_backend", "prod", "oset_union", "range", "len", "tuple", "map", "super",
                    ".__init__", "__getitem__", "dict", "concat"):
            return cx.Opaque(name.strip("._"))
        if name == "__setattr__":
            base, attr, val = args
            if isinstance(base, Ref):
                cx.fields(base)[attr] = val
                return None
        return super().call(cx, name, args, kwargs, node)

    def ensures(self, a, r, cx, case):
        ts = cx.fields(a.self).get("_tensors")
        p, f = cx.pre(a.tns), cx.fields(a.tns)
        d = {"stores-tensors": isinstance(ts, Bag)}
        if isinstance(ts, Bag):
            d["value"] = same_den((ts.lg, ts.d), (p["exponent"] + p["lg"], p["dir"]))
        d["argument-network-unchanged"] = And(f["exponent"] == p["exponent"], f["lg"] == p["lg"], f["dir"] == p["dir"])
        return d


@register
class AsLinearOperator(DenContract):
    target = f"{TN}.aslinearoperator"
    floor = 2

    def inputs(self, cx, case):
        tn = new_tn(cx, "self")
        cx.assume(cx.fields(tn)["num_tensors"] >= 1)
        return dict(self=tn, left_inds=cx.Opaque("l"), right_inds=cx.Opaque("r"), ldims=None, rdims=None, backend=None,
                    optimize=None)

    def call(self, cx, name, args, kwargs, node):
        if name == ".copy" and isinstance(args[0], Ref):
            return cx.new_obj("TN", **dict(cx.fields(args[0])))
        if name == "TNLinearOperator":
            # proved contract of the constructor: the operator denotes the value of the network it is given
            tn = args[0]
            cx.oblige(f"call-pre@{node.lineno}:TNLinearOperator:is-a-network", "call-pre",
                      isinstance(tn, Ref) and tn.kind == "TN", node.lineno)
            f = cx.fields(tn)
            return TVal(f["exponent"] + f["lg"], f["dir"], True, "linear operator")
        return super().call(cx, name, args, kwargs, node)

    def ensures(self, a, r, cx, case):
        dv = den_of(cx, r)
        f, p = cx.fields(a.self), cx.pre(a.self)
        return {"result-kind": dv is not None, "value": same_den(dv, den_of(cx, a.self, pre=True)) if dv else False,
                "receiver-unchanged": And(f["exponent"] == p["exponent"], f["lg"] == p["lg"], f["dir"] == p["dir"])}


@register
class Trace(DenContract):
    target = f"{TN}.trace"
    floor = 2

    def cases(self):
        return [NS(name=f"strip={s}", strip=s) for s in (True, False)]

    def inputs(self, cx, case):
        return dict(self=new_tn(cx, "self"), left_inds=cx.Opaque("l"), right_inds=cx.Opaque("r"),
                    contract_opts={"strip_exponent": True} if case.strip else {})

    raises = {"ValueError": True}

    def call(self, cx, name, args, kwargs, node):
        if name in ("dict", "zip"):
            return cx.Opaque(name)
        if name == ".reindex" and isinstance(args[0], Ref):
            # relabelling [leaf, C02/C03]: a copy whose value is the trace-joined network; in this domain the
            # value of `tn` is by definition what the trace denotes
            f = cx.fields(args[0])
            r = cx.new_obj("TN", **dict(f))
            cx.ghost["traced"] = r
            return r
        if name == ".contract_tags" and isinstance(args[0], Ref) and not kwargs.get("inplace", False):
            tn = args[0]
            f = cx.fields(tn)
            e, d = f["exponent"] + f["lg"], f["dir"]
            if kwargs.get("strip_exponent", False):
                ex = cx.Real("ct_exponent")
                return (TVal(e - ex, d, cx.Bool("ct_is_tensor")), ex)
            return TVal(e, d, cx.Bool("ct_is_tensor"))
        return super().call(cx, name, args, kwargs, node)

    def ensures(self, a, r, cx, case):
        dv = den_of(cx, r)
        return {"result-kind": dv is not None, "value": same_den(dv, den_of(cx, a.self, pre=True)) if dv else False}
