"""C11 -- TEBD: product-formula schedule, Hamiltonian term placement, sweep bond coverage / queue, time bookkeeping.

Carriers: quimb/tensor/tnag/tebd.py::trotter_schedule, LocalHamGen.__init__;  quimb/tensor/tn1d/tebd.py::
LocalHam1D.__init__, TEBD.sweep, TEBD.step, TEBD._compute_sweep_dt_tol, TEBD.update_to, TEBD.at_times.

Sequences of symbolic length are values ``Seq`` (concatenation of literal parts and (length, getter) parts); closed
forms are stated for an arbitrary (skolem) position.  Floats are reals; ``4 ** (1/3)`` is the rational value of the
double CPython computes.
"""

import ast
import fractions

import z3

from vf import lemmas
from vf.pyvc import (And, Arr, Contract, I, If, Implies, Loop, Max, Min, NS, Not, Or, PyRaise, R, Ref, Unsupported, V, Z,
                     is_int, is_num, is_z3, register, REGISTRY, SymIter)

FG = "quimb/tensor/tnag/tebd.py"
F1 = "quimb/tensor/tn1d/tebd.py"
Re = z3.RealSort()
HALF = fractions.Fraction(1, 2)


# ======================================================================================================
# symbolic sequences
# ======================================================================================================


def ite(c, a, b):
    """If on values (tuples elementwise)"""
    if isinstance(c, bool):
        return a if c else b
    if isinstance(a, tuple) and isinstance(b, tuple) and len(a) == len(b):
        return tuple(ite(c, x, y) for x, y in zip(a, b))
    return If(c, a, b)


def veq(a, b):
    """equality of two values (tuples elementwise) as a z3 / python bool"""
    if isinstance(a, tuple) or isinstance(b, tuple):
        if not (isinstance(a, tuple) and isinstance(b, tuple) and len(a) == len(b)):
            return False
        return And(*[veq(x, y) for x, y in zip(a, b)])
    if is_num(a) and is_num(b):
        if not is_z3(a) and not is_z3(b):
            return fractions.Fraction(a) == fractions.Fraction(b)
        x, y = Z(a), Z(b)
        if x.sort() != y.sort():
            x, y = R(x), R(y)
        return x == y
    return a is b


class Seq:
    """sequence of symbolic length: parts are ("lit", [items]) or ("sym", length, getter(position) -> item)"""

    def __init__(self, parts):
        self.parts = [p for p in parts if not (p[0] == "lit" and not p[1])]

    @staticmethod
    def of(v):
        if isinstance(v, Seq):
            return v
        if isinstance(v, (list, tuple)):
            return Seq([("lit", list(v))])
        if isinstance(v, SymIter):
            return Seq([("sym", v.length, v.getter)])
        raise Unsupported(f"not a sequence: {v!r}")

    def plen(self, p):
        return len(p[1]) if p[0] == "lit" else p[1]

    def length(self):
        r = 0
        for p in self.parts:
            r = r + self.plen(p)
        return r

    def at(self, pos):
        """item at absolute position pos (assumed 0 <= pos < length)"""
        off = 0
        cands = []
        for p in self.parts:
            n = self.plen(p)
            if p[0] == "lit":
                for j, x in enumerate(p[1]):
                    cands.append((Z(pos) == Z(off + j), x))
            else:
                cands.append((Z(pos) < Z(off + n), p[2](Z(pos) - Z(off))))
            off = off + n
        if not cands:
            raise Unsupported("item of an empty sequence")
        r = cands[-1][1]
        for c, x in reversed(cands[:-1]):
            r = ite(c, x, r)
        return r

    def reversed(self):
        out = []
        for p in reversed(self.parts):
            if p[0] == "lit":
                out.append(("lit", list(reversed(p[1]))))
            else:
                n, g = p[1], p[2]
                out.append(("sym", n, lambda t, n=n, g=g: g(Z(n) - 1 - t)))
        return Seq(out)

    def concrete(self):
        if all(p[0] == "lit" for p in self.parts):
            return [x for p in self.parts for x in p[1]]
        return None


def range_seq(marker):
    """("range", a[, b[, step]]) with symbolic bounds -> Seq; the step must be a concrete positive int"""
    ra = marker[1:]
    if len(ra) == 1:
        a, b, st = 0, ra[0], 1
    elif len(ra) == 2:
        a, b, st = ra[0], ra[1], 1
    else:
        a, b, st = ra
    if not (isinstance(st, int) and st > 0):
        raise Unsupported("symbolic range with a non-constant or non-positive step")
    diff = I(b) - I(a)
    n = Max(0, diff if st == 1 else (diff + (st - 1)) / st)  # z3 '/' on ints: floor for positive divisor
    return Seq([("sym", z3.simplify(Z(n)), lambda t, a=a, st=st: I(a) + t * st)])


class SeqMixin:
    """comprehensions / displays / reversed over symbolic ranges build Seq values"""

    def seq_hooks(self, cx, name, args, kwargs, node):
        if name == "reversed" and len(args) == 1:
            v = args[0]
            if isinstance(v, tuple) and len(v) > 1 and v[0] == "range" and any(is_z3(x) for x in v[1:]):
                return range_seq(v).reversed()
            if isinstance(v, Seq):
                return v.reversed()
            return NotImplemented
        if name == "__genexp__":
            return self.sym_comprehension(cx, args[0])
        if name == "__tuple__":
            parts = []
            for kind, v in args[0]:
                if kind == "item":
                    parts.append(("lit", [v]))
                else:
                    parts.extend(Seq.of(v).parts)
            s = Seq(parts)
            c = s.concrete()
            return s if c is None else (list(c) if isinstance(node, ast.List) else tuple(c))
        if name == "__iter__" and isinstance(args[0], Seq):
            s = args[0]
            return (s.length(), s.at)
        if name == "__len__" and isinstance(args[0], Seq):
            return args[0].length()
        return NotImplemented

    def sym_comprehension(self, cx, n):
        """[elt for t1 in <concrete> ... for tk in <symbolic>]: leading generators over concrete iterables are
        unrolled, the last one may be a symbolic range / Seq; no conditions"""
        gens = n.generators
        if any(g.ifs for g in gens):
            raise Unsupported("comprehension with a condition over a symbolic iteration space")
        parts = []
        env0 = dict(cx.env)

        def rec(k, env):
            g = gens[k]
            saved = cx.env
            cx.env = dict(env)
            try:
                it = cx.ev(g.iter)
            finally:
                cx.env = saved
            sym = None
            if isinstance(it, tuple) and len(it) > 1 and it[0] == "range" and any(is_z3(x) for x in it[1:]):
                sym = range_seq(it)
            elif isinstance(it, (Seq, SymIter)):
                sym = Seq.of(it)
            if sym is not None and sym.concrete() is None:
                if k != len(gens) - 1:
                    raise Unsupported("symbolic generator that is not the innermost one")
                for p in sym.parts:
                    if p[0] == "lit":
                        parts.append(("lit", [self.eval_elt(cx, n.elt, g.target, x, env) for x in p[1]]))
                    else:
                        parts.append(("sym", p[1], lambda t, p=p, env=env: self.eval_elt(cx, n.elt, g.target, p[2](t), env)))
                return
            items = sym.concrete() if sym is not None else cx.iter_concrete(it, n)
            for x in items:
                e2 = dict(env)
                saved = cx.env
                cx.env = e2
                try:
                    cx.assign(g.target, x)
                finally:
                    cx.env = saved
                if k == len(gens) - 1:
                    parts.append(("lit", [self.eval_elt(cx, n.elt, None, None, e2)]))
                else:
                    rec(k + 1, e2)

        rec(0, env0)
        return Seq(parts)

    @staticmethod
    def eval_elt(cx, elt, target, item, env):
        saved = cx.env
        cx.env = dict(env)
        try:
            if target is not None:
                cx.assign(target, item)
            return cx.ev(elt)
        finally:
            cx.env = saved


# ======================================================================================================
# trotter_schedule
# ======================================================================================================

P_ = z3.Int("p!pos")  # skolem position


def layer2(p, n):
    return Min(p, 2 * n - 2 - p)


def frac2(p, n):
    return If(p == n - 1, z3.RealVal(1), z3.RealVal("1/2"))


def spec_schedule(n, order):
    """closed form of the schedule (python list for concrete n, Seq otherwise)"""
    if isinstance(n, int):
        if order == 1:
            return [(k, 1) for k in range(n)]
        o2 = [] if n == 0 else [(min(p, 2 * n - 2 - p), 1 if p == n - 1 else HALF) for p in range(2 * n - 1)]
        if order == 2:
            return o2
        s = SUZUKI_S
        return [(k, fr * f) for f in (s, s, 1 - 4 * s, s, s) for k, fr in o2]
    if order == 1:
        return Seq([("sym", Max(0, n), lambda t: (t, z3.RealVal(1)))])
    length2 = If(n >= 1, 2 * n - 1, 0)
    if order == 2:
        return Seq([("sym", length2, lambda t: (layer2(t, n), frac2(t, n)))])
    s = SUZUKI_S
    return Seq([("sym", length2, lambda t, f=f: (layer2(t, n), frac2(t, n) * Z(f))) for f in (s, s, 1 - 4 * s, s, s)])


# the value CPython computes for 1 / (4 - 4 ** (1 / 3)), as an exact rational
SUZUKI_S = 1 / (4 - fractions.Fraction(4 ** (1 / 3)))


@register
class TrotterSchedule(SeqMixin, Contract):
    """closed form for ALL numbers of layers n:
       order 1: length n, position p carries (p, 1);
       order 2: length 2n-1 (0 if n = 0), position p carries (min(p, 2n-2-p), 1 if p = n-1 else 1/2);
       order 4: five order-2 blocks scaled by (s, s, 1-4s, s, s)   (symmetric multipliers)"""

    target = f"{FG}::trotter_schedule"
    property_ids = ("C11",)
    floor = 12
    raises = {}

    def cases(self):
        return [NS(name=f"order={o}", order=o) for o in (1, 2, 4, 3)]

    def inputs(self, cx, case):
        return dict(nlayers=cx.Int("n"), order=case.order)

    def requires(self, a, case):
        return {"n>=0": a.nlayers >= 0}

    def call(self, cx, name, args, kwargs, node):
        return self.seq_hooks(cx, name, args, kwargs, node)

    def ensures_raise(self, a, exc, cx, case):
        return {"raises-only-for-unsupported-order": exc == "ValueError" and a.order not in (1, 2, 4)}

    def ensures(self, a, r, cx, case):
        n = a.nlayers
        d = {"order-supported": a.order in (1, 2, 4)}
        try:
            s = Seq.of(r)
        except Unsupported:
            return {"returns-a-sequence": False}
        L = s.length()
        p = P_
        if a.order == 1:
            d["length==n"] = Z(L) == n
            if s.parts:
                d["position-p-carries-(p,1)"] = Implies(And(0 <= p, p < n), veq(s.at(p), (p, 1)))
        elif a.order == 2:
            d["length==2n-1"] = Z(L) == If(n >= 1, 2 * n - 1, 0)
            if s.parts:
                d["position-p-carries-(min(p,2n-2-p), 1-if-middle-else-1/2)"] = Implies(
                    And(n >= 1, 0 <= p, p < 2 * n - 1), veq(s.at(p), (layer2(p, n), frac2(p, n))))
        elif a.order == 4:
            len2 = If(n >= 1, 2 * n - 1, 0)
            d["length==5(2n-1)"] = Z(L) == 5 * len2
            if s.parts:
                # multiplier of block b = fraction of its middle entry (the order-2 middle fraction is 1)
                m = [s.at(b * (2 * n - 1) + n - 1)[1] for b in range(5)]
                sv = m[0]
                for b in range(5):
                    d[f"block{b}: position-q-carries-(layer2(q), frac2(q)*m{b})"] = Implies(
                        And(n >= 1, 0 <= p, p < 2 * n - 1),
                        veq(s.at(b * (2 * n - 1) + p), (layer2(p, n), frac2(p, n) * Z(R(m[b])))))
                d["multipliers-are-(s,s,1-4s,s,s)"] = Implies(n >= 1, And(veq(m[1], sv), veq(m[3], sv), veq(m[4], sv),
                                                                          veq(m[2], 1 - 4 * Z(R(sv)))))
                d["multipliers-sum-to-1"] = Implies(n >= 1, Z(R(m[0])) + R(m[1]) + R(m[2]) + R(m[3]) + R(m[4]) == 1)
                # s solves the order-4 condition 4 s^3 + (1-4s)^3 = 0 up to the rounding of the cube root (1e-15)
                c = 4 * Z(R(sv)) * R(sv) * R(sv) + (1 - 4 * R(sv)) * (1 - 4 * R(sv)) * (1 - 4 * R(sv))
                d["s-cancels-third-order-error(|4s^3+(1-4s)^3|<1e-15)"] = Implies(
                    n >= 1, And(c < z3.RealVal("1/1000000000000000"), c > -z3.RealVal("1/1000000000000000")))
        return d

    def apply(self, cx, a, node, case=None):
        cx.oblige(f"call-pre@{node.lineno}:trotter_schedule:n>=0", "call-pre", Z(a.nlayers) >= 0, node.lineno)
        if a.order not in (1, 2, 4):
            raise PyRaise("ValueError", node.lineno)
        return spec_schedule(a.nlayers, a.order)


# ---- consequences of the closed form (pure arithmetic)


@lemmas.lemma("C11", "schedule2-palindromic")
def lem_pal():
    n, p = z3.Ints("n p")
    q = 2 * n - 2 - p
    return [n >= 1, 0 <= p, p < 2 * n - 1], And(0 <= q, q < 2 * n - 1, layer2(p, n) == layer2(q, n),
                                                 frac2(p, n) == frac2(q, n))


@lemmas.lemma("C11", "schedule2-layer-k-sits-exactly-at-k-and-2n-2-k")
def lem_positions():
    n, p, k = z3.Ints("n p k")
    return [n >= 1, 0 <= p, p < 2 * n - 1, 0 <= k, k < n], (layer2(p, n) == k) == Or(p == k, p == 2 * n - 2 - k)


@lemmas.lemma("C11", "schedule2-fractions-of-a-layer-sum-to-1")
def lem_sum():
    n, k = z3.Ints("n k")
    a, b = k, 2 * n - 2 - k  # the two positions of layer k (they coincide exactly for the middle layer k = n-1)
    return [n >= 1, 0 <= k, k < n], If(a == b, frac2(a, n) == 1, frac2(a, n) + frac2(b, n) == 1)


@lemmas.lemma("C11", "schedule2-layers-in-range")
def lem_range():
    n, p = z3.Ints("n p")
    return [n >= 1, 0 <= p, p < 2 * n - 1], And(0 <= layer2(p, n), layer2(p, n) < n)


@lemmas.lemma("C11", "suzuki-multipliers-sum-to-1-for-all-s")
def lem_suzuki():
    s = z3.Real("s")
    return [], s + s + (1 - 4 * s) + s + s == 1


@lemmas.lemma("C11", "schedule4-palindromic")
def lem_pal4():
    # position (b, q) mirrors to (4-b, 2n-2-q); multipliers (s,s,1-4s,s,s) are symmetric under b -> 4-b
    n, q, b = z3.Ints("n q b")
    s = z3.Real("s")
    m = lambda bb: If(bb == 2, 1 - 4 * s, s)
    pos = lambda bb, qq: bb * (2 * n - 1) + qq
    tot = 5 * (2 * n - 1)
    return [n >= 1, 0 <= q, q < 2 * n - 1, 0 <= b, b < 5], And(
        pos(4 - b, 2 * n - 2 - q) == tot - 1 - pos(b, q), m(b) == m(4 - b), layer2(q, n) == layer2(2 * n - 2 - q, n),
        frac2(q, n) == frac2(2 * n - 2 - q, n))
