"""C11 -- TEBD: product-formula schedule, Hamiltonian term placement, sweep bond coverage / queue, time bookkeeping.

Carriers: quimb/tensor/tnag/tebd.py::trotter_schedule, LocalHamGen.__init__;  quimb/tensor/tn1d/tebd.py::
LocalHam1D.__init__, TEBD.sweep, TEBD.step, TEBD._compute_sweep_dt_tol, TEBD.update_to, TEBD.at_times.

Sequences of symbolic length are values ``Seq`` (concatenation of literal parts and (length, getter) parts); closed
forms are stated for an arbitrary (skolem) position.  Floats are reals; ``4 ** (1/3)`` is the rational value of the
double CPython computes.
"""

import ast
import fractions

import z3

from vf import lemmas
from vf.pyvc import (And, Arr, Contract, I, If, Implies, Loop, Max, Min, NS, Not, Or, PyRaise, R, Ref, Unsupported, V, Z,
                     is_int, is_num, is_z3, register, REGISTRY, SymIter)

FG = "quimb/tensor/tnag/tebd.py"
F1 = "quimb/tensor/tn1d/tebd.py"
Re = z3.RealSort()
HALF = fractions.Fraction(1, 2)


# ======================================================================================================
# symbolic sequences
# ======================================================================================================


def ite(c, a, b):
    """If on values (tuples elementwise)"""
    if isinstance(c, bool):
        return a if c else b
    if isinstance(a, tuple) and isinstance(b, tuple) and len(a) == len(b):
        return tuple(ite(c, x, y) for x, y in zip(a, b))
    return If(c, a, b)


def veq(a, b):
    """equality of two values (tuples elementwise) as a z3 / python bool"""
    if isinstance(a, tuple) or isinstance(b, tuple):
        if not (isinstance(a, tuple) and isinstance(b, tuple) and len(a) == len(b)):
            return False
        return And(*[veq(x, y) for x, y in zip(a, b)])
    if is_num(a) and is_num(b):
        if not is_z3(a) and not is_z3(b):
            return fractions.Fraction(a) == fractions.Fraction(b)
        x, y = Z(a), Z(b)
        if x.sort() != y.sort():
            x, y = R(x), R(y)
        return x == y
    return a is b


class Seq:
    """sequence of symbolic length: parts are ("lit", [items]) or ("sym", length, getter(position) -> item)"""

    def __init__(self, parts):
        self.parts = [p for p in parts if not (p[0] == "lit" and not p[1])]

    @staticmethod
    def of(v):
        if isinstance(v, Seq):
            return v
        if isinstance(v, (list, tuple)):
            return Seq([("lit", list(v))])
        if isinstance(v, SymIter):
            return Seq([("sym", v.length, v.getter)])
        raise Unsupported(f"not a sequence: {v!r}")

    def plen(self, p):
        return len(p[1]) if p[0] == "lit" else p[1]

    def length(self):
        r = 0
        for p in self.parts:
            r = r + self.plen(p)
        return r

    def at(self, pos):
        """item at absolute position pos (assumed 0 <= pos < length)"""
        off = 0
        cands = []
        for p in self.parts:
            n = self.plen(p)
            if p[0] == "lit":
                for j, x in enumerate(p[1]):
                    cands.append((Z(pos) == Z(off + j), x))
            else:
                cands.append((Z(pos) < Z(off + n), p[2](Z(pos) - Z(off))))
            off = off + n
        if not cands:
            raise Unsupported("item of an empty sequence")
        r = cands[-1][1]
        for c, x in reversed(cands[:-1]):
            r = ite(c, x, r)
        return r

    def reversed(self):
        out = []
        for p in reversed(self.parts):
            if p[0] == "lit":
                out.append(("lit", list(reversed(p[1]))))
            else:
                n, g = p[1], p[2]
                out.append(("sym", n, lambda t, n=n, g=g: g(Z(n) - 1 - t)))
        return Seq(out)

    def concrete(self):
        if all(p[0] == "lit" for p in self.parts):
            return [x for p in self.parts for x in p[1]]
        return None


def range_seq(marker):
    """("range", a[, b[, step]]) with symbolic bounds -> Seq; the step must be a concrete positive int"""
    ra = marker[1:]
    if len(ra) == 1:
        a, b, st = 0, ra[0], 1
    elif len(ra) == 2:
        a, b, st = ra[0], ra[1], 1
    else:
        a, b, st = ra
    if not (isinstance(st, int) and st > 0):
        raise Unsupported("symbolic range with a non-constant or non-positive step")
    diff = I(b) - I(a)
    n = Max(0, diff if st == 1 else (diff + (st - 1)) / st)  # z3 '/' on ints: floor for positive divisor
    return Seq([("sym", z3.simplify(Z(n)), lambda t, a=a, st=st: I(a) + t * st)])


class SeqMixin:
    """comprehensions / displays / reversed over symbolic ranges build Seq values"""

    def seq_hooks(self, cx, name, args, kwargs, node):
        if name == "reversed" and len(args) == 1:
            v = args[0]
            if isinstance(v, tuple) and len(v) > 1 and v[0] == "range" and any(is_z3(x) for x in v[1:]):
                return range_seq(v).reversed()
            if isinstance(v, Seq):
                return v.reversed()
            return NotImplemented
        if name == "__genexp__":
            return self.sym_comprehension(cx, args[0])
        if name == "__tuple__":
            parts = []
            for kind, v in args[0]:
                if kind == "item":
                    parts.append(("lit", [v]))
                else:
                    parts.extend(Seq.of(v).parts)
            s = Seq(parts)
            c = s.concrete()
            return s if c is None else (list(c) if isinstance(node, ast.List) else tuple(c))
        if name == "__iter__" and isinstance(args[0], Seq):
            s = args[0]
            return (s.length(), s.at)
        if name == "__len__" and isinstance(args[0], Seq):
            return args[0].length()
        return NotImplemented

    def sym_comprehension(self, cx, n):
        """[elt for t1 in <concrete> ... for tk in <symbolic>]: leading generators over concrete iterables are
        unrolled, the last one may be a symbolic range / Seq; no conditions"""
        gens = n.generators
        if any(g.ifs for g in gens):
            raise Unsupported("comprehension with a condition over a symbolic iteration space")
        parts = []
        env0 = dict(cx.env)

        def rec(k, env):
            g = gens[k]
            saved = cx.env
            cx.env = dict(env)
            try:
                it = cx.ev(g.iter)
            finally:
                cx.env = saved
            sym = None
            if isinstance(it, tuple) and len(it) > 1 and it[0] == "range" and any(is_z3(x) for x in it[1:]):
                sym = range_seq(it)
            elif isinstance(it, (Seq, SymIter)):
                sym = Seq.of(it)
            if sym is not None and sym.concrete() is None:
                if k != len(gens) - 1:
                    raise Unsupported("symbolic generator that is not the innermost one")
                for p in sym.parts:
                    if p[0] == "lit":
                        parts.append(("lit", [self.eval_elt(cx, n.elt, g.target, x, env) for x in p[1]]))
                    else:
                        parts.append(("sym", p[1], lambda t, p=p, env=env: self.eval_elt(cx, n.elt, g.target, p[2](t), env)))
                return
            items = sym.concrete() if sym is not None else cx.iter_concrete(it, n)
            for x in items:
                e2 = dict(env)
                saved = cx.env
                cx.env = e2
                try:
                    cx.assign(g.target, x)
                finally:
                    cx.env = saved
                if k == len(gens) - 1:
                    parts.append(("lit", [self.eval_elt(cx, n.elt, None, None, e2)]))
                else:
                    rec(k + 1, e2)

        rec(0, env0)
        return Seq(parts)

    @staticmethod
    def eval_elt(cx, elt, target, item, env):
        saved = cx.env
        cx.env = dict(env)
        try:
            if target is not None:
                cx.assign(target, item)
            return cx.ev(elt)
        finally:
            cx.env = saved


# ======================================================================================================
# trotter_schedule
# ======================================================================================================

P_ = z3.Int("p!pos")  # skolem position


def layer2(p, n):
    return Min(p, 2 * n - 2 - p)


def frac2(p, n):
    return If(p == n - 1, z3.RealVal(1), z3.RealVal("1/2"))


def spec_schedule(n, order):
    """closed form of the schedule (python list for concrete n, Seq otherwise)"""
    if isinstance(n, int):
        if order == 1:
            return [(k, 1) for k in range(n)]
        o2 = [] if n == 0 else [(min(p, 2 * n - 2 - p), 1 if p == n - 1 else HALF) for p in range(2 * n - 1)]
        if order == 2:
            return o2
        s = SUZUKI_S
        return [(k, fr * f) for f in (s, s, 1 - 4 * s, s, s) for k, fr in o2]
    if order == 1:
        return Seq([("sym", Max(0, n), lambda t: (t, z3.RealVal(1)))])
    length2 = If(n >= 1, 2 * n - 1, 0)
    if order == 2:
        return Seq([("sym", length2, lambda t: (layer2(t, n), frac2(t, n)))])
    s = SUZUKI_S
    return Seq([("sym", length2, lambda t, f=f: (layer2(t, n), frac2(t, n) * Z(f))) for f in (s, s, 1 - 4 * s, s, s)])


# the value CPython computes for 1 / (4 - 4 ** (1 / 3)), as an exact rational
SUZUKI_S = 1 / (4 - fractions.Fraction(4 ** (1 / 3)))


@register
class TrotterSchedule(SeqMixin, Contract):
    """closed form for ALL numbers of layers n:
       order 1: length n, position p carries (p, 1);
       order 2: length 2n-1 (0 if n = 0), position p carries (min(p, 2n-2-p), 1 if p = n-1 else 1/2);
       order 4: five order-2 blocks scaled by (s, s, 1-4s, s, s)   (symmetric multipliers)"""

    target = f"{FG}::trotter_schedule"
    property_ids = ("C11",)
    floor = 12
    raises = {}

    def cases(self):
        return [NS(name=f"order={o}", order=o) for o in (1, 2, 4, 3)]

    def inputs(self, cx, case):
        return dict(nlayers=cx.Int("n"), order=case.order)

    def requires(self, a, case):
        return {"n>=0": a.nlayers >= 0}

    def call(self, cx, name, args, kwargs, node):
        return self.seq_hooks(cx, name, args, kwargs, node)

    def ensures_raise(self, a, exc, cx, case):
        return {"raises-only-for-unsupported-order": exc == "ValueError" and a.order not in (1, 2, 4)}

    def ensures(self, a, r, cx, case):
        n = a.nlayers
        d = {"order-supported": a.order in (1, 2, 4)}
        try:
            s = Seq.of(r)
        except Unsupported:
            return {"returns-a-sequence": False}
        L = s.length()
        p = P_
        if a.order == 1:
            d["length==n"] = Z(L) == n
            if s.parts:
                d["position-p-carries-(p,1)"] = Implies(And(0 <= p, p < n), veq(s.at(p), (p, 1)))
        elif a.order == 2:
            d["length==2n-1"] = Z(L) == If(n >= 1, 2 * n - 1, 0)
            if s.parts:
                d["position-p-carries-(min(p,2n-2-p), 1-if-middle-else-1/2)"] = Implies(
                    And(n >= 1, 0 <= p, p < 2 * n - 1), veq(s.at(p), (layer2(p, n), frac2(p, n))))
        elif a.order == 4:
            len2 = If(n >= 1, 2 * n - 1, 0)
            d["length==5(2n-1)"] = Z(L) == 5 * len2
            if s.parts:
                # multiplier of block b = fraction of its middle entry (the order-2 middle fraction is 1)
                m = [s.at(b * (2 * n - 1) + n - 1)[1] for b in range(5)]
                sv = m[0]
                for b in range(5):
                    d[f"block{b}: position-q-carries-(layer2(q), frac2(q)*m{b})"] = Implies(
                        And(n >= 1, 0 <= p, p < 2 * n - 1),
                        veq(s.at(b * (2 * n - 1) + p), (layer2(p, n), frac2(p, n) * Z(R(m[b])))))
                d["multipliers-are-(s,s,1-4s,s,s)"] = Implies(n >= 1, And(veq(m[1], sv), veq(m[3], sv), veq(m[4], sv),
                                                                          veq(m[2], 1 - 4 * Z(R(sv)))))
                d["multipliers-sum-to-1"] = Implies(n >= 1, Z(R(m[0])) + R(m[1]) + R(m[2]) + R(m[3]) + R(m[4]) == 1)
                # s solves the order-4 condition 4 s^3 + (1-4s)^3 = 0 up to the rounding of the cube root (1e-15)
                c = 4 * Z(R(sv)) * R(sv) * R(sv) + (1 - 4 * R(sv)) * (1 - 4 * R(sv)) * (1 - 4 * R(sv))
                d["s-cancels-third-order-error(|4s^3+(1-4s)^3|<1e-15)"] = Implies(
                    n >= 1, And(c < z3.RealVal("1/1000000000000000"), c > -z3.RealVal("1/1000000000000000")))
        return d

    def apply(self, cx, a, node, case=None):
        cx.oblige(f"call-pre@{node.lineno}:trotter_schedule:n>=0", "call-pre", Z(a.nlayers) >= 0, node.lineno)
        if a.order not in (1, 2, 4):
            raise PyRaise("ValueError", node.lineno)
        return spec_schedule(a.nlayers, a.order)


# ---- consequences of the closed form (pure arithmetic)


@lemmas.lemma("C11", "schedule2-palindromic")
def lem_pal():
    n, p = z3.Ints("n p")
    q = 2 * n - 2 - p
    return [n >= 1, 0 <= p, p < 2 * n - 1], And(0 <= q, q < 2 * n - 1, layer2(p, n) == layer2(q, n),
                                                 frac2(p, n) == frac2(q, n))


@lemmas.lemma("C11", "schedule2-layer-k-sits-exactly-at-k-and-2n-2-k")
def lem_positions():
    n, p, k = z3.Ints("n p k")
    return [n >= 1, 0 <= p, p < 2 * n - 1, 0 <= k, k < n], (layer2(p, n) == k) == Or(p == k, p == 2 * n - 2 - k)


@lemmas.lemma("C11", "schedule2-fractions-of-a-layer-sum-to-1")
def lem_sum():
    n, k = z3.Ints("n k")
    a, b = k, 2 * n - 2 - k  # the two positions of layer k (they coincide exactly for the middle layer k = n-1)
    return [n >= 1, 0 <= k, k < n], If(a == b, frac2(a, n) == 1, frac2(a, n) + frac2(b, n) == 1)


@lemmas.lemma("C11", "schedule2-layers-in-range")
def lem_range():
    n, p = z3.Ints("n p")
    return [n >= 1, 0 <= p, p < 2 * n - 1], And(0 <= layer2(p, n), layer2(p, n) < n)


@lemmas.lemma("C11", "suzuki-multipliers-sum-to-1-for-all-s")
def lem_suzuki():
    s = z3.Real("s")
    return [], s + s + (1 - 4 * s) + s + s == 1


@lemmas.lemma("C11", "schedule4-palindromic")
def lem_pal4():
    # position (b, q) mirrors to (4-b, 2n-2-q); multipliers (s,s,1-4s,s,s) are symmetric under b -> 4-b
    n, q, b = z3.Ints("n q b")
    s = z3.Real("s")
    m = lambda bb: If(bb == 2, 1 - 4 * s, s)
    pos = lambda bb, qq: bb * (2 * n - 1) + qq
    tot = 5 * (2 * n - 1)
    return [n >= 1, 0 <= q, q < 2 * n - 1, 0 <= b, b < 5], And(
        pos(4 - b, 2 * n - 2 - q) == tot - 1 - pos(b, q), m(b) == m(4 - b), layer2(q, n) == layer2(2 * n - 2 - q, n),
        frac2(q, n) == frac2(2 * n - 2 - q, n))


# ======================================================================================================
# TEBD (tn1d/tebd.py): abstract state
# ======================================================================================================
#
# Ghost state of a TEBD object (heap fields g_*):
#   g_S   : V       denotation chain of every gate applied so far:  S' = G(bond, fraction, S)
#   g_amt : bond -> Real, g_cnt : bond -> Int     accumulated fraction / number of gates per bond (bond b = (b,(b+1) mod L))
# Spec functions (definitional instances are assumed where needed, labelled def-...):
#   RS(f, S, m)  right-sweep prefix: RS(f,S,0) = S,  RS(f,S,m+1) = G(2m, f, RS(f,S,m))
#   LS(f, S, m)  left-sweep prefix : LS(f,S,0) = S,  LS(f,S,m+1) = G(last-2m, f, LS(f,S,m)),  last = largest odd <= L-2
#   Sw(0,f,S) = [G(L-1,f,.) if cyclic and L odd] RS(f,S,L div 2)        (even bonds)
#   Sw(1,f,S) = LS(f, [G(L-1,f,S) if cyclic and L even], (L-1) div 2)   (odd bonds)
#   queue: the *logical* state is  D = Sw(qdir, qfrac, g_S) if a sweep is queued else g_S;
#          MERGE (the meaning of "modulo merging equal neighbours"):  Sw(d, a, Sw(d, b, S)) = Sw(d, a + b, S).

import contracts.c08_mps as c08  # MPS ghost domain (isL / isR) and the proved canonisation contracts  # noqa: E402

G_ = z3.Function("G", z3.IntSort(), Re, V, V)
RS = z3.Function("RS", Re, V, z3.IntSort(), V)
LS = z3.Function("LS", Re, V, z3.IntSort(), V)
Sw = z3.Function("Sw", z3.IntSort(), Re, V, V)
KB = z3.Int("k!bond")  # skolem bond
K = c08.K
DIRS = {"right": 0, "left": 1}
TEBDC = f"{F1}::TEBD"


def nbonds(L, cyclic):
    return L - 1 + (1 if cyclic else 0)


def in_dir(k, d, L, cyclic):
    """bond k belongs to the sweep of direction flag d (0: even bonds, 1: odd bonds)"""
    return And(0 <= k, k < nbonds(L, cyclic), k % 2 == d)


def nL_of(L):
    return (L - 1) / 2  # number of odd bonds b with 1 <= b <= L-2   (z3 int division, L >= 2)


def last_odd(L):
    return 2 * nL_of(L) - 1


def sw_def(d, f, S, L, cyclic):
    """definitional expansion of Sw(d, f, S)"""
    f = R(f)
    if d == 0:
        body = RS(f, S, L / 2)
        return If(And(cyclic, L % 2 == 1), G_(L - 1, f, body), body) if cyclic else body
    S0 = If(L % 2 == 0, G_(L - 1, f, S), S) if cyclic else S
    return LS(f, S0, nL_of(L))


class QS:
    """abstract queue state used in callers' heaps: present (bool / z3 Bool), dir flag (int / z3 Int), frac (real)"""

    def __init__(self, present, d=0, frac=0):
        self.present, self.d, self.frac = present, d, frac


ABSENT = "<absent>"


def get_queue(f):
    """(representation, present, dirflag, frac) of the queued sweep"""
    q = f.get("_queued_sweep", ABSENT)
    if isinstance(q, QS):
        return "abs", q.present, q.d, q.frac
    if q is ABSENT or q is None:
        return "py", False, 0, 0
    return "py", True, DIRS[q[0]], q[1]


def set_queue(f, rep, present, d=0, frac=0):
    if rep == "abs":
        f["_queued_sweep"] = QS(present, d, frac)
    else:
        f["_queued_sweep"] = [("right", "left")[d], frac] if present else None


def D_logical(f):
    _, present, d, frac = get_queue(f)
    if present is False:
        return f["g_S"]
    pend = Sw(Z(d), R(frac), f["g_S"])
    return pend if present is True else If(present, pend, f["g_S"])


# Gauge (canonical-centre) analysis.  Property C11 speaks about evolution WITHOUT truncation, where an off-centre split is
# exact; where the orthogonality centre sits therefore only matters for the imaginary-time renormalisation ("returns
# the normalized product formula").  The mpsghost machinery is consequently switched on only for imag=True (it is what
# proves / refutes `renorm@L:renormalised site is the orthogonality centre`).  VERIF_C11_GAUGE=1 re-enables the full
# informational analysis (every gate_split_ on the centre, sweeps alternate): with it, step / update_to-final-step /
# at_times show consecutive same-direction sweeps whose gates are split off-centre (quality of truncation, not C11).
import os  # noqa: E402

GAUGE_ALL = os.environ.get("VERIF_C11_GAUGE") == "1"


def gauge_on(f):
    """are quantified gauge facts tracked (and obliged) for this TEBD object"""
    return (not f["cyclic"]) and (GAUGE_ALL or bool(f["imag"]))


def gauge_pre(cx, mps, d):
    """canonical form a sweep of direction d needs on entry (open chains): right: centre in {0,1}; left: centre >= L-2"""
    f = cx.fields(mps)
    if d == 0:
        return c08.forall_sites(Implies(And(1 < K, K < f["L"]), c08.sel(f["isR"], K)))
    return c08.forall_sites(Implies(And(0 <= K, K < f["L"] - 2), c08.sel(f["isL"], K)))


def gauge_post(cx, mps, d):
    """right sweep leaves the centre at L-1, left sweep at 0"""
    f = cx.fields(mps)
    if d == 0:
        return c08.forall_sites(Implies(And(0 <= K, K < f["L"] - 1), c08.sel(f["isL"], K)))
    return c08.forall_sites(Implies(And(0 < K, K < f["L"]), c08.sel(f["isR"], K)))


def centre_ok(c, d):
    """abstract gauge flag g_centre (used by the callers of sweep instead of the quantified isL / isR facts, which the
    body proof of sweep relates to it): 0 = centre at site 0 (what a left sweep leaves: all k>0 right isometries),
    1 = centre at site L-1 (what a right sweep leaves), 3 = only sites 2..L-1 known right-isometric (after an
    imaginary-time left sweep).  A right sweep (d=0) needs 0 or 3, a left sweep (d=1) needs 1."""
    if isinstance(c, int):
        return c in (0, 3) if d == 0 else c == 1
    return Or(c == 0, c == 3) if d == 0 else c == 1


def perform(cx, ref, d, frac, node, who, quantified=True):
    """abstract effect of one performed sweep of direction flag d (proved for the body of TEBD.sweep)"""
    f = cx.fields(ref)
    L, cyclic = f["L"], f["cyclic"]
    mps = f["_pt"]
    if not cyclic:
        lab = f"call-pre@{node.lineno}:{who}:gauge: orthogonality centre at the first bond of the {('right', 'left')[d]} sweep"
        if quantified and gauge_on(f):
            cx.oblige(lab, "call-pre", gauge_pre(cx, mps, d), node.lineno)
        elif not quantified and GAUGE_ALL:
            cx.oblige(lab, "call-pre", centre_ok(f["g_centre"], d), node.lineno)
        f["g_centre"] = (1 - d) if (d == 0 or not f["imag"]) else 3
    f["g_S"] = Sw(z3.IntVal(d), R(frac), f["g_S"])
    amt, cnt = cx.Array("g_amt", z3.IntSort(), Re), cx.Array("g_cnt", z3.IntSort(), z3.IntSort())
    hit = in_dir(KB, d, L, cyclic)
    cx.assume(And(z3.Select(amt, KB) == z3.Select(f["g_amt"], KB) + If(hit, R(frac), 0),
                  z3.Select(cnt, KB) == z3.Select(f["g_cnt"], KB) + If(hit, 1, 0)))
    f["g_amt"], f["g_cnt"] = amt, cnt
    m = cx.fields(mps)
    m["isL"], m["isR"] = cx.Array("isL", z3.IntSort(), z3.BoolSort()), cx.Array("isR", z3.IntSort(), z3.BoolSort())
    if quantified and gauge_on(f):
        if d == 0 or not f["imag"]:
            cx.assume(gauge_post(cx, mps, d))
        else:
            # imaginary time, left sweep: the renormalisation divides site 1 (proved to fail the centre obligation in
            # the body of sweep): only sites 2..L-1 are known to be right isometries afterwards
            cx.assume(gauge_pre(cx, mps, 0))


def new_tebd(cx, cyclic=False, imag=False, queue=ABSENT, L=None, **extra):
    L = L if L is not None else cx.Int("L")
    mps = cx.new_obj("MPS", L=L, cyclic=cyclic, isL=cx.Array("isL", z3.IntSort(), z3.BoolSort()),
                     isR=cx.Array("isR", z3.IntSort(), z3.BoolSort()))
    fields = dict(L=L, cyclic=cyclic, imag=imag, _pt=mps, _dt=cx.Real("_dt"), t=cx.Real("t"), t0=cx.Real("t0"),
                  _err=cx.Real("err"), _ham_norm=cx.Real("ham_norm"), dt=None, tol=None, progbar=False, split_opts={},
                  H=cx.Opaque("H"), g_S=cx.Val("S"), g_amt=cx.Array("g_amt", z3.IntSort(), Re),
                  g_cnt=cx.Array("g_cnt", z3.IntSort(), z3.IntSort()), g_nsteps=0, g_nyield=0, g_centre=cx.Int("centre"))
    if queue is not ABSENT:
        fields["_queued_sweep"] = queue
    fields.update(extra)
    ref = cx.new_obj("TEBD", **fields)
    cx.ghost["self"] = ref
    cx.assume(L >= (3 if cyclic else 2))
    return ref


class Gate:
    def __init__(self, frac, sites):
        self.frac, self.sites = frac, sites


class TEBDContract(SeqMixin, c08.MPSContract):
    property_ids = ("C11",)
    drops = "decorators, docstrings, ascii-art comments"
    ghost_fields = ()

    def attr(self, cx, base, attr, node):
        if isinstance(base, Ref) and base.kind == "TEBD":
            if attr == "TARGET_TOL":
                return fractions.Fraction(1, 10 ** 13)
            if attr == "pt":
                # property: a copy of the current state (a distinct object carrying the same ghost facts)
                m = cx.fields(cx.fields(base)["_pt"])
                return cx.new_obj("MPS", **dict(m), g_S=cx.fields(base)["g_S"], g_t=cx.fields(base)["t"])
            if attr == "_queued_sweep":
                raise PyRaise("AttributeError", getattr(node, "lineno", 0))
        return c08.MPSContract.attr(self, cx, base, attr, node)

    def call(self, cx, name, args, kwargs, node):
        line = getattr(node, "lineno", 0)
        r = self.seq_hooks(cx, name, args, kwargs, node)
        if r is not NotImplemented:
            return r
        if name == "hasattr" and isinstance(args[0], Ref):
            return args[1] in cx.fields(args[0])
        if name == "__binop__" and (args[1] is None or args[2] is None):
            raise PyRaise("TypeError", line)  # arithmetic on None
        if name == "list" and len(args) == 1 and isinstance(args[0], Seq):
            return args[0]
        if name == "__pow__":
            return pw(args[0], args[1])
        if name == "continuous_progbar":
            return None
        if name.startswith(".") and isinstance(args[0], Ref) and args[0].kind == "TEBD":
            recv, rest, m = args[0], args[1:], name[1:]
            if m == "_get_gate_from_ham":
                # [leaf] the cached gate expm(-(i or 1) * _dt * dt_frac * H_sites): a function of (fraction, sites)
                return Gate(rest[0], rest[1])
            tgt = f"{TEBDC}.{m}"
            if tgt in REGISTRY:
                return cx.call_contract(REGISTRY[tgt], rest, kwargs, node, recv=recv)
            return NotImplemented
        if name == ".gate_split_" and isinstance(args[0], Ref) and args[0].kind == "MPS":
            return self.leaf_gate_split(cx, args[0], args[1], kwargs, node)
        if name == ".norm" and isinstance(args[0], c08.Site):
            return cx.Real("site_norm")
        if name == ".normalize" and isinstance(args[0], Ref) and args[0].kind == "MPS":
            # [leaf] MatrixProductState.normalize(insert=c): divides site c by the norm of the WHOLE state: exact
            # renormalisation in any gauge (used for periodic chains, which have no canonical form)
            cx.oblige(f"renorm@{node.lineno}:whole-state normalisation inserted at a site", "call-arg",
                      "insert" in kwargs and not args[1:], node.lineno)
            idx = kwargs.get("insert")
            m = cx.fields(args[0])
            m["isL"] = z3.Store(m["isL"], idx, cx.Bool("hv"))
            m["isR"] = z3.Store(m["isR"], idx, cx.Bool("hv"))
            cx.events.append(("renorm", idx))
            return cx.Real("state_norm")
        if name == "__binop__" and args[0] == "Div" and isinstance(args[1], c08.Site):
            return ("scaled-site", args[1], args[2])
        if name == "__setitem__" and isinstance(args[0], Ref) and args[0].kind == "MPS":
            return self.leaf_rescale_site(cx, args[0], args[1], args[2], node)
        return c08.MPSContract.call(self, cx, name, args, kwargs, node)

    # ---- leaves ----------------------------------------------------------------------------------
    def leaf_gate_split(self, cx, mps, U, kwargs, node):
        """[leaf] gate_split_(U, where=(a,b), absorb): applies U on sites (a,b) and splits; absorb='right' leaves
        site a a left isometry, absorb='left' leaves site b a right isometry; the truncation is optimal only if the
        orthogonality centre is on the two sites (every site left of a is a left isometry, every site right of b a
        right isometry)"""
        line = node.lineno
        ref = cx.ghost["self"]
        f = cx.fields(ref)
        L, cyclic = f["L"], f["cyclic"]
        where, absorb = kwargs.get("where"), kwargs.get("absorb")
        ok = isinstance(U, Gate) and isinstance(where, tuple) and len(where) == 2
        cx.oblige(f"gate@{line}:is-a-hamiltonian-gate-on-a-site-pair", "call-arg", ok, line)
        if not ok:
            raise Unsupported("gate_split_ call shape")
        a, b = where
        nb = nbonds(L, cyclic)
        # the site pair is a bond of the chain, spelled in the order the Hamiltonian stores its terms (LocalHam1D keeps
        # every term -- also the periodic one -- under the sorted key and returns the matrix in that orientation): an
        # inner bond (a, a+1), or the periodic bond (0, L-1) of a cyclic chain.  Its number is a, resp. L-1.
        inner = And(0 <= a, Z(b) == a + 1, a + 1 < L)
        wrap = And(bool(cyclic), Z(a) == 0, Z(b) == L - 1, L > 2) if not is_z3(cyclic) else \
            And(cyclic, Z(a) == 0, Z(b) == L - 1, L > 2)
        cx.oblige(f"gate@{line}:acts-on-a-bond-of-the-chain-in-stored-(ascending)-site-order", "call-arg",
                  Or(inner, wrap), line)
        cx.oblige(f"gate@{line}:gate-was-built-for-these-sites", "call-arg", veq(tuple(U.sites), (a, b)), line)
        a = If(inner, Z(a), L - 1)  # (bond number; the gauge bookkeeping below is for open chains only)
        f["g_S"] = G_(Z(a), R(U.frac), f["g_S"])
        f["g_amt"] = z3.Store(f["g_amt"], a, z3.Select(f["g_amt"], a) + R(U.frac))
        f["g_cnt"] = z3.Store(f["g_cnt"], a, z3.Select(f["g_cnt"], a) + 1)
        cx.events.append(("gate", a, U.frac))
        m = cx.fields(mps)
        if gauge_on(f):
            cx.oblige(f"call-pre@{line}:gate_split_:gauge: orthogonality centre is on the sites the gate acts on", "call-pre",
                      And(c08.forall_sites(Implies(And(0 <= K, K < a), c08.sel(m["isL"], K))),
                          c08.forall_sites(Implies(And(a + 1 < K, K < L), c08.sel(m["isR"], K)))), line)
            h = [cx.Bool("hv") for _ in range(3)]
            if absorb == "right":
                m["isL"] = z3.Store(z3.Store(m["isL"], a, True), a + 1, h[0])
                m["isR"] = z3.Store(z3.Store(m["isR"], a, h[1]), a + 1, h[2])
            elif absorb == "left":
                m["isR"] = z3.Store(z3.Store(m["isR"], a + 1, True), a, h[0])
                m["isL"] = z3.Store(z3.Store(m["isL"], a, h[1]), a + 1, h[2])
            else:
                m["isL"] = z3.Store(z3.Store(m["isL"], a, h[0]), a + 1, h[1])
                m["isR"] = z3.Store(z3.Store(m["isR"], a, h[2]), a + 1, cx.Bool("hv"))
        return mps

    def leaf_rescale_site(self, cx, mps, idx, val, node):
        """self._pt[c] /= norm(self._pt[c]): normalises the state iff c is the orthogonality centre; dividing an
        isometry by its norm destroys the isometry"""
        line = node.lineno
        ok = isinstance(val, tuple) and val and val[0] == "scaled-site" and val[1].mps == mps
        cx.oblige(f"renorm@{line}:rescales-the-same-site", "call-arg", ok and veq(val[1].i, idx), line)
        m = cx.fields(mps)
        L = m["L"]
        f = cx.fields(cx.ghost["self"])
        if not f["cyclic"]:
            cx.oblige(f"renorm@{line}:renormalised site is the orthogonality centre", "call-pre",
                      And(c08.forall_sites(Implies(And(0 <= K, K < idx), c08.sel(m["isL"], K))),
                          c08.forall_sites(Implies(And(idx < K, K < L), c08.sel(m["isR"], K)))), line)
            m["isL"] = z3.Store(m["isL"], idx, cx.Bool("hv"))
            m["isR"] = z3.Store(m["isR"], idx, cx.Bool("hv"))
        cx.events.append(("renorm", idx))
        return None

    def havoc_heap(self, cx):
        ref = cx.ghost["self"]
        f = cx.fields(ref)
        f["g_S"] = cx.Val("S")
        f["g_amt"], f["g_cnt"] = cx.Array("g_amt", z3.IntSort(), Re), cx.Array("g_cnt", z3.IntSort(), z3.IntSort())
        m = cx.fields(f["_pt"])
        m["isL"], m["isR"] = cx.Array("isL", z3.IntSort(), z3.BoolSort()), cx.Array("isR", z3.IntSort(), z3.BoolSort())
        self.havoc_more(cx, f)

    def havoc_more(self, cx, f):
        pass


def pw(x, k):
    """x ** k with the power uninterpreted (small constant exponents are expanded as the engine does)"""
    if isinstance(k, int) and 0 <= k <= 4 and is_z3(x):
        r = 1
        for _ in range(k):
            r = r * Z(x)
        return r
    if not is_z3(x) and not is_z3(k):
        return fractions.Fraction(x) ** k if isinstance(k, int) else x ** k
    return z3.Function("pow", Re, Re, Re)(R(x), R(k))


# ======================================================================================================
# TEBD.sweep
# ======================================================================================================


@register
class Sweep(TEBDContract):
    """(a) queue: the logical state D (applied gates followed by the queued sweep) advances by exactly
    Sw(direction, fraction) modulo MERGE; the queue is empty after a queue=False call.
    (b) coverage: a performed right sweep applies exactly one gate of the requested fraction on every even bond
    (incl. (L-1,0) if cyclic and L odd), a left sweep on every odd bond (incl. (L-1,0) if cyclic and L even), in the
    order fixed by RS / LS, and touches no other bond (skolem bond k).
    (c) imaginary time (open chains, mpsghost of C08, only for imag=True): the renormalisation divides the orthogonality
    centre site -- which needs the centre on the sites of every gate_split_ and at L-1 (right) / 0 (left) afterwards.
    For imag=False no gauge obligation is emitted (C11 is about untruncated evolution; VERIF_C11_GAUGE=1 re-enables the
    informational analysis)."""

    target = f"{TEBDC}.sweep"
    floor = 100

    def cases(self):
        out = []

        def add(direction, queue, qs, dt, cyclic, imag):
            out.append(NS(name=f"direction={direction},queue={queue},queued={qs},dt={dt},cyclic={cyclic},imag={imag}",
                          direction=direction, queue=queue, qs=qs, dt=dt, cyclic=cyclic, imag=imag))

        for direction in ("right", "left"):
            for cyclic in (False, True):
                for queue in (False, True):
                    for qs in ("absent", "none", "right", "left"):
                        add(direction, queue, qs, "none", cyclic, False)
                    add(direction, queue, "none", "real", cyclic, False)
                add(direction, False, "none", "none", cyclic, True)
                add(direction, False, "left" if direction == "right" else "right", "none", cyclic, True)
        return out

    def inputs(self, cx, case):
        qf = cx.Real("qf")
        q = {"absent": ABSENT, "none": None, "right": ["right", qf], "left": ["left", qf]}[case.qs]
        ref = new_tebd(cx, cyclic=case.cyclic, imag=case.imag, queue=q)
        cx.ghost["q0"] = (case.qs in ("right", "left"), DIRS.get(case.qs, 0), qf)
        mark_case(cx, case)
        a = NS(dict(self=ref, direction=case.direction, dt_frac=cx.Real("dt_frac"),
                    dt=None if case.dt == "none" else cx.Real("dt"), queue=case.queue))
        for c in self.reqs(cx, a).values():
            cx.assume(c)
        for c in self.gauge_reqs(cx, a, case.qs in ("right", "left"), DIRS.get(case.qs, 0)).values():
            cx.assume(c)
        return a

    # what a call does, as a function of (queue flag, queued sweep): list of performed (dirflag, frac), new queue
    @staticmethod
    def plan(present, qd, qf, queue, d, f):
        if queue:
            if present:
                if qd == d:
                    return [], (True, d, R(qf) + R(f))
                return [(qd, qf)], (True, d, f)
            return [], (True, d, f)
        if present:
            return [(qd, qf), (d, f)], (False, 0, 0)
        return [(d, f)], (False, 0, 0)

    @staticmethod
    def eff_frac(f, a):
        return a.dt_frac if a.dt is None else R(a.dt_frac) * (R(a.dt) / R(f["_dt"]))

    def reqs(self, cx, a):
        """preconditions over the heap (assumed for the body, asserted at call sites)"""
        f = cx.fields(a.self)
        d = {}
        if a.dt is not None:
            d["_dt!=0"] = f["_dt"] != 0
        return d

    def gauge_reqs(self, cx, a, present, qd):
        f = cx.fields(a.self)
        if not gauge_on(f):
            return {}
        performed, _ = self.plan(present, qd, 0, a.queue, DIRS[a.direction], 0)
        if not performed:
            return {}
        return {"gauge: orthogonality centre at the first bond of the first performed sweep":
                gauge_pre(cx, f["_pt"], performed[0][0])}

    def requires(self, a, case):
        return {}

    def ensures(self, a, r, cx, case):
        ref = a.self
        f, p = cx.fields(ref), cx.pre(ref)
        L, cyclic = f["L"], f["cyclic"]
        present, qd, qf = cx.ghost["q0"]
        d = DIRS[a.direction]
        fe = self.eff_frac(p, a)
        performed, (np_, nd, nf) = self.plan(present, qd, qf, a.queue, d, fe)
        out = {"returns-None": r is None}
        # ---- (a) queue
        rep, present1, d1, f1 = get_queue(f)
        out["queue: attribute-exists-afterwards"] = "_queued_sweep" in f
        out["queue: present-iff-planned"] = present1 == np_
        if np_ and present1:
            out["queue: holds-(direction,fraction)"] = And(d1 == nd, Z(R(f1)) == Z(R(nf)))
        if not a.queue:
            out["queue: empty-after-queue=False"] = present1 is False
        # logical state advances by Sw(direction, fraction) modulo MERGE
        S0 = p["g_S"]
        D0 = Sw(z3.IntVal(qd), R(qf), S0) if present else S0
        merge = True
        if present and qd == d:
            merge = Sw(z3.IntVal(d), R(fe), Sw(z3.IntVal(d), R(qf), S0)) == Sw(z3.IntVal(d), R(qf) + R(fe), S0)  # def-MERGE
        defs = []
        S = S0
        for (dd, ff) in performed:
            defs.append(Sw(z3.IntVal(dd), R(ff), S) == sw_def(dd, ff, S, L, cyclic))  # def-Sw
            S = Sw(z3.IntVal(dd), R(ff), S)
        cx.assume(And(merge, *defs))
        out["queue: logical-state-advances-by-Sw(direction,fraction)-modulo-merge"] = D_logical(f) == Sw(z3.IntVal(d), R(fe), D0)
        out["applied-gates==performed-sweeps-in-order"] = f["g_S"] == S
        # ---- (b) coverage, for the skolem bond
        amt = z3.Select(p["g_amt"], KB)
        cnt = z3.Select(p["g_cnt"], KB)
        for (dd, ff) in performed:
            hit = in_dir(KB, dd, L, cyclic)
            amt = amt + If(hit, R(ff), 0)
            cnt = cnt + If(hit, 1, 0)
        out["coverage: every-bond-of-the-sweep-parity-gets-the-fraction-once, no-other-bond-touched"] = And(
            z3.Select(f["g_amt"], KB) == amt, z3.Select(f["g_cnt"], KB) == cnt)
        # ---- (c) gauge
        if gauge_on(f) and performed:
            last = performed[-1][0]
            if last == 0 or not f["imag"]:
                out["gauge: centre-at-L-1-after-right / 0-after-left"] = gauge_post(cx, f["_pt"], last)
            # (imaginary time, left sweep: the centre claim is refuted together with the renorm obligation -- the
            # division makes site 1 a non-isometry -- so only the part later right sweeps rely on is stated)
            if last == 1:
                out["gauge: sites-2..L-1-right-isometric-after-left"] = gauge_pre(cx, f["_pt"], 0)
        if not performed:
            m, mp = cx.fields(f["_pt"]), cx.pre(p["_pt"])
            out["no-sweep-performed: state-untouched"] = And(f["g_S"] == p["g_S"], m["isL"] == mp["isL"], m["isR"] == mp["isR"])
        ren = [e for e in cx.events if e[0] == "renorm"]
        out["imag: renormalised-once-per-performed-sweep"] = len(ren) == (len(performed) if f["imag"] else 0) or \
            (len(ren) == 1 and len(performed) == 2 and f["imag"])  # (the drained sweep renormalises inside the callee)
        out["frame: time-fields-untouched"] = And(f["t"] == p["t"], f["_dt"] == p["_dt"], f["_err"] == p["_err"])
        return out

    # ---- loops
    def inv_right(self, v):
        cx = v.cx
        ref = cx.ghost["self"]
        f = cx.fields(ref)
        L, cyclic = f["L"], f["cyclic"]
        g = cx.ghost["loop_entry"]
        t, i = v._it0, v.i
        fr = R(v.dt_frac)
        d = {"i<=L": i <= L,
             "chain": f["g_S"] == RS(fr, g["S"], Z(t)),
             "coverage": And(
                 z3.Select(f["g_amt"], KB) == z3.Select(g["amt"], KB) + If(And(0 <= KB, KB < i, KB % 2 == 0), fr, 0),
                 z3.Select(f["g_cnt"], KB) == z3.Select(g["cnt"], KB) + If(And(0 <= KB, KB < i, KB % 2 == 0), 1, 0))}
        if gauge_on(f):
            m = cx.fields(f["_pt"])
            d["gauge"] = And(c08.forall_sites(Implies(And(0 <= K, K < i - 1), c08.sel(m["isL"], K))),
                             c08.forall_sites(Implies(And(K > i - 1, K > 1, K < L), c08.sel(m["isR"], K))))
        return d

    def facts_right(self, v):
        cx = v.cx
        g = cx.ghost["loop_entry"]
        fr = R(v.dt_frac)
        t = Z(v._it0)
        return [RS(fr, g["S"], 0) == g["S"], RS(fr, g["S"], t + 1) == G_(2 * t, fr, RS(fr, g["S"], t))]  # def-RS

    def inv_left(self, v):
        cx = v.cx
        ref = cx.ghost["self"]
        f = cx.fields(ref)
        L, cyclic = f["L"], f["cyclic"]
        g = cx.ghost["loop_entry"]
        t = Z(v._it1)
        fr = R(v.dt_frac)
        nl, last = nL_of(L), last_odd(L)
        i = last - 2 * t  # the bond the next iteration acts on
        done = And(i < KB, KB <= last, KB % 2 == 1)
        d = {"t<=nL": t <= nl,
             "chain": f["g_S"] == LS(fr, g["S"], t),
             "coverage": And(z3.Select(f["g_amt"], KB) == z3.Select(g["amt"], KB) + If(done, fr, 0),
                             z3.Select(f["g_cnt"], KB) == z3.Select(g["cnt"], KB) + If(done, 1, 0))}
        if gauge_on(f):
            m = cx.fields(f["_pt"])
            d["gauge"] = And(c08.forall_sites(Implies(And(K > i + 2, K < L), c08.sel(m["isR"], K))),
                             c08.forall_sites(Implies(And(0 <= K, K < i + 2, K < L - 2), c08.sel(m["isL"], K))))
        return d

    def facts_left(self, v):
        cx = v.cx
        f = cx.fields(cx.ghost["self"])
        g = cx.ghost["loop_entry"]
        fr = R(v.dt_frac)
        t = Z(v._it1)
        last = last_odd(f["L"])
        return [LS(fr, g["S"], 0) == g["S"], LS(fr, g["S"], t + 1) == G_(last - 2 * t, fr, LS(fr, g["S"], t))]  # def-LS

    @property
    def loops(self):
        dead = {"U": lambda cx: None, "sites": lambda cx: None}  # assigned in the body before any use
        return {0: Loop("for i in range(start_site_ind, final_site_ind, 2)", self.snap(self.inv_right),
                        facts=self.snap(self.facts_right), retype=dead),
                1: Loop("for i in reversed(range(final_site_ind, self.L - 1, 2))", self.snap(self.inv_left),
                        facts=self.snap(self.facts_left), retype=dead)}

    def snap(self, fn):
        """capture the ghost state at loop entry (first evaluation on a path = inv-init, before any havoc)"""
        def wrapped(v):
            cx = v.cx
            if "loop_entry" not in cx.ghost:
                f = cx.fields(cx.ghost["self"])
                cx.ghost["loop_entry"] = dict(S=f["g_S"], amt=f["g_amt"], cnt=f["g_cnt"])
            return fn(v)
        return wrapped

    def call(self, cx, name, args, kwargs, node):
        if name == ".sweep" and isinstance(args[0], Ref) and args[0].kind == "TEBD":
            r = super().call(cx, name, args, kwargs, node)
            cx.ghost.pop("loop_entry", None)  # the recursive call (queue drain) happened before this path's loop
            return r
        return super().call(cx, name, args, kwargs, node)

    # ---- callee use
    def apply(self, cx, a, node, case=None):
        ref = a.self
        f = cx.fields(ref)
        for lab, c in self.reqs(cx, a).items():
            cx.oblige(f"call-pre@{node.lineno}:sweep:{lab}", "call-pre", c, node.lineno)
        if a.direction not in DIRS:
            raise Unsupported("sweep direction")
        d = DIRS[a.direction]
        fe = self.eff_frac(f, a)
        rep, present, qd, qf = get_queue(f)
        if not isinstance(present, bool):
            present = cx.decide(present, node.lineno)
        if present and not isinstance(qd, int):
            qd = 0 if cx.decide(Z(qd) == 0, node.lineno) else 1
            if qd == 1:
                cx.assume(Z(get_queue(f)[2]) == 1)
        queue = a.queue
        if not isinstance(queue, bool):
            raise Unsupported("symbolic queue flag")
        performed, (np_, nd, nf) = self.plan(present, qd, qf, queue, d, fe)
        S0 = f["g_S"]
        if present and qd == d and queue:
            cx.assume(Sw(z3.IntVal(d), R(fe), Sw(z3.IntVal(d), R(qf), S0)) == Sw(z3.IntVal(d), R(qf) + R(fe), S0))  # def-MERGE
        for (dd, ff) in performed:
            perform(cx, ref, dd, ff, node, "sweep", quantified=isinstance(cx.contract, Sweep))
        set_queue(f, rep, np_, nd, nf)
        return None


# ======================================================================================================
# TEBD time bookkeeping: _get_gate_from_ham, choose_time_step, _compute_sweep_dt_tol, step, update_to, at_times
# ======================================================================================================

POW = z3.Function("pow", Re, Re, Re)


def step_plan(order, present, qd, qf, queue, scale):
    """simulate the queue over one step: (performed list, new queue, expected logical-state builder)"""
    performed = []
    for k, frac in spec_schedule(2, order):
        fe = frac if scale is None else Z(R(frac)) * scale
        p, (present, qd, qf) = Sweep.plan(present, qd, qf, queue, k, fe)
        performed.extend(p)
    return performed, (present, qd, qf)


def stepD(order, scale, D):
    """logical state after one step applied to D: the schedule's sweeps in order (unmerged form)"""
    for k, frac in spec_schedule(2, order):
        fe = R(frac) if scale is None else Z(R(frac)) * scale
        D = Sw(z3.IntVal(k), Z(fe), D)
    return D


@register
class GetGateFromHam(TEBDContract):
    """the gate for (fraction, sites) is expm(x * H_sites) with x = -i*_dt*fraction (real time) / -_dt*fraction (imaginary)"""

    target = f"{TEBDC}._get_gate_from_ham"
    floor = 2

    def cases(self):
        return [NS(name=f"imag={im}", imag=im) for im in (False, True)]

    def inputs(self, cx, case):
        ref = new_tebd(cx, imag=case.imag)
        return dict(self=ref, dt_frac=cx.Real("dt_frac"), sites=(cx.Int("a"), cx.Int("b")))

    def call(self, cx, name, args, kwargs, node):
        if name == "__binop__" and (args[1] is None or args[2] is None):
            raise PyRaise("TypeError", getattr(node, "lineno", 0))  # arithmetic on None
        if name == "__binop__" and args[0] == "Sub" and isinstance(args[2], complex) and not is_z3(args[1]) and args[1] == 0:
            return -args[2]  # unary minus on a complex constant
        if name == "__binop__" and args[0] == "Mult":
            a, b = args[1], args[2]
            if isinstance(a, complex) and a.real == 0 and is_num(b):
                return ("imag", a.imag * R(b) if is_z3(b) else a.imag * b)
            if isinstance(a, tuple) and a and a[0] == "imag" and is_num(b):
                return ("imag", a[1] * R(b) if is_z3(a[1]) or is_z3(b) else a[1] * b)
            return NotImplemented
        if name == ".get_gate_expm":
            return ("gate_expm", args[1], args[2])
        return super().call(cx, name, args, kwargs, node)

    def attr(self, cx, base, attr, node):
        return super().attr(cx, base, attr, node)

    def ensures(self, a, r, cx, case):
        f = cx.fields(a.self)
        ok = isinstance(r, tuple) and len(r) == 3 and r[0] == "gate_expm"
        d = {"returns-cached-exponential-of-the-term": ok}
        if ok:
            d["for-the-requested-sites"] = veq(tuple(r[1]), tuple(a.sites))
            x = r[2]
            want = -(f["_dt"] * a.dt_frac)
            if case.imag:
                d["exponent==-_dt*fraction (imaginary time)"] = is_num(x) and Z(R(x)) == want
            else:
                d["exponent==-i*_dt*fraction (real time)"] = isinstance(x, tuple) and x[0] == "imag" and Z(R(x[1])) == want
        return d


@register
class ChooseTimeStep(TEBDContract):
    target = f"{TEBDC}.choose_time_step"
    floor = 2

    def cases(self):
        return [NS(name=f"order={o}", order=o) for o in (1, 2, 4)]

    def inputs(self, cx, case):
        ref = new_tebd(cx)
        a = NS(dict(self=ref, tol=cx.Real("tol"), T=cx.Real("T"), order=case.order))
        for c in self.reqs(cx, a).values():
            cx.assume(c)
        return a

    def reqs(self, cx, a):
        f = cx.fields(a.self)
        return {"span-and-norm-nonzero": And(a.T != 0, f["_ham_norm"] != 0)}

    @staticmethod
    def spec(f, a):
        return POW(R(a.tol) / (R(a.T) * R(f["_ham_norm"])), Z(R(fractions.Fraction(1, a.order))))

    def ensures(self, a, r, cx, case):
        f = cx.fields(a.self)
        return {"dt==(tol/(T*|H|))**(1/order)": is_z3(r) and r == self.spec(f, a)}

    def apply(self, cx, a, node, case=None):
        for lab, c in self.reqs(cx, a).items():
            cx.oblige(f"call-pre@{node.lineno}:choose_time_step:{lab}", "call-pre", c, node.lineno)
        f = cx.fields(a.self)
        r = self.spec(f, a)
        # [leaf] a real power of a positive base is positive
        cx.assume(Implies(R(a.tol) / (R(a.T) * R(f["_ham_norm"])) > 0, r > 0))
        return r


def truthy(x):
    if x is None or x is False:
        return False
    return Z(R(x)) != 0


@register
class ComputeSweepDtTol(TEBDContract):
    """exactly one of (dt, tol) -- after falling back to the instance defaults -- must be set; the step used is dt if
    given, else the one chosen for the span T - t; returned and stored in _dt"""

    target = f"{TEBDC}._compute_sweep_dt_tol"
    floor = 20

    def cases(self):
        return [NS(name=f"dt={a},tol={b},self.dt={c},self.tol={d},order={o}", dt=a, tol=b, sdt=c, stol=d, order=o)
                for a in ("none", "real") for b in ("none", "real", "False") for c in ("none", "real")
                for d in ("none", "real") for o in (2, 4)]

    def inputs(self, cx, case):
        mk = lambda kind, nm: None if kind == "none" else (False if kind == "False" else cx.Real(nm))
        ref = new_tebd(cx, dt=mk(case.sdt, "self_dt"), tol=mk(case.stol, "self_tol"))
        a = NS(dict(self=ref, T=cx.Real("T"), dt=mk(case.dt, "dt"), tol=mk(case.tol, "tol"), order=case.order))
        for c in self.reqs(cx, a).values():
            cx.assume(c)
        return a

    @staticmethod
    def eff(f, a):
        return (f["dt"] if a.dt is None else a.dt), (f["tol"] if a.tol is None else a.tol)

    def reqs(self, cx, a):
        f = cx.fields(a.self)
        de, te = self.eff(f, a)
        d = {}
        if de is None and te is not None and te is not False:
            d["tol-route: span-and-norm-nonzero"] = Implies(truthy(te), And(R(a.T) - R(f["t"]) != 0, f["_ham_norm"] != 0))
        return d

    def must_raise(self, f, a):
        de, te = self.eff(f, a)
        return Or(And(Not(truthy(de)), Not(truthy(te))), And(truthy(de), truthy(te)))

    def spec_dt(self, cx, f, a):
        de, te = self.eff(f, a)
        if de is not None:
            return de
        return ChooseTimeStep.spec(f, NS(dict(tol=te, T=R(a.T) - R(f["t"]), order=a.order)))

    def ensures_raise(self, a, exc, cx, case):
        p = cx.pre(a.self)
        return {"raises-ValueError-only-when-not-exactly-one-of-(dt,tol)": And(exc == "ValueError", self.must_raise(p, a))}

    def ensures(self, a, r, cx, case):
        f, p = cx.fields(a.self), cx.pre(a.self)
        want = self.spec_dt(cx, p, a)
        return {"exactly-one-of-(dt,tol)-set": Not(self.must_raise(p, a)),
                "returns-the-stored-step": is_num(r) and is_num(f["_dt"]) and Z(R(r)) == Z(R(f["_dt"])),
                "step==dt-if-given-else-chosen-for-the-span-T-t": is_num(f["_dt"]) and Z(R(f["_dt"])) == Z(R(want)),
                "frame: time, error": And(f["t"] == p["t"], f["_err"] == p["_err"]),
                "frame: defaults-untouched": f["dt"] is p["dt"] and f["tol"] is p["tol"]}

    def apply(self, cx, a, node, case=None):
        for lab, c in self.reqs(cx, a).items():
            cx.oblige(f"call-pre@{node.lineno}:_compute_sweep_dt_tol:{lab}", "call-pre", c, node.lineno)
        f = cx.fields(a.self)
        mr = self.must_raise(f, a)
        mr = mr if isinstance(mr, bool) else z3.simplify(mr)
        if cx.decide(mr, node.lineno):
            raise PyRaise("ValueError", node.lineno)
        de, te = self.eff(f, a)
        if de is None:
            r = ChooseTimeStep.spec(f, NS(dict(tol=te, T=R(a.T) - R(f["t"]), order=a.order)))
            cx.assume(Implies(R(te) / ((R(a.T) - R(f["t"])) * R(f["_ham_norm"])) > 0, r > 0))  # [leaf] positive power
        else:
            r = de
        f["_dt"] = r
        return r


@register
class Step(TEBDContract):
    """one Trotter step: the schedule's sweeps in order (logical state advances by stepD modulo MERGE), time advances by
    exactly the step used, the error bound accumulates |H| * dt^(order+1)"""

    target = f"{TEBDC}.step"
    floor = 100

    def cases(self):
        return [NS(name=f"order={o},dt={dt},queue={q},pending={pend},cyclic={cy}", order=o, dt=dt, queue=q, pend=pend, cyclic=cy)
                for o in (1, 2, 4) for dt in ("none", "real") for q in ("default", True, False)
                for pend in ("none", "right", "left") for cy in (False, True)]

    def inputs(self, cx, case):
        qf = cx.Real("qf")
        q = QS(case.pend != "none", DIRS.get(case.pend, 0), qf)
        ref = new_tebd(cx, cyclic=case.cyclic, queue=q)
        mark_case(cx, case)
        a = NS(dict(self=ref, order=case.order, dt=None if case.dt == "none" else cx.Real("dt"), progbar=None,
                    sweep_opts={} if case.queue == "default" else {"queue": case.queue}))
        for c in self.reqs(cx, a).values():
            cx.assume(c)
        for c in self.gauge_reqs(cx, a).values():
            cx.assume(c)
        return a

    @staticmethod
    def scale(f, a):
        return None if a.dt is None else R(a.dt) / R(f["_dt"])

    def reqs(self, cx, a):
        f = cx.fields(a.self)
        return {"_dt!=0": f["_dt"] != 0} if a.dt is not None else {}

    def gauge_reqs(self, cx, a, present=None, qd=None):
        f = cx.fields(a.self)
        if f["cyclic"] or not GAUGE_ALL:
            return {}
        if present is None:
            _, present, qd, _ = get_queue(f)
        performed, _ = step_plan(a.order, present, qd, 0, bool(a.sweep_opts.get("queue", False)), None)
        if not performed:
            return {}
        return {"gauge: orthogonality centre at the first bond of the first performed sweep":
                centre_ok(f["g_centre"], performed[0][0])}

    def ensures(self, a, r, cx, case):
        f, p = cx.fields(a.self), cx.pre(a.self)
        dte = p["_dt"] if a.dt is None else a.dt
        queue = bool(a.sweep_opts.get("queue", False))
        _, present, qd, qf = get_queue(p)
        performed, (np_, nd, nf) = step_plan(a.order, present, qd, qf, queue, self.scale(p, a))
        D0 = D_logical(p)
        _, present1, d1, f1 = get_queue(f)
        out = {"time-advances-by-the-step-used": f["t"] == p["t"] + R(dte),
               "error-accumulates-|H|*dt^(order+1)": f["_err"] == p["_err"] + p["_ham_norm"] * pw(R(dte), a.order + 1),
               "logical-state-advances-by-the-schedule-in-order (modulo merge)": D_logical(f) == stepD(a.order, self.scale(p, a), D0),
               "queue: present-iff-queueing": present1 == np_,
               "frame: _dt, |H|": And(f["_dt"] == p["_dt"], f["_ham_norm"] == p["_ham_norm"])}
        if np_ and present1 is True:
            out["queue: pending-direction-is-the-schedule's-last"] = d1 == nd
        if not queue:
            out["queue: empty-after-queue=False"] = present1 is False
        if GAUGE_ALL and not f["cyclic"] and performed:
            out["gauge: centre-where-the-last-performed-sweep-leaves-it"] = Z(f["g_centre"]) == 1 - performed[-1][0]
        return out

    def apply(self, cx, a, node, case=None):
        ref = a.self
        f = cx.fields(ref)
        for lab, c in self.reqs(cx, a).items():
            cx.oblige(f"call-pre@{node.lineno}:step:{lab}", "call-pre", c, node.lineno)
        rep, present, qd, qf = get_queue(f)
        if not isinstance(present, bool):
            present = cx.decide(present, node.lineno)
        if present and not isinstance(qd, int):
            qd0 = qd
            qd = 0 if cx.decide(Z(qd0) == 0, node.lineno) else 1
            cx.assume(Z(qd0) == qd)
        for lab, c in self.gauge_reqs(cx, a, present, qd).items():
            cx.oblige(f"call-pre@{node.lineno}:step:{lab}", "call-pre", c, node.lineno)
        queue = bool(a.sweep_opts.get("queue", False))
        sc = self.scale(f, a)
        performed, (np_, nd, nf) = step_plan(a.order, present, qd, qf, queue, sc)
        D0 = Sw(z3.IntVal(qd), R(qf), f["g_S"]) if present else f["g_S"]
        D1 = stepD(a.order, sc, D0)
        dte = f["_dt"] if a.dt is None else a.dt
        f["t"] = f["t"] + R(dte)
        f["_err"] = f["_err"] + f["_ham_norm"] * pw(R(dte), a.order + 1)
        f["g_nsteps"] = f["g_nsteps"] + 1
        if np_:
            S1, q1 = cx.Val("S"), cx.Real("qf")
            f["g_S"] = S1
            f["_queued_sweep"] = QS(True, nd, q1)
            cx.assume(Sw(z3.IntVal(nd), q1, S1) == D1)
        else:
            f["g_S"] = D1
            f["_queued_sweep"] = QS(False)
        m = cx.fields(f["_pt"])
        m["isL"], m["isR"] = cx.Array("isL", z3.IntSort(), z3.BoolSort()), cx.Array("isR", z3.IntSort(), z3.BoolSort())
        if not f["cyclic"] and performed:
            f["g_centre"] = 1 - performed[-1][0]
        return None


def mark_case(cx, case):
    cx.assume(z3.Int("case|" + case.name) == 0)


def case_of_model(model):
    for k in model or {}:
        if k.startswith("case|"):
            return dict(kv.split("=", 1) for kv in k[5:].split(","))
    return {}


# ---- recursive spec functions for the while loop of update_to (definitional instances in `facts`)
Tm = z3.Function("Tm", z3.IntSort(), Re)          # time after n full steps:      Tm(0) = t_entry, Tm(n+1) = Tm(n) + _dt
Em = z3.Function("Em", z3.IntSort(), Re)          # error bound after n steps:    Em(0) = err0,    Em(n+1) = Em(n) + |H| _dt^(order+1)
Dm = z3.Function("Dm", z3.IntSort(), V)           # logical state after n steps:  Dm(0) = D0,      Dm(n+1) = stepD(order, 1, Dm(n))


@register
class UpdateTo(TEBDContract):
    """over the reals: after update_to(T) the time is exactly T; n full steps of size _dt (t = Tm(n), exactly _dt per
    iteration, so the loop terminates for _dt > 0) followed by one partial step dt_last = T - Tm(n) <= _dt (and > 0 when
    T lies ahead); the error bound accumulates |H| dt^(order+1) per step; queue empty afterwards"""

    target = f"{TEBDC}.update_to"
    floor = 60

    def cases(self):
        out = []
        for o in (1, 2, 4):
            for route in ("dt", "self.dt", "tol", "neither", "both"):
                out.append(NS(name=f"order={o},step-from={route},cyclic=False", order=o, route=route, cyclic=False))
        out.append(NS(name="order=4,step-from=dt,cyclic=True", order=4, route="dt", cyclic=True))
        return out

    def inputs(self, cx, case):
        r = case.route
        ref = new_tebd(cx, cyclic=case.cyclic, queue=QS(False), dt=cx.Real("self_dt") if r == "self.dt" else None)
        f = cx.fields(ref)
        a = NS(dict(self=ref, T=cx.Real("T"), dt=cx.Real("dt") if r in ("dt", "both") else None,
                    tol=cx.Real("tol") if r in ("tol", "both") else None, order=case.order, progbar=None))
        cx.ghost.update(t_entry=f["t"], err0=f["_err"], D0=f["g_S"], n0=f["g_nsteps"], order=case.order, T=a.T)
        mark_case(cx, case)
        for c in self.reqs(cx, a).values():
            cx.assume(c)
        return a

    def reqs(self, cx, a):
        f = cx.fields(a.self)
        d = {"queue-empty-on-entry": get_queue(f)[1] is False}
        de = f["dt"] if a.dt is None else a.dt
        te = f["tol"] if a.tol is None else a.tol
        if de is not None and de is not False:
            d["time-step-positive"] = R(de) > 0
        if te is not None and te is not False:
            d["tolerance-positive"] = R(te) > 0
            if de is None:
                d["tol-route: target ahead, |H| > 0"] = And(R(a.T) > f["t"], f["_ham_norm"] > 0)
        if GAUGE_ALL and not f["cyclic"]:
            d["gauge: orthogonality centre at site 0 on entry (the first sweep is a right sweep)"] = centre_ok(f["g_centre"], 0)
        return d

    def ensures_raise(self, a, exc, cx, case):
        p = cx.pre(a.self)
        if exc == "NotImplementedError":
            return {"raises-NotImplementedError-only-for-a-target-in-the-past": R(a.T) < p["t"] - z3.RealVal("1/10000000000000")}
        return {"raises-ValueError-only-when-not-exactly-one-of-(dt,tol)": exc == "ValueError" and case.route in ("neither", "both")}

    def havoc_more(self, cx, f):
        f["t"], f["_err"], f["g_nsteps"] = cx.Real("t"), cx.Real("err"), cx.Int("nsteps")
        f["_queued_sweep"] = QS(cx.Bool("q_present"), cx.Int("q_dir"), cx.Real("q_frac"))
        f["g_centre"] = cx.Int("centre")

    def inv(self, v):
        cx = v.cx
        g = NS(cx.ghost)
        f = cx.fields(g.self)
        n = Z(f["g_nsteps"]) - Z(g.n0)
        _, present, qd, qf = get_queue(f)
        last = spec_schedule(2, g.order)[-1][0]
        d = {"n>=0": n >= 0,
             "t==Tm(n)  (exactly _dt per iteration)": f["t"] == Tm(n),
             "err==Em(n)": f["_err"] == Em(n),
             "logical-state==Dm(n)": D_logical(f) == Dm(n),
             "not-past-the-target": Or(n == 0, f["t"] < R(g.T)),
             "_dt-fixed-and-positive": And(f["_dt"] == g.dt_used, f["_dt"] > 0),
             "queue: empty-before-the-first-step, else the schedule's last direction pending":
                 If(n == 0, Not(present), And(present, Z(qd) == last))}
        if GAUGE_ALL and not f["cyclic"]:
            # flag: before the first step the centre is where the entry condition says; afterwards where the sweep
            # performed last (the one before the pending one) left it
            d["gauge"] = If(n == 0, centre_ok(f["g_centre"], 0), Z(f["g_centre"]) == last)
        return d

    def facts(self, v):
        cx = v.cx
        g = NS(cx.ghost)
        f = cx.fields(g.self)
        n = Z(f["g_nsteps"]) - Z(g.n0)
        c = f["_ham_norm"] * pw(R(g.dt_used), g.order + 1)
        return [Tm(0) == g.t_entry, Em(0) == g.err0, Dm(0) == g.D0,
                Tm(n + 1) == Tm(n) + R(g.dt_used), Em(n + 1) == Em(n) + c, Dm(n + 1) == stepD(g.order, None, Dm(n))]

    def call(self, cx, name, args, kwargs, node):
        r = super().call(cx, name, args, kwargs, node)
        if name == "._compute_sweep_dt_tol":
            cx.ghost["dt_used"] = cx.fields(args[0])["_dt"]
        return r

    @property
    def loops(self):
        return {0: Loop("while self.t < T - self._dt", self.inv, facts=self.facts,
                        decreases=lambda v: R(v.cx.ghost["T"]) - v.cx.fields(v.cx.ghost["self"])["t"])}

    def ensures(self, a, r, cx, case):
        g = NS(cx.ghost)
        f, p = cx.fields(a.self), cx.pre(a.self)
        n = Z(f["g_nsteps"]) - Z(g.n0) - 1  # full steps before the final partial one
        dt_last = R(a.T) - Tm(n)
        de = p["dt"] if a.dt is None else a.dt
        want_dt = de if de is not None else ChooseTimeStep.spec(p, NS(dict(tol=a.tol, T=R(a.T) - p["t"], order=a.order)))
        out = {"route-valid": case.route not in ("neither", "both"),
               "t'==T exactly": f["t"] == R(a.T),
               "n>=0 full steps": n >= 0,
               "step-used": f["_dt"] == Z(R(want_dt)),
               "last-partial-step<=_dt": dt_last <= f["_dt"],
               "last-partial-step>0-when-target-ahead": Implies(R(a.T) > p["t"], dt_last > 0),
               "error==Em(n)+|H|*dt_last^(order+1)": f["_err"] == Em(n) + p["_ham_norm"] * pw(dt_last, a.order + 1),
               "state==n full steps then one step scaled by dt_last/_dt": D_logical(f) == stepD(a.order, dt_last / f["_dt"], Dm(n)),
               "queue: empty-afterwards": get_queue(f)[1] is False}
        return out

    def apply(self, cx, a, node, case=None):
        """callee use (at_times): time bookkeeping, queue and gauge flag; the state chain is summarised by a fresh value"""
        f = cx.fields(a.self)
        for lab, c in self.reqs(cx, a).items():
            cx.oblige(f"call-pre@{node.lineno}:update_to:{lab}", "call-pre", c, node.lineno)
        if cx.decide(R(a.T) < f["t"] - z3.RealVal("1/10000000000000"), node.lineno):
            raise PyRaise("NotImplementedError", node.lineno)
        cx.call_contract(REGISTRY[f"{TEBDC}._compute_sweep_dt_tol"], [a.T, a.dt, a.tol, a.order], {}, node, recv=a.self)
        f["t"] = R(a.T)
        f["_err"] = cx.Real("err")
        f["g_S"] = cx.Val("S")
        f["g_nsteps"] = cx.Int("nsteps")
        f["_queued_sweep"] = QS(False)
        last = spec_schedule(2, a.order)[-1][0]
        if not f["cyclic"]:
            f["g_centre"] = 1 - last  # where the final (queue=False) step's last sweep leaves the centre
        return None


@register
class AtTimes(TEBDContract):
    """visits every requested time in ascending order: the j-th yielded state is a copy of the state at time
    sorted(ts)[j]; one yield per requested time; the step is fixed once for the whole span"""

    target = f"{TEBDC}.at_times"
    floor = 20

    def cases(self):
        return [NS(name=f"order={o},step-from={r}", order=o, route=r) for o in (2, 4) for r in ("dt", "self.dt", "tol")]

    def inputs(self, cx, case):
        r = case.route
        ref = new_tebd(cx, queue=QS(False), dt=cx.Real("self_dt") if r == "self.dt" else None)
        f = cx.fields(ref)
        n = cx.Int("n")
        ts = Seq([("sym", n, lambda j, arr=cx.Array("ts", z3.IntSort(), Re): z3.Select(arr, j))])
        srt = cx.Array("ts_sorted", z3.IntSort(), Re)
        cx.ghost.update(n=n, srt=srt, t_entry=f["t"], order=case.order)
        a = NS(dict(self=ref, ts=ts, dt=cx.Real("dt") if r == "dt" else None, tol=cx.Real("tol") if r == "tol" else None,
                    order=case.order, progbar=None))
        cx.assume(And(n >= 1))
        mark_case(cx, case)
        de = f["dt"] if a.dt is None else a.dt
        if de is not None:
            cx.assume(R(de) > 0)
        if a.tol is not None:
            cx.assume(And(a.tol > 0, f["_ham_norm"] > 0, z3.Select(srt, n - 1) > f["t"]))
        cx.assume(centre_ok(f["g_centre"], 0))
        # finding A makes consecutive update_to calls start with the centre at L-1: the gauge entry condition of the
        # second call is NOT established by the first (see update_to); here it is checked per call
        return a

    def call(self, cx, name, args, kwargs, node):
        if name == "sorted" and isinstance(args[0], Seq):
            # [leaf] sorted(): ascending rearrangement of the same multiset of times
            n, srt = cx.ghost["n"], cx.ghost["srt"]
            return Seq([("sym", n, lambda j: z3.Select(srt, j))])
        if name == "__getitem__" and isinstance(args[0], Seq):
            s, idx = args
            if isinstance(idx, int) and idx < 0:
                idx = s.length() + idx
            cx.oblige(f"index@{node.lineno}", "safety", And(0 <= Z(idx), Z(idx) < s.length()), node.lineno)
            return s.at(idx)
        if name == "Progbar":
            return args[0]
        return super().call(cx, name, args, kwargs, node)

    def havoc_more(self, cx, f):
        f["t"], f["_err"], f["g_nsteps"] = cx.Real("t"), cx.Real("err"), cx.Int("nsteps")
        f["g_nyield"] = cx.Int("nyield")
        f["g_centre"] = cx.Int("centre")
        f["_dt"] = cx.Real("_dt")

    def inv(self, v):
        cx = v.cx
        g = NS(cx.ghost)
        f = cx.fields(g.self)
        j = Z(v._it0)
        d = {"j<=n": j <= g.n, "one-yield-per-visited-time": Z(f["g_nyield"]) == j,
             "time-is-last-requested": If(j == 0, f["t"] == g.t_entry, f["t"] == z3.Select(g.srt, j - 1)),
             "queue-empty-between-targets": get_queue(f)[1] is False,
             "step-fixed-for-the-whole-span": f["_dt"] == g.dt_used}
        if GAUGE_ALL:
            # where the previous update_to (whose final step ends with the schedule's last sweep) left the centre
            d["gauge"] = If(j == 0, centre_ok(f["g_centre"], 0), Z(f["g_centre"]) == 1 - spec_schedule(2, g.order)[-1][0])
        return d

    def facts(self, v):
        g = NS(v.cx.ghost)
        j = Z(v._it0)
        # def-sorted: instances of  i <= j => sorted[i] <= sorted[j]
        return [Implies(And(j >= 1, j < g.n), z3.Select(g.srt, j - 1) <= z3.Select(g.srt, j)),
                Implies(And(0 <= j, j < g.n), z3.Select(g.srt, j) <= z3.Select(g.srt, g.n - 1))]

    @property
    def loops(self):
        return {0: Loop("for t in ts", self.inv_snap, facts=self.facts)}

    def inv_snap(self, v):
        cx = v.cx
        if "dt_used" not in cx.ghost:
            cx.ghost["dt_used"] = cx.fields(cx.ghost["self"])["_dt"]
        return self.inv(v)

    def on_yield(self, cx, value, node):
        g = NS(cx.ghost)
        f = cx.fields(g.self)
        j = Z(cx.env["_it0"])
        ok = isinstance(value, Ref) and value.kind == "MPS" and value != f["_pt"]
        cx.oblige(f"yield@{node.lineno}:yields-a-copy-of-the-state", "post", ok, node.lineno)
        if ok:
            vf = cx.fields(value)
            cx.oblige(f"yield@{node.lineno}:state-at-requested-time-sorted(ts)[j]", "post",
                      And(vf["g_t"] == z3.Select(g.srt, j), vf["g_S"] == f["g_S"]), node.lineno)
        cx.oblige(f"yield@{node.lineno}:j-th-yield-in-iteration-j", "post", Z(f["g_nyield"]) == j, node.lineno)
        f["g_nyield"] = f["g_nyield"] + 1
        return None

    def ensures_raise(self, a, exc, cx, case):
        g = NS(cx.ghost)
        # only a requested time in the past may be rejected
        return {"raises-NotImplementedError-only-for-a-requested-time-in-the-past":
                And(exc == "NotImplementedError", z3.Select(g.srt, 0) < g.t_entry - z3.RealVal("1/10000000000000"))}

    def ensures(self, a, r, cx, case):
        g = NS(cx.ghost)
        f = cx.fields(a.self)
        return {"yields==len(ts)": Z(f["g_nyield"]) == g.n, "ends-at-the-largest-requested-time": f["t"] == z3.Select(g.srt, g.n - 1)}


# ======================================================================================================
# LocalHam1D.__init__  (symbolic L, quantified map invariant)
# ======================================================================================================

X_, Y_ = z3.Int("x!site"), z3.Int("y!site")


class Op:
    """an opaque operator (array-like: has .shape)"""

    def __init__(self, z):
        self.z = z


class SymMap:
    """finite map (int, int) -> operator of arbitrary content: dom : Int -> Int -> Bool, val : Int -> Int -> V"""

    def __init__(self, dom, val):
        self.dom, self.val = dom, val

    def has(self, x, y):
        return z3.Select(z3.Select(self.dom, Z(x)), Z(y))

    def get(self, x, y):
        return z3.Select(z3.Select(self.val, Z(x)), Z(y))

    def put(self, x, y, v):
        self.dom = z3.Store(self.dom, Z(x), z3.Store(z3.Select(self.dom, Z(x)), Z(y), True))
        self.val = z3.Store(self.val, Z(x), z3.Store(z3.Select(self.val, Z(x)), Z(y), v))


def fresh_map(cx, name):
    return SymMap(cx.Array(f"{name}_dom", z3.IntSort(), z3.IntSort(), z3.BoolSort()),
                  cx.Array(f"{name}_val", z3.IntSort(), z3.IntSort(), V))


def nxt(x, L):
    return If(x == L - 1, 0, x + 1)  # (x + 1) mod L for 0 <= x < L


@register
class LocalHam1DInit(Contract):
    """the default two-site term is placed exactly on the bonds (i, (i+1) mod L), 0 <= i < L-1+cyclic, that are not
    already present in either orientation; supplied terms are kept; the result and H1 go to LocalHamGen.__init__"""

    target = f"{F1}::LocalHam1D.__init__"
    property_ids = ("C11",)
    floor = 12

    def cases(self):
        return [NS(name=f"H2={k},cyclic={c}", k=k, cyclic=c) for k in ("array", "dict+default", "dict-no-default")
                for c in (False, True)]

    def inputs(self, cx, case):
        L = cx.Int("L")
        cx.assume(L >= (3 if case.cyclic else 1))
        m0 = fresh_map(cx, "H2")
        if case.k == "array":
            m0 = SymMap(z3.K(z3.IntSort(), z3.K(z3.IntSort(), z3.BoolVal(False))), m0.val)  # no explicit terms
        cx.ghost.update(L=L, m0=SymMap(m0.dom, m0.val), default=Op(cx.Val("H2default")) if case.k != "dict-no-default" else None,
                        H1=cx.Opaque("H1"))
        H2 = cx.ghost["default"] if case.k == "array" else ("user-dict", m0)
        return dict(self=cx.new_obj("LocalHam1D"), L=L, H2=H2, H1=cx.ghost["H1"], cyclic=case.cyclic)

    def call(self, cx, name, args, kwargs, node):
        g = cx.ghost
        if name == "hasattr" and args[1] == "shape":
            return isinstance(args[0], Op)
        if name == "dict" and isinstance(args[0], tuple) and args[0][0] == "user-dict":
            m = args[0][1]
            return ("dict-copy", SymMap(m.dom, m.val))
        if name == ".pop" and len(args) == 3 and args[1] is None and args[2] is None:
            recv = args[0]
            if isinstance(recv, dict):  # {None: H2}: the literal built from an array-like H2
                dflt = recv.pop(None, None)
                m = SymMap(z3.K(z3.IntSort(), z3.K(z3.IntSort(), z3.BoolVal(False))), g["m0"].val)
            elif isinstance(recv, tuple) and recv[0] == "dict-copy":
                dflt, m = g["default"], recv[1]
            else:
                return NotImplemented
            for k, v in list(cx.env.items()):
                if v is recv:
                    cx.env[k] = m  # from here on the variable holds the map without the None key
            return dflt
        if name == "__contains__" and isinstance(args[0], SymMap):
            k = args[1]
            if not (isinstance(k, tuple) and len(k) == 2):
                raise Unsupported("key shape")
            return args[0].has(k[0], k[1])
        if name == "__setitem__" and isinstance(args[0], SymMap):
            k, v = args[1], args[2]
            if not isinstance(v, Op):
                raise Unsupported("stored value")
            args[0].put(k[0], k[1], v.z)
            return None
        if name == "super().__init__":
            cx.events.append(("super_init", kwargs.get("H2"), kwargs.get("H1"), args))
            return None
        return NotImplemented

    def placed(self, cx, x, y, upto, cyclic):
        """the default term is placed on (x, y): a bond with index below `upto`, absent in both orientations"""
        g = cx.ghost
        m0 = g["m0"]
        return And(0 <= x, x < upto, y == nxt(x, g["L"]), Not(m0.has(x, y)), Not(m0.has(y, x)))

    def inv(self, v):
        cx = v.cx
        g = cx.ghost
        m, m0, L = v.H2, g["m0"], g["L"]
        if not isinstance(m, SymMap):
            return {"map": False}
        nb = L - 1 + (1 if v.old.cyclic else 0)
        # as a goal the universal statement is proved for skolem constants (equivalent, and a failure comes with a
        # model); as an assumption it is used through its ground instances at the keys this iteration tests / stores
        # and at the skolem constants of the goals (quantifier-free queries: sat answers are meaningful)
        if getattr(cx, "inv_mode", "assume") == "check":
            q = self.skolem
        else:
            b = nxt(v.i, L)
            q = lambda body: And(body(z3.Int("x!sk"), z3.Int("y!sk")), body(v.i, b), body(b, v.i))
        return {"i<=nbonds": And(0 <= v.i, v.i <= nb),
                "keys": q(lambda x, y: m.has(x, y) == Or(m0.has(x, y), self.placed(cx, x, y, v.i, v.old.cyclic))),
                "values": q(lambda x, y: Implies(m.has(x, y), m.get(x, y) == If(m0.has(x, y), m0.get(x, y), g["default"].z)))}

    @staticmethod
    def forall(body):
        return z3.ForAll([X_, Y_], body(X_, Y_))

    @staticmethod
    def skolem(body):
        return body(z3.Int("x!sk"), z3.Int("y!sk"))

    @property
    def loops(self):
        return {0: Loop("for i in range(self.L + int(self.cyclic) - 1)", self.inv,
                        retype={"H2": lambda cx: fresh_map(cx, "H2cur")})}

    def ensures(self, a, r, cx, case):
        g = cx.ghost
        f = cx.fields(a.self)
        L, m0 = g["L"], g["m0"]
        ev = [e for e in cx.events if e[0] == "super_init"]
        ok = len(ev) == 1 and isinstance(ev[0][1], SymMap) and not ev[0][3]
        d = {"LocalHamGen.__init__-called-once-with-the-completed-map": ok,
             "L-and-cyclic-stored": is_z3(f.get("L")) and f["L"].eq(L) and f.get("cyclic") is a.cyclic}
        if ok:
            m = ev[0][1]
            nb = L - 1 + (1 if a.cyclic else 0)
            d["H1-passed-through"] = ev[0][2] is g["H1"]
            if g["default"] is not None:
                d["default-placed-exactly-on-absent-bonds-(i,(i+1) mod L), i<L-1+cyclic"] = self.skolem(
                    lambda x, y: m.has(x, y) == Or(m0.has(x, y), self.placed(cx, x, y, nb, a.cyclic)))
                d["supplied-terms-kept, placed-terms-are-the-default"] = self.skolem(
                    lambda x, y: Implies(m.has(x, y), m.get(x, y) == If(m0.has(x, y), m0.get(x, y), g["default"].z)))
            else:
                d["no-default: supplied-terms-unchanged"] = And(m.dom == m0.dom, m.val == m0.val)
        return d


# ======================================================================================================
# LocalHamGen.__init__  (concrete graphs enumerated, operators symbolic: free linear algebra over atoms)
# ======================================================================================================


class Lin:
    """formal linear combination of operator atoms with rational coefficients (the free model of add / div-by-scalar)"""

    def __init__(self, terms):
        self.terms = {k: fractions.Fraction(v) for k, v in terms.items() if v != 0}

    def __add__(self, o):
        t = dict(self.terms)
        for k, v in o.terms.items():
            t[k] = t.get(k, 0) + v
        return Lin(t)

    def scale(self, c):
        return Lin({k: v * c for k, v in self.terms.items()})

    def map_atoms(self, fn):
        return Lin({fn(k): v for k, v in self.terms.items()})

    def __eq__(self, o):
        return isinstance(o, Lin) and self.terms == o.terms

    def __repr__(self):
        return " + ".join(f"{v}*{k}" for k, v in sorted(self.terms.items(), key=repr)) or "0"


class DefaultDictList:
    def __init__(self):
        self.d = {}


def graph_cases():
    out = []

    def add(name, keys, h1):
        out.append(NS(name=f"graph={name},H1={h1}", gname=name, keys=keys, h1=h1))

    h1kinds = ("none", "array", "dict-all", "dict-some", "dict+default")
    for L in range(2, 9):
        chain = [(i, i + 1) for i in range(L - 1)]
        for h1 in h1kinds:
            add(f"chain{L}", chain, h1)
        if L >= 3:
            ring = chain + [(L - 1, 0)]  # the cyclic bond arrives as (L-1, 0): must be flipped to (0, L-1)
            for h1 in ("none", "array", "dict+default"):
                add(f"ring{L}", ring, h1)
    flipped = [(1, 0), (1, 2), (3, 2)]
    both = [(0, 1), (1, 0), (1, 2)]            # both orientations of one pair: merged
    star = [(0, 1), (0, 2), (3, 0)]
    tri = [(0, 1), (1, 2), (2, 0)]
    grid = [((0, 0), (0, 1)), ((1, 0), (0, 0)), ((0, 1), (1, 1)), ((1, 1), (1, 0))]
    for nm, keys in (("flipped", flipped), ("both-orientations", both), ("star", star), ("triangle", tri), ("grid2x2", grid)):
        for h1 in h1kinds:
            add(nm, keys, h1)
    add("chain3+isolated-site", [(0, 1), (1, 2)], "dict-isolated")
    add("chain3-qarray", [(0, 1), (1, 2)], "array-qarray")
    return out


@register
class LocalHamGenInit(Contract):
    """(b,a) keys are flipped and merged into (a,b), a < b; each site's single-site term is added with weight
    1/num_pairs to every covering pair, on the factor pair.index(site) (kron(h, I) if the site comes first, kron(I, h)
    if second): per site the weights sum to 1, so the sum of all terms is unchanged.  Proved for the enumerated graphs
    (chains and rings up to 8 sites, flipped / doubled keys, star, triangle, 2x2 grid) with symbolic operators."""

    target = f"{FG}::LocalHamGen.__init__"
    property_ids = ("C11",)
    floor = 100

    def cases(self):
        return graph_cases()

    def inputs(self, cx, case):
        qa = case.h1 == "array-qarray"
        H2 = {k: Lin({("h2", k): 1}) for k in case.keys}
        sites = sorted({s for k in case.keys for s in k})
        h1 = case.h1
        if h1 == "none":
            H1 = None
        elif h1 in ("array", "array-qarray"):
            H1 = Lin({("h1", "default"): 1})
        elif h1 == "dict-all":
            H1 = {s: Lin({("h1", s): 1}) for s in sites}
        elif h1 == "dict-some":
            H1 = {s: Lin({("h1", s): 1}) for s in sites[::2]}
        elif h1 == "dict+default":
            H1 = {None: Lin({("h1", "default"): 1}), sites[-1]: Lin({("h1", sites[-1]): 1})}
        elif h1 == "dict-isolated":
            H1 = {99: Lin({("h1", 99): 1})}
        cx.ghost.update(H2=dict(H2), H1=(dict(H1) if isinstance(H1, dict) else H1), sites=sites, qarray=qa)
        return dict(self=cx.new_obj("LocalHamGen"), H2=H2, H1=H1)

    def attr(self, cx, base, attr, node):
        if base is None and attr in ("bool", "dict", "list"):
            return ("builtin", attr)
        return NotImplemented

    def call(self, cx, name, args, kwargs, node):
        if name == "collections.defaultdict":
            return DefaultDictList() if args[0] == ("builtin", "list") else ("op-cache",)
        if name == "__isinstance__" and args[1] == "qarray":
            return bool(cx.ghost["qarray"]) and isinstance(args[0], Lin)
        if name == "hasattr" and args[1] == "shape":
            return isinstance(args[0], Lin)
        if name == "filter" and args[0] == ("builtin", "bool") and isinstance(args[1], dict):
            return tuple(k for k in args[1] if k)
        if name == "__getitem__" and isinstance(args[0], DefaultDictList):
            return args[0].d.setdefault(args[1], [])
        if name == "__setitem__" and isinstance(args[0], dict) and args[1] is None:
            args[0][None] = args[2]  # store under the key None (the default entry)
            return None
        if name.startswith(".") and isinstance(args[0], Ref) and args[0].kind == "LocalHamGen":
            m, rest = name[1:], args[1:]
            # [leaves] the cached helpers: conversion keeps the operator, flip exchanges the two sites (linear),
            # add / div are the vector-space operations, op_id / id_op are kron(x, I) / kron(I, x) (linear)
            if m == "_convert_from_qarray_cached":
                cx.events.append(("convert", rest[0]))
                return rest[0]
            if m == "_flip_cached":
                return rest[0].map_atoms(lambda k: ("flip", k))
            if m == "_add_cached":
                return rest[0] + rest[1]
            if m == "_div_cached":
                if not isinstance(rest[1], int) or rest[1] == 0:
                    raise Unsupported("division by a non-constant")
                return rest[0].scale(fractions.Fraction(1, rest[1]))
            if m == "_op_id_cached":
                return rest[0].map_atoms(lambda k: ("kron(h,I)", k))
            if m == "_id_op_cached":
                return rest[0].map_atoms(lambda k: ("kron(I,h)", k))
        return NotImplemented

    # ---- independent specification
    @staticmethod
    def spec(H2, H1, sites):
        canon = {}
        for (a, b), x in H2.items():
            key, val = ((a, b), x) if a < b else ((b, a), x.map_atoms(lambda k: ("flip", k)))
            canon[key] = canon[key] + val if key in canon else val
        deg = {s: sum(1 for k in canon if s in k) for s in sites}
        if H1 is None:
            h1 = {}
        elif isinstance(H1, Lin):
            h1 = {s: H1 for s in sites}
        else:
            h1 = {s: x for s, x in H1.items() if s is not None}
            if H1.get(None) is not None:
                for s in sites:
                    h1.setdefault(s, H1[None])
        isolated = [s for s in h1 if deg.get(s, 0) == 0]
        out = dict(canon)
        for s, x in h1.items():
            if deg.get(s, 0) == 0:
                continue
            for k in canon:
                if s in k:
                    part = x.map_atoms(lambda a: ("kron(h,I)" if k[0] == s else "kron(I,h)", a)).scale(fractions.Fraction(1, deg[s]))
                    out[k] = out[k] + part
        return out, h1, deg, isolated

    def ensures_raise(self, a, exc, cx, case):
        g = cx.ghost
        _, _, _, isolated = self.spec(g["H2"], g["H1"], g["sites"])
        return {"raises-ValueError-only-for-a-single-site-term-on-an-uncoupled-site": exc == "ValueError" and bool(isolated)}

    def ensures(self, a, r, cx, case):
        g = cx.ghost
        f = cx.fields(a.self)
        want, h1, deg, isolated = self.spec(g["H2"], g["H1"], g["sites"])
        terms = f.get("terms")
        d = {"no-uncoupled-single-site-term": not isolated,
             "terms-is-a-dict": isinstance(terms, dict),
             "sites==sorted-coordinates": f.get("sites") == tuple(g["sites"])}
        if not isinstance(terms, dict):
            return d
        d["keys==canonical-pairs-(a<b)"] = set(terms) == set(want) and all(k[0] < k[1] for k in terms)
        d["caller's-H2-not-modified"] = a.H2 == g["H2"]
        if set(terms) == set(want):
            d["every-term==two-site-part(+flipped-merge)+sum_s(1/num_pairs(s))*h_s-on-factor-pair.index(s)"] = all(
                terms[k] == want[k] for k in want)
            # consequence, checked directly on the result: per site the single-site weights sum to 1, each on the right factor
            oks = []
            for s, x in h1.items():
                for atom in x.terms:
                    tot, factor_ok = fractions.Fraction(0), True
                    for k, t in terms.items():
                        if not isinstance(t, Lin):
                            factor_ok = False
                            continue
                        c1, c2 = t.terms.get(("kron(h,I)", atom), 0), t.terms.get(("kron(I,h)", atom), 0)
                        if atom == ("h1", "default"):
                            continue  # the shared default term is accounted for in the whole-term comparison above
                        tot += c1 + c2
                        if (c1 and k[0] != s) or (c2 and k[1] != s):
                            factor_ok = False
                    if atom != ("h1", "default"):
                        oks.append(tot == 1 and factor_ok)
            d["per-site-weights-sum-to-1-on-the-correct-factor"] = all(oks)
        if g["qarray"]:
            d["qarray-terms-converted"] = len([e for e in cx.events if e[0] == "convert"]) == len(g["H2"]) + 1
        return d


# ======================================================================================================
# native replays of the gauge obligations (run the real TEBD, watch where the orthogonality centre really is)
# ======================================================================================================


def _native_tebd(L=6, cyclic=False, imag=False, centre=0, seed=11):
    import quimb.tensor as qtn

    psi = qtn.MPS_rand_state(L, 4, dtype=complex, seed=seed, cyclic=cyclic)
    H = qtn.ham_1d_heis(L, cyclic=cyclic)
    tebd = qtn.TEBD(psi, H, dt=0.05, progbar=False, imag=imag)
    tebd.split_opts["cutoff"] = 0.0
    tebd._pt.canonicalize_(centre)
    return tebd


class _watch_gates:
    """records, for every gate_split_ of the run, whether the numerically determined orthogonality centre lies on the
    sites the gate acts on"""

    def __enter__(self):
        import quimb.tensor as qtn

        self.cls, self.orig, self.log = qtn.MatrixProductState, qtn.MatrixProductState.gate_split_, []
        log, orig = self.log, self.orig

        def wrapped(mps, U, where, **kw):
            lo, ro = mps.count_canonized()
            cmin, cmax = lo, mps.L - ro - 1
            log.append(dict(where=tuple(int(x) for x in where), centre=(int(cmin), int(cmax)),
                            on_sites=bool(cmin >= min(where) and cmax <= max(where))))
            return orig(mps, U, where, **kw)

        self.cls.gate_split_ = wrapped
        return self

    def __exit__(self, *exc):
        self.cls.gate_split_ = self.orig


def _replay_sweep(model):
    c = case_of_model(model)
    if not c:
        return dict(reproduced=False, note="no case marker in the model")
    imag, cyclic = c["imag"] == "True", c["cyclic"] == "True"
    queue, qs, direction = c["queue"] == "True", c["queued"], c["direction"]
    first = qs if (qs in ("right", "left") and (not queue or qs != direction)) else direction
    L = 6
    tebd = _native_tebd(L, cyclic, imag, centre=0 if first == "right" else L - 1)
    if qs == "none":
        tebd._queued_sweep = None
    elif qs in ("right", "left"):
        tebd._queued_sweep = [qs, 0.5]
    call = (f"TEBD(MPS_rand_state({L}, 4) canonicalized at {0 if first == 'right' else L - 1}, ham_1d_heis, dt=0.05, imag={imag}); "
            f"_queued_sweep={getattr(tebd, '_queued_sweep', '<absent>')}; sweep({direction!r}, 0.3, queue={queue})")
    with _watch_gates() as w:
        tebd.sweep(direction, 0.3, queue=queue)
    bad = [g for g in w.log if not g["on_sites"]]
    p = tebd.pt
    nrm = float(abs(p.H @ p) ** 0.5)
    obs = dict(gates=len(w.log), gates_with_centre_off_their_sites=bad[:4], norm_after=nrm,
               centre_after=[int(x) for x in tebd._pt.calc_current_orthog_center()])
    rep = bool(bad) or (imag and bool(w.log) and abs(nrm - 1) > 1e-8)
    return dict(call=call, observed=obs, reproduced=bool(rep and not cyclic))


def _replay_step(model):
    c = case_of_model(model)
    if not c:
        return dict(reproduced=False, note="no case marker in the model")
    order, pend = int(c["order"]), c["pending"]
    kw = {} if c["queue"] == "default" else {"queue": c["queue"] == "True"}
    queue = kw.get("queue", False)
    sched = [("right", "left")[k] for k, _ in spec_schedule(2, order)]
    first = pend if (pend != "none" and (not queue or pend != sched[0])) else sched[0]
    L = 6
    tebd = _native_tebd(L, False, False, centre=0 if first == "right" else L - 1)
    tebd._queued_sweep = None if pend == "none" else [pend, 0.5]
    dt = None if c["dt"] == "none" else 0.03
    call = (f"TEBD(MPS_rand_state({L}, 4) canonicalized at {0 if first == 'right' else L - 1}, ham_1d_heis, dt=0.05); "
            f"_queued_sweep={tebd._queued_sweep}; step(order={order}, dt={dt}, **{kw})")
    with _watch_gates() as w:
        tebd.step(order=order, dt=dt, **kw)
    bad = [g for g in w.log if not g["on_sites"]]
    return dict(call=call, observed=dict(gates=len(w.log), gates_with_centre_off_their_sites=len(bad), first=bad[:3]),
                reproduced=bool(bad))


def _replay_at_times(model):
    c = case_of_model(model)
    order = int(c.get("order", 4))
    L = 6
    tebd = _native_tebd(L, False, False, centre=0)
    call = f"TEBD(MPS_rand_state({L}, 4), ham_1d_heis, dt=0.05).at_times([0.1, 0.2, 0.3], order={order})"
    with _watch_gates() as w:
        for _ in tebd.at_times([0.1, 0.2, 0.3], order=order, progbar=False):
            pass
    bad = [g for g in w.log if not g["on_sites"]]
    return dict(call=call, observed=dict(gates=len(w.log), gates_with_centre_off_their_sites=len(bad), first=bad[:3]),
                reproduced=bool(bad))


Sweep.replay = lambda self, model: _replay_sweep(model)
Step.replay = lambda self, model: _replay_step(model)
AtTimes.replay = lambda self, model: _replay_at_times(model)
