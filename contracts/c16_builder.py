"""C16 -- worker partition of the term-operator kernels (quimb/operator/configcore.py, builder.py).

Contract on every kernel that takes (world_size, world_rank):

    requires  world_size >= 1, 0 <= world_rank < world_size
    ensures   the configurations visited by the rank loop of rank r form a set V(r, W) with
              (cover)     every configuration of the serial call (W = 1, r = 0) lies in some V(r, W), 0 <= r < W
              (sound)     V(r, W) is a subset of the serial set
              (disjoint)  V(r1, W) and V(r2, W) are disjoint for r1 != r2
    frame     world_rank / world_size occur nowhere but in that loop header (the loop body is the same function of the
              configuration index in every rank, so "parallel == serial" reduces to the three set obligations plus the
              order-independence of the gather, which is a COO concatenation / a sum of per-rank output vectors)

The loop header is read from the REAL source on every run (ast); its range arguments are translated to integer terms
(names other than world_rank / world_size are symbols: the extent D is whatever the code computes) and the three
obligations are discharged by z3 for all extents and all worker counts (integer div/mod by the symbolic worker count:
z3's nonlinear arithmetic, fast for these shapes).  A counterexample (extent, workers, configuration) is searched again
with the worker count fixed (then linear, a model is guaranteed when one exists in range) and replayed on the real
public entry point (build_coo_data / matvec with parallel=W against parallel=False).

The dispatchers (build_coo_numba_core, matvec_numba) get a pass-through obligation, the two submitting methods of
builder.py an obligation that exactly the ranks 0..world_size-1 are submitted with that world_size.

What the code is NOT checked for here: the loop body (C19), the thread pool, numba == python text.
Anything this reader does not understand is reported as `unknown` (undecided), never as failed.
"""
import ast
import os
import time

import z3

from vf import pyvc
from vf.framework import ObResult

CONFIG = "quimb/operator/configcore.py"
BUILDER = "quimb/operator/builder.py"
RANK, SIZE = "world_rank", "world_size"


class _Unknown(Exception):
    pass


def _src(rel):
    with open(os.path.join(pyvc.REPO, rel)) as f:
        return f.read()


def _term(node, env):
    """integer term of a range argument; env maps names to z3 terms"""
    if isinstance(node, ast.Constant) and isinstance(node.value, int) and not isinstance(node.value, bool):
        return z3.IntVal(node.value)
    if isinstance(node, ast.Name):
        if node.id not in env:
            env[node.id] = z3.Int(node.id)
        return env[node.id]
    if isinstance(node, ast.UnaryOp) and isinstance(node.op, ast.USub):
        return -_term(node.operand, env)
    if isinstance(node, ast.BinOp):
        a, b = _term(node.left, env), _term(node.right, env)
        if isinstance(node.op, ast.Add):
            return a + b
        if isinstance(node.op, ast.Sub):
            return a - b
        if isinstance(node.op, ast.Mult):
            return a * b
        if isinstance(node.op, ast.FloorDiv):
            return a / b  # z3 integer division == python floor division for a positive divisor (side condition below)
        if isinstance(node.op, ast.Mod):
            return a % b
    if isinstance(node, ast.Call) and isinstance(node.func, ast.Name) and node.func.id in ("min", "max") \
            and len(node.args) == 2 and not node.keywords:
        a, b = _term(node.args[0], env), _term(node.args[1], env)
        return z3.If(a <= b, a, b) if node.func.id == "min" else z3.If(a >= b, a, b)
    raise _Unknown(f"range argument not understood: {ast.unparse(node)}")


def _divisors(node, env, out):
    for n in ast.walk(node):
        if isinstance(n, ast.BinOp) and isinstance(n.op, (ast.FloorDiv, ast.Mod)):
            out.append(_term(n.right, env))


def _member(c, rng):
    a, b, s = rng
    return z3.And(a <= c, c < b, (c - a) % s == 0)


def _range_of(call, env):
    if not (isinstance(call, ast.Call) and isinstance(call.func, ast.Name) and call.func.id == "range"
            and not call.keywords and 1 <= len(call.args) <= 3):
        raise _Unknown(f"rank loop does not iterate over range(...): {ast.unparse(call)}")
    args = call.args
    if len(args) == 1:
        return z3.IntVal(0), _term(args[0], env), z3.IntVal(1)
    if len(args) == 2:
        return _term(args[0], env), _term(args[1], env), z3.IntVal(1)
    return _term(args[0], env), _term(args[1], env), _term(args[2], env)


def _mentions(node, names):
    return any(isinstance(n, ast.Name) and n.id in names for n in ast.walk(node))


def _check(hyp, goal, timeout_ms=20000):
    s = z3.Solver()
    s.set("timeout", timeout_ms)
    s.add(*hyp)
    s.add(z3.Not(goal))
    t = time.time()
    r = s.check()
    return r, s, time.time() - t


def _local_defs(fn, header, env_names):
    """straight-line integer assignments before the loop that define names used in the header in terms of
    world_rank / world_size (e.g. chunk = D // world_size): returned as equalities"""
    eqs = []
    for st in fn.body:
        if st is header:
            break
        if isinstance(st, ast.Assign) and len(st.targets) == 1 and isinstance(st.targets[0], ast.Name):
            eqs.append((st.targets[0].id, st.value))
    return eqs


def _kernel_obligations(fn, rel):
    """obligations of one kernel with (world_size, world_rank) parameters"""
    fname = f"{rel}::{fn.name}"
    res = []
    loops = [n for n in ast.walk(fn) if isinstance(n, ast.For) and _mentions(n.iter, {RANK, SIZE})]
    other = []
    for n in ast.walk(fn):
        if isinstance(n, ast.Name) and n.id in (RANK, SIZE):
            other.append(n)
    in_headers = {id(x) for lp in loops for x in ast.walk(lp.iter)}
    # names assigned from world_* before the loop are followed (one level of straight-line definitions)
    defs = {}
    for st in fn.body:
        if isinstance(st, ast.Assign) and len(st.targets) == 1 and isinstance(st.targets[0], ast.Name) \
                and _mentions(st.value, {RANK, SIZE}):
            defs[st.targets[0].id] = st.value
            in_headers.update(id(x) for x in ast.walk(st.value))
    loops += [n for n in ast.walk(fn) if isinstance(n, ast.For) and n not in loops and _mentions(n.iter, set(defs))]
    stray = [n for n in other if id(n) not in in_headers]
    t0 = time.time()
    res.append(ObResult(f"{fname}::frame:rank-only-in-loop-header", "frame",
                        "discharged" if not stray else "unknown", "ast", time.time() - t0, function=fname,
                        line=stray[0].lineno if stray else fn.lineno,
                        detail=None if not stray else
                        f"{RANK}/{SIZE} also used at line {stray[0].lineno}: body may depend on the rank (not decided here)",
                        engine="E4"))
    if len(loops) != 1:
        res.append(ObResult(f"{fname}::partition:shape", "partition", "unknown", "ast", 0.0, function=fname, line=fn.lineno,
                            detail=f"{len(loops)} loops over the rank (expected exactly one)", engine="E1"))
        return res
    lp = loops[0]

    def ranges(rank, size, tag):
        env = {RANK: rank, SIZE: size}
        side = []
        # local definitions in terms of rank/size are inlined by name with a per-instance symbol
        for name, val in defs.items():
            env[name] = _term(val, env)
            _divisors(val, env, side)
        rng = _range_of(lp.iter, env)
        for a in lp.iter.args:
            _divisors(a, env, side)
        return rng, env, side

    try:
        W = z3.Int("W")
        r1, r2, c = z3.Ints("r1 r2 c")
        (ser, env0, side0) = ranges(z3.IntVal(0), z3.IntVal(1), "ser")
        (rg1, env1, side1) = ranges(r1, W, "r1")
        (rg2, env2, side2) = ranges(r2, W, "r2")
        witness_terms = [c % W, (c - ser[0]) % W, c / z3.If(W >= 1, W, 1)]
    except _Unknown as e:
        res.append(ObResult(f"{fname}::partition:shape", "partition", "unknown", "ast", 0.0, function=fname, line=lp.lineno,
                            detail=str(e), engine="E1"))
        return res
    # contiguous-chunk partitions: the rank that owns c is c div chunk for any rank-independent local definition
    for name, val in defs.items():
        if not _mentions(val, {RANK}):
            try:
                dv = _term(val, {SIZE: W, **{k: v for k, v in env1.items() if k not in (RANK, SIZE, name)}})
                witness_terms.append(c / z3.If(dv >= 1, dv, 1))
            except _Unknown:
                pass
    base = [W >= 1]
    # every loop step must be positive for the membership encoding; div/mod divisors positive
    obl = {}
    obl["step-positive"] = ([0 <= r1, r1 < W], z3.And(rg1[2] >= 1, *[d >= 1 for d in side1]))
    obl["sound"] = ([0 <= r1, r1 < W, rg1[2] >= 1, _member(c, rg1)], _member(c, ser))
    obl["disjoint"] = ([0 <= r1, r1 < W, 0 <= r2, r2 < W, rg1[2] >= 1, rg2[2] >= 1, _member(c, rg1), _member(c, rg2)], r1 == r2)
    for label, (hyp, goal) in obl.items():
        r, s, dt = _check(base + hyp, goal)
        res.append(_result(fname, fn, lp, label, r, s, dt, [c, W, r1, r2], env1))
    # cover: exists a rank -- tried with the witnesses c mod W (cyclic) and, for contiguous chunks, a rank computed
    # from any local chunk definition; failing that, decided for fixed worker counts
    t = time.time()
    proved = False
    for wt in witness_terms:
        sub = [(r1, wt)]
        rgw = tuple(z3.substitute(x, *sub) for x in rg1)
        r, s, _ = _check(base + [_member(c, ser)], z3.And(0 <= wt, wt < W, rgw[2] >= 1, _member(c, rgw)), 10000)
        if r == z3.unsat:
            proved = True
            break
    if proved:
        res.append(ObResult(f"{fname}::partition:cover", "partition", "discharged", "z3", time.time() - t, function=fname,
                            line=lp.lineno, engine="E1"))
    else:
        res.append(_cover_fixed_W(fname, fn, lp, ser, rg1, r1, W, c, time.time() - t))
    return res


def _model_dict(m, syms):
    out = {}
    for sym in syms:
        v = m.eval(sym, model_completion=True)
        try:
            out[str(sym)] = v.as_long()
        except Exception:  # noqa
            out[str(sym)] = str(v)
    for d in m.decls():
        if d.name() not in out and d.arity() == 0:
            try:
                out[d.name()] = m[d].as_long()
            except Exception:  # noqa
                pass
    return out


def _result(fname, fn, lp, label, r, s, dt, syms, env):
    oid = f"{fname}::partition:{label}"
    if r == z3.unsat:
        return ObResult(oid, "partition", "discharged", "z3", dt, function=fname, line=lp.lineno, engine="E1")
    if r == z3.sat:
        model = _model_dict(s.model(), syms)
        model["loop_header"] = ast.unparse(lp.iter)
        model["native_replay"] = _native_replay(fn.name, model)
        return ObResult(oid, "partition", "failed", "z3", dt, function=fname, line=lp.lineno, model=model, engine="E1")
    return ObResult(oid, "partition", "unknown", "z3", dt, function=fname, line=lp.lineno,
                    detail="solver returned unknown", engine="E1")


def _cover_fixed_W(fname, fn, lp, ser, rg1, r1, W, c, spent):
    """no witness proved the cover: decide it for fixed worker counts 1..17 (linear; complete for those counts)"""
    oid = f"{fname}::partition:cover"
    t = time.time()
    for w in range(1, 18):
        neg = []
        for r in range(w):
            rg = tuple(z3.substitute(x, (r1, z3.IntVal(r)), (W, z3.IntVal(w))) for x in rg1)
            neg.append(z3.Not(z3.And(rg[2] >= 1, _member(c, rg))))
        s = z3.Solver()
        s.set("timeout", 10000)
        s.add(_member(c, ser), *neg)
        r = s.check()
        if r == z3.sat:
            model = _model_dict(s.model(), [c])
            model["W"] = w
            model["loop_header"] = ast.unparse(lp.iter)
            model["meaning"] = f"configuration c={model.get('c')} of the serial loop is visited by none of the {w} ranks"
            model["native_replay"] = _native_replay(fn.name, model)
            return ObResult(oid, "partition", "failed", "z3", spent + time.time() - t, function=fname, line=lp.lineno,
                            model=model, engine="E1")
        if r != z3.unsat:
            return ObResult(oid, "partition", "unknown", "z3", spent + time.time() - t, function=fname, line=lp.lineno,
                            detail=f"solver unknown at worker count {w}", engine="E1")
    return ObResult(oid, "partition", "unknown", "z3", spent + time.time() - t, function=fname, line=lp.lineno,
                    detail="cover holds for worker counts 1..17 (bounded) but no general witness was found", engine="E1")


_SYM = {"nosymm": ("none", None), "z2": ("Z2", None), "u1": ("U1", None), "u1u1": ("U1U1", None)}


def _native_replay(kernel_name, model):
    """replay on the real public entry point: smallest operator / worker count on which parallel != serial.
    Runs in a forked child (numba compile, possible crash)."""
    from vf import rtc

    if os.environ.get("VERIF_NO_NATIVE_REPLAY"):
        return dict(reproduced=False, note="native replay switched off (selftest)")
    kind = None
    for suf, (k, _) in _SYM.items():
        if kernel_name.endswith("_" + suf):
            kind = k
    if kind is None:
        return dict(reproduced=False, note="kernel name not mapped to a public entry point")
    want_w = model.get("W") if isinstance(model.get("W"), int) else None

    def run():
        import numpy as np
        import quimb.operator as qo
        from drivers.c16 import _term_operator

        ws = [w for w in ([want_w] if want_w else []) + [2, 3, 5, 4, 7, 1, 17] if w and 1 <= w <= 64]
        for n in range(1, 6):
            if kind == "none":
                kws = [{}]
            elif kind == "Z2":
                kws = [dict(sector=p, symmetry="Z2") for p in (0, 1)]
            elif kind == "U1":
                kws = [dict(sector=k, symmetry="U1") for k in range(n + 1)]
            else:
                if n < 2:
                    continue
                na = (n + 1) // 2
                kws = [dict(sector=((na, ka), (n - na, kb)), symmetry="U1U1") for ka in range(na + 1) for kb in range(n - na + 1)]
            for kw in kws:
                H = _term_operator(qo, n, kind, np.random.default_rng(5))
                try:
                    A = H.build_sparse_matrix(parallel=False, **kw).toarray()
                    x = np.random.default_rng(6).normal(size=A.shape[0]).astype(A.dtype)
                    y0 = H.matvec(x, parallel=False, **kw)
                except Exception as e:  # noqa: the kernels are total on these inputs in the unchanged tree
                    return dict(reproduced=True, sites=n, symmetry=kind, sector=str(kw.get("sector")), workers=0,
                                call=f"build_sparse_matrix / matvec(parallel=False, {kw})",
                                observed=f"the serial call itself raises {type(e).__name__}: {e}"[:300],
                                operator="drivers.c16._term_operator(quimb.operator, n, kind, default_rng(5))")
                for w in ws:
                    observed = "differs from the same call with parallel=False"
                    try:
                        if kernel_name.startswith("matvec"):
                            call = f"matvec(x, parallel={w}, {kw})"
                            y = H.matvec(x, parallel=w, **kw)
                            bad = y.shape != y0.shape or not np.allclose(y, y0, rtol=1e-12, atol=1e-12)
                        else:
                            call = f"build_sparse_matrix(parallel={w}, {kw})"
                            B = H.build_sparse_matrix(parallel=w, **kw).toarray()
                            bad = B.shape != A.shape or not np.allclose(A, B, rtol=1e-12, atol=1e-12)
                    except Exception as e:  # noqa: the serial call above succeeded on the same input
                        bad, observed = True, f"raises {type(e).__name__}: {e}"[:200] + " (the call with parallel=False succeeds)"
                    if bad:
                        return dict(reproduced=True, sites=n, symmetry=kind, sector=str(kw.get("sector")), workers=w,
                                    call=call, observed=observed,
                                    operator="drivers.c16._term_operator(quimb.operator, n, kind, default_rng(5))")
        return dict(reproduced=False, note="no difference on 1..5 sites with 1..17 workers")

    try:
        r = rtc.run_isolated(run, timeout=300)
    except Exception as e:  # noqa
        return dict(reproduced=False, note=f"replay failed to run: {e!r}")
    if r[0] == "ok" and isinstance(r[1], dict):
        return r[1]
    return dict(reproduced=False, note=f"replay child: {r!r}"[:300])


def _dispatcher_obligations(fn, rel, kernels):
    """a function with world_* parameters and no rank loop: each call of a kernel must pass both on unchanged"""
    fname = f"{rel}::{fn.name}"
    res = []
    ncalls = 0
    for n in ast.walk(fn):
        if isinstance(n, ast.Call) and isinstance(n.func, ast.Name) and n.func.id in kernels:
            ncalls += 1
            callee = kernels[n.func.id]
            params = [a.arg for a in callee.args.args]
            bound = {}
            for i, a in enumerate(n.args):
                if i < len(params):
                    bound[params[i]] = a
            for k in n.keywords:
                if k.arg:
                    bound[k.arg] = k.value
            ok = all(isinstance(bound.get(p), ast.Name) and bound[p].id == p for p in (RANK, SIZE))
            res.append(ObResult(f"{fname}::pass-through:{n.func.id}@{n.lineno}", "call-pre",
                                "discharged" if ok else "failed", "ast", 0.0, function=fname, line=n.lineno,
                                model=None if ok else dict(
                                    call=ast.unparse(n)[:200],
                                    meaning=f"{RANK}/{SIZE} are not handed to {n.func.id} unchanged: every rank would do "
                                            f"the work of the callee's defaults (or of another rank)",
                                    native_replay=_native_replay(n.func.id, {})),
                                engine="E4"))
    if ncalls == 0:
        res.append(ObResult(f"{fname}::pass-through:shape", "call-pre", "unknown", "ast", 0.0, function=fname, line=fn.lineno,
                            detail="takes world_rank/world_size but neither loops over them nor calls a kernel", engine="E4"))
    return res


def _submit_obligations(tree, rel):
    """builder.py: the methods that submit one task per rank"""
    res = []
    for cls in [n for n in tree.body if isinstance(n, ast.ClassDef)]:
        for fn in [n for n in cls.body if isinstance(n, ast.FunctionDef)]:
            comps = [n for n in ast.walk(fn) if isinstance(n, (ast.ListComp, ast.GeneratorExp))
                     and any(isinstance(c, ast.Call) and any(k.arg == RANK for k in c.keywords) for c in ast.walk(n.elt))]
            for comp in comps:
                fname = f"{rel}::{cls.name}.{fn.name}"
                oid = f"{fname}::ranks-submitted@{comp.lineno}"
                call = [c for c in ast.walk(comp.elt) if isinstance(c, ast.Call) and any(k.arg == RANK for k in c.keywords)][0]
                kw = {k.arg: k.value for k in call.keywords if k.arg}
                gen = comp.generators[0] if len(comp.generators) == 1 else None
                try:
                    if gen is None or gen.ifs or not isinstance(gen.target, ast.Name):
                        raise _Unknown("comprehension shape not understood")
                    W = z3.Int("W")
                    i = z3.Int(gen.target.id)
                    if SIZE not in kw:
                        raise _Unknown(f"no {SIZE}= keyword")
                    # the worker count is the name bound from get_pool_and_world_size(...) in this method
                    wname = None
                    for st in ast.walk(fn):
                        if isinstance(st, ast.Assign) and isinstance(st.value, ast.Call) \
                                and getattr(st.value.func, "id", None) == "get_pool_and_world_size" \
                                and isinstance(st.targets[0], ast.Tuple) and len(st.targets[0].elts) == 2 \
                                and isinstance(st.targets[0].elts[1], ast.Name):
                            wname = st.targets[0].elts[1].id
                    if wname is None:
                        raise _Unknown("worker count is not taken from get_pool_and_world_size")
                    env = {wname: W, gen.target.id: i}
                    for part in (kw[SIZE], kw[RANK], gen.iter):
                        free = {n.id for n in ast.walk(part) if isinstance(n, ast.Name)} - set(env) - {"range", "min", "max"}
                        if free:
                            raise _Unknown(f"names not understood in {ast.unparse(part)}: {sorted(free)}")
                    rng = _range_of(gen.iter, dict(env))
                    rank_t = _term(kw[RANK], dict(env))
                    size_t = _term(kw[SIZE], dict(env))
                    r = z3.Int("r")
                    # submitted ranks {rank_t(i) : i in range} == [0, W) each once, with world_size == W
                    hyp = [W >= 1]
                    goals = {
                        "size": size_t == W,
                        "ranks-in-range": z3.Implies(z3.And(rng[2] >= 1, _member(i, rng)), z3.And(0 <= rank_t, rank_t < W)),
                    }
                    st = "discharged"
                    model = None
                    t = time.time()
                    for lab, g in goals.items():
                        rr, s, _ = _check(hyp, g)
                        if rr == z3.sat:
                            st, model = "failed", dict(_model_dict(s.model(), [W, i]), clause=lab, comprehension=ast.unparse(comp)[:300])
                            break
                        if rr != z3.unsat:
                            st = "unknown"
                    if st == "discharged":
                        # every rank r in [0,W) is submitted exactly once: with the identity rank map this is
                        # range == [0, W); other maps are left undecided
                        if isinstance(kw[RANK], ast.Name) and kw[RANK].id == gen.target.id:
                            rr, s, _ = _check(hyp + [0 <= r, r < W], z3.And(rng[2] >= 1, _member(r, rng)))
                            if rr == z3.sat:
                                st, model = "failed", dict(_model_dict(s.model(), [W, r]), clause="every-rank-submitted",
                                                           meaning="rank r is never submitted",
                                                           comprehension=ast.unparse(comp)[:300])
                            elif rr != z3.unsat:
                                st = "unknown"
                        else:
                            st = "unknown"
                    if st == "failed":
                        model["native_replay"] = _native_replay(
                            "matvec_nosymm" if "matvec" in fn.name else "build_coo_numba_core_nosymm", model)
                    res.append(ObResult(oid, "partition", st, "z3", time.time() - t, function=fname, line=comp.lineno,
                                        model=model, engine="E1"))
                except _Unknown as e:
                    res.append(ObResult(oid, "partition", "unknown", "ast", 0.0, function=fname, line=comp.lineno,
                                        detail=str(e), engine="E1"))
    return res


def provider(tier):
    res = []
    tree = ast.parse(_src(CONFIG))
    fns = [n for n in tree.body if isinstance(n, ast.FunctionDef)
           and {RANK, SIZE} <= {a.arg for a in n.args.args + n.args.kwonlyargs}]
    kernels = {}
    for fn in fns:
        if any(isinstance(n, ast.For) and _mentions(n.iter, {RANK, SIZE}) for n in ast.walk(fn)) or \
                any(isinstance(n, ast.Assign) and _mentions(n.value, {RANK, SIZE}) for n in ast.walk(fn)):
            kernels[fn.name] = fn
    for fn in fns:
        if fn.name in kernels:
            res += _kernel_obligations(fn, CONFIG)
        else:
            res += _dispatcher_obligations(fn, CONFIG, {**kernels, **{f.name: f for f in fns}})
    res += _submit_obligations(ast.parse(_src(BUILDER)), BUILDER)
    if len([r for r in res if r.kind == "partition"]) < 8:
        res.append(ObResult(f"{CONFIG}::<module>::partition:kernels-found", "partition", "unknown", "ast", 0.0,
                            function=f"{CONFIG}::<module>", detail="fewer rank-partitioned kernels found than expected (vacuity guard)",
                            engine="E1"))
    return res
