from contracts.index import entry_extend

entry_extend(
    "C09", modules=["contracts.c09_ext"],
    E1=[], LEMMAS=False,
    PROVIDERS=["contracts.c09_ext.provider_dispatch", "contracts.c09_ext.provider_threading",
               "contracts.c09_ext.provider_cyclic", "contracts.c09_ext.provider_sum"],
    TRUSTED=[
        "provider_dispatch executes the REAL ast of _TN1D_COMPRESS_METHODS and tensor_network_1d_compress (compiled unchanged, "
        "annotations unevaluated) in a namespace of recording stubs: the method functions themselves are NOT executed there; "
        "python's semantics of dict.get, keyword passing and functools.partial",
        "NAMING RULE used as the specification of the dispatch table: method key k -> module-level name "
        "'tensor_network_1d_compress_' + k with '-' -> '_', and the documented alias '<m>-first' == '<m>-oversample'",
        "provider_threading is a path-insensitive syntactic analysis of the real ast of quimb/tensor/tn1d/compress.py: what the "
        "callees (Tensor.split, compress_between, TN_matching, ...) do with the options they receive is outside it (C05 / the "
        "C09 sweep contracts); declared special cases are the tables STAGED, GUESS_STAGE, GUESS_SPEC_CARRIER, "
        "CONDITIONAL_CARRIER in contracts/c09_ext.py",
        "provider_cyclic runs the E1 engine (vf.pyvc.verify on the real ast) with contracts that are NOT in the engine's registry "
        "(one contract per target there: the open-boundary ones of contracts/c10_sweeps.py); leaf [TensorNetwork1D.site_tag takes "
        "integer sites modulo L; checked natively: p[-1] is site L-1, p[L] is site 0]: on a periodic chain left_compress_site(i) "
        "compresses the bond between sites i and i+1 mod L (-1 <= i <= L-2), right_compress_site(i) the one between i-1 and i mod L "
        "(1 <= i <= L), each with the options it receives; leaf: left_/right_canonize compress nothing; compress uses the PROVED post-condition "
        "of the periodic sweeps (stated from a zero counter) relative to the current counter -- the leaf effect is additive; SKOLEM BOND: every "
        "obligation is stated for one arbitrary bond k of the ring (k = L-1 is the closing bond)",
        "provider_sum (e2, sympy) compiles the REAL FunctionDef of tnag/core.py::tensor_network_ag_sum unchanged and runs it on "
        "recording stand-ins (chains of 1-3 sites; create_lazy_edge_map, Tensor.reindex / negate_ / modify(apply=) / "
        "direct_product_, TensorNetwork.copy / compress are stand-ins with their documented effect: reindex returns a new "
        "tensor, negate_ flips the sign of the data, modify(apply=f) replaces the data by f(data), copy keeps the stored "
        "exponent); DENOTATION: a network stands for 10^exponent * product of its site tensors and the site-wise direct sum "
        "stands for the sum of the two products; sympy decides log10(sign * f) - (eb - ea) == 0 for real symbols ea, eb; on "
        "concrete float exponents the same identity is checked to 1e-9 (double rounding of 10**x)",
    ],
    ASSUMPTIONS=[
        "tensor_network_ag_sum: exponents real symbols / equal / 0 and 0.0 (an unset exponent IS 0.0: TensorNetwork.__init__ "
        "stores 0.0, the attribute is never None) / concrete floats; negate x inplace x compress x 1-3 sites exhaustively",
        "periodic sweeps: cyclic=True, L >= 2 symbolic, bra=None, start=None, stop None | int inside the ring; options none | "
        "{max_bond, cutoff} symbolic; compress: form None | 'left' | 'right' | 'flat' | int centre 0 <= c < L (both sides of "
        "L // 2); the canonical form promised for a periodic chain is NOT claimed (only which bonds are compressed, how often, "
        "and with which options)",
        "dispatcher domain: method in keys of the real table + every name its docstring documents (+ 9 names outside the "
        "table incl. near misses and None for the generic route) x canonize x sweep_reverse x inplace in {True, False} x "
        "equalize_norms in {False, True, 1.0} x permute_arrays in {True, False, 'lrp'} x extra **kwargs present / absent; every "
        "other argument is an opaque object compared by identity",
        "threading: options tracked = max_bond, cutoff, cutoff_mode; NOT covered (no obligation emitted): "
        "tensor_network_1d_compress_fit max_bond / cutoff (bond-dimension schedule, None defaults) and "
        "mps_gate_with_mpo_autofit (no truncating leaf)",
    ],
    BOUNDED_FOR={},
    EXPLANATION="(extension) The 1D compression dispatcher is decided on its complete finite domain (every method key and "
                "alias reaches the method function the naming rule promises with every option unchanged; names outside the "
                "table go to the arbitrary-geometry compressor), and max_bond / cutoff / cutoff_mode are shown, on the real "
                "ast of every function of tn1d/compress.py that declares them, to reach every truncating leaf unchanged "
                "(two-stage methods: the oversampling cap only in the first stage, the caller's cap in the final direct sweep). On PERIODIC chains of symbolic length, left_compress / right_compress "
                "/ compress hand every bond of the ring -- the closing bond included -- to exactly one compression call (form "
                "'flat': the closing bond to two) with the caller's max_bond / cutoff unchanged, for every form and centre. The sum of two networks "
                "with stored exponents ea, eb keeps er = ea and scales exactly one tensor of B by +/- 10^(eb - ea), for all real "
                "exponents (sympy).")
