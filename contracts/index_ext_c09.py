from contracts.index import entry_extend

entry_extend(
    "C09", modules=["contracts.c09_ext"],
    E1=[], LEMMAS=False,
    PROVIDERS=["contracts.c09_ext.provider_dispatch", "contracts.c09_ext.provider_threading"],
    TRUSTED=[
        "provider_dispatch executes the REAL ast of _TN1D_COMPRESS_METHODS and tensor_network_1d_compress (compiled unchanged, "
        "annotations unevaluated) in a namespace of recording stubs: the method functions themselves are NOT executed there; "
        "python's semantics of dict.get, keyword passing and functools.partial",
        "NAMING RULE used as the specification of the dispatch table: method key k -> module-level name "
        "'tensor_network_1d_compress_' + k with '-' -> '_', and the documented alias '<m>-first' == '<m>-oversample'",
        "provider_threading is a path-insensitive syntactic analysis of the real ast of quimb/tensor/tn1d/compress.py: what the "
        "callees (Tensor.split, compress_between, TN_matching, ...) do with the options they receive is outside it (C05 / the "
        "C09 sweep contracts); declared special cases are the tables STAGED, GUESS_STAGE, GUESS_SPEC_CARRIER, "
        "CONDITIONAL_CARRIER in contracts/c09_ext.py",
    ],
    ASSUMPTIONS=[
        "dispatcher domain: method in keys of the real table + every name its docstring documents (+ 9 names outside the "
        "table incl. near misses and None for the generic route) x canonize x sweep_reverse x inplace in {True, False} x "
        "equalize_norms in {False, True, 1.0} x permute_arrays in {True, False, 'lrp'} x extra **kwargs present / absent; every "
        "other argument is an opaque object compared by identity",
        "threading: options tracked = max_bond, cutoff, cutoff_mode; NOT covered (no obligation emitted): "
        "tensor_network_1d_compress_fit max_bond / cutoff (bond-dimension schedule, None defaults) and "
        "mps_gate_with_mpo_autofit (no truncating leaf)",
    ],
    BOUNDED_FOR={},
    EXPLANATION="(extension) The 1D compression dispatcher is decided on its complete finite domain (every method key and "
                "alias reaches the method function the naming rule promises with every option unchanged; names outside the "
                "table go to the arbitrary-geometry compressor), and max_bond / cutoff / cutoff_mode are shown, on the real "
                "ast of every function of tn1d/compress.py that declares them, to reach every truncating leaf unchanged "
                "(two-stage methods: the oversampling cap only in the first stage, the caller's cap in the final direct sweep).")
