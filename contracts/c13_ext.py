"""C13 extension: option threading, dispatch and normalisation bookkeeping of the local-expectation routes.

Technique (provider obligations, kinds `fdx` / `e2`): on EVERY run the source file is re-read from the checkout, the
ast node of the REAL function is cut out and compiled UNCHANGED (no paraphrase, no decorator on any target) and
executed natively on every element of its finite option domain.  Callees that are numerics (contraction,
canonicalisation, cluster selection) are recording stubs; operators, sites and option values are opaque tokens
(the code cannot inspect them, so the result is parametric in them); per-term values are sympy symbols, so sums /
products / quotients are compared as exact rational functions.  The helpers `_compute_expecs_maybe_in_parallel`,
`_tn_local_expectation_*` and `_combine_expansion_expectations` are themselves the real source whenever a wrapper is
run (the whole chain wrapper -> helper -> trampoline -> per-term method is real code).
"""
import ast
import builtins
import functools
import inspect
import itertools
import numbers
import operator
import os
import time

import sympy as sp

import vf.pyvc as P
from vf.framework import ObResult

ROOT = None          # set by the selftest to a scratch tree holding ONE mutated file
AG = "quimb/tensor/tnag/core.py"
T1 = "quimb/tensor/tn1d/core.py"


def _path(rel):
    if ROOT and os.path.exists(os.path.join(ROOT, rel)):
        return os.path.join(ROOT, rel)
    return os.path.join(P.REPO, rel)


_TREES = {}


def _tree(rel):
    p = _path(rel)
    key = (p, os.path.getmtime(p), os.path.getsize(p))
    if _TREES.get(rel, (None,))[0] != key:
        _TREES[rel] = (key, ast.parse(open(p).read()))
    return _TREES[rel][1]


def real(rel, qual, glob, share=False):
    """compile the ast of the real function `qual` of file `rel` unchanged; free names resolve in `glob`"""
    body, node = _tree(rel).body, None
    parts = qual.split(".")
    for i, p in enumerate(parts):
        kinds = (ast.ClassDef,) if i < len(parts) - 1 else (ast.FunctionDef,)
        node = next(n for n in body if isinstance(n, kinds) and n.name == p)
        body = node.body
    assert not node.decorator_list, f"{qual}: decorated target (the harness executes undecorated source only)"
    ns = glob if share else dict(glob)
    ns.setdefault("TensorNetworkGenVector", object)      # used in annotations only
    exec(compile(ast.Module(body=[node], type_ignores=[]), _path(rel), "exec"), ns)
    return ns[parts[-1]]


class Tok:
    """opaque value: hashable, comparable by identity only"""

    def __init__(self, name):
        self.name = name

    def __repr__(self):
        return f"<{self.name}>"


class Rec:
    """recording stand-in for a tensor network: every method call is logged; results come from `script`"""

    def __init__(self, name, log=None, script=None, **attrs):
        self.__dict__.update(_name=name, _log=[] if log is None else log, _script=script or {}, **attrs)

    def __repr__(self):
        return f"<{self._name}>"

    def __getattr__(self, meth):
        if meth.startswith("__"):
            raise AttributeError(meth)

        def call(*a, **k):
            self._log.append((self, meth, a, k))
            r = self._script.get(meth)
            return r(self, *a, **k) if callable(r) else r
        return call

    def __truediv__(self, other):
        self._log.append((self, "__truediv__", (other,), {}))
        return self._script["__truediv__"]


def _progbar(it, total=None):
    return it


def _ag_globals(**extra):
    g = dict(functools=functools, add=operator.add, mul=operator.mul, Progbar=_progbar, operator=operator,
             Integral=numbers.Integral, itertools=itertools)
    for nm in ("_compute_expecs_maybe_in_parallel", "_tn_local_expectation", "_tn_local_expectation_cluster",
               "_tn_local_expectation_exact", "_tn_local_expectation_sloop_expand",
               "_tn_local_expectation_gloop_expand"):
        g[nm] = None
    g.update(extra)
    # the helpers are the real source too and see each other (one shared namespace)
    for nm in [k for k, v in g.items() if v is None]:
        real(AG, nm, g, share=True)
    return g


class _Obs:
    def __init__(self):
        self.out = []

    def run(self, rel, qual, label, kind, fn):
        """fn() -> None when the post-condition holds on the whole domain, else a counterexample dict"""
        t0 = time.time()
        try:
            cex = fn()
            status = "discharged" if cex is None else "failed"
        except Exception as e:  # the real function raised on an input of its domain: a violation with that input
            import traceback
            cex, status = dict(raised=f"{type(e).__name__}: {e}", where=traceback.format_exc()[-400:]), "failed"
        self.out.append(ObResult(id=f"{rel}::{qual}::{label}", kind=kind, status=status,
                                 backend="sympy" if kind == "e2" else "exhaustive", solver_s=time.time() - t0,
                                 function=f"{rel}::{qual}", model=None if cex is None else {k: repr(v)[:300] for k, v in cex.items()},
                                 engine=kind))


def _bools(*names):
    return [dict(zip(names, v)) for v in itertools.product([False, True], repeat=len(names))]


# ------------------------------------------------------------------ _combine_expansion_expectations (e2)
def _spec_combine(combine, normalized, e, n, C):
    """C13: cluster values e_i, cluster norms n_i, counting numbers C_i.  Returns the expected value or ValueError"""
    if normalized == "prod":
        combine, normalized = "prod", True
    if combine == "prod":
        v = sp.Mul(*[x ** c for x, c in zip(e, C)])
        return v * sp.Mul(*[x ** (-c) for x, c in zip(n, C)]) if normalized else v
    if combine == "sum":
        if normalized is True or normalized == "local":
            return sum(c * x / y for c, x, y in zip(C, e, n))
        if normalized == "separate":
            return sum(c * x for c, x in zip(C, e)) / sum(c * y for c, y in zip(C, n))
        if not normalized:
            return sum(c * x for c, x in zip(C, e))
    return ValueError


def _clc(vals):            # TRUSTED leaf: combine_local_contractions(values) = prod v ** p
    return sp.Mul(*[v ** p for v, p in vals])


def _imp(name, globals=None, locals=None, fromlist=(), level=0):
    if level and name == "belief_propagation":
        return Tok.__class__("ns", (), dict(combine_local_contractions=staticmethod(_clc)))
    return builtins.__import__(name, globals, locals, fromlist, level)


def _combine_fn():
    bi = dict(vars(builtins), __import__=_imp)
    return real(AG, "_combine_expansion_expectations", dict(__builtins__=bi, __package__="quimb.tensor.tnag",
                                                            __name__="quimb.tensor.tnag.core"))


_COMB, _NORM = ["prod", "sum", "mean"], [True, False, "local", "separate", "prod", "global"]


def _ob_combine(which):
    def go():
        f = _combine_fn()
        for m in (1, 2, 3):
            e, n = sp.symbols(f"e0:{m}"), sp.symbols(f"n0:{m}", positive=True)
            C = sp.symbols(f"C0:{m}", integer=True)
            for combine, normalized in itertools.product(_COMB, _NORM):
                want = _spec_combine(combine, normalized, e, n, C)
                if which == "whole" and (m != 1 or want is ValueError):
                    continue
                try:
                    got = f(list(e), list(C), list(n), combine=combine, normalized=normalized)
                except ValueError:
                    got = ValueError
                inp = dict(combine=combine, normalized=normalized, clusters=m, got=got)
                if which == "whole":
                    # a cluster spanning the whole network (count 1): <G>/<1> if normalised in any way, else <G>
                    want = (e[0] / n[0]) if normalized else e[0]
                    got = got.subs(C[0], 1) if got is not ValueError else got
                    inp["want"] = want
                    if got is ValueError or sp.simplify(got - want) != 0:
                        return inp
                    continue
                inp["want"] = want
                if (want is ValueError) != (got is ValueError):
                    return inp
                if want is not ValueError and sp.simplify(got - want) != 0:
                    return inp
    return go


# ------------------------------------------------------------------ _compute_expecs_maybe_in_parallel (fdx)
class _Fut:
    def __init__(self, v):
        self.v = v

    def result(self):
        return self.v


class _Exec:
    def __init__(self, log):
        self.log = log

    def submit(self, fn, *a, **k):
        return _Fut(fn(*a, **k))


class _ExecScatter(_Exec):
    def scatter(self, tn):
        self.log.append(("scatter", tn))
        self.scattered = Rec("scattered-tn")
        return self.scattered


class _Items:
    def __init__(self, d):
        self.d = d

    def items(self):
        return self.d.items()

    def keys(self):
        return self.d.keys()

    def __len__(self):
        return len(self.d)


def _terms(m):
    wh = [Tok("site0"), (Tok("site1"), Tok("site2")), (Tok("site3"), Tok("site0"), Tok("site2"))][:m]
    return {w: Tok(f"G{i}") for i, w in enumerate(wh)}


def _ob_helper(which):
    def go():
        g = _ag_globals()
        f = g["_compute_expecs_maybe_in_parallel"]
        for m, as_dict, return_all, rehearse, ex, progbar in itertools.product(
                (1, 2, 3), (True, False), (False, True), ("absent", False, True, "tn", "tree"), (0, 1, 2), (False, True)):
            terms, calls, log = _terms(m), [], []
            vals = sp.symbols(f"r0:{m}")

            def fn(tn_, G, where, **kw):
                calls.append((tn_, G, where, kw))
                return vals[len(calls) - 1]
            tn = Rec("tn")
            executor = [None, _Exec(log), _ExecScatter(log)][ex]
            kw = dict(opt_a=Tok("a"), opt_b=Tok("b"))
            if rehearse != "absent":
                kw["rehearse"] = rehearse
            got = f(fn=fn, tn=tn, terms=terms if as_dict else _Items(terms), return_all=return_all, executor=executor,
                    progbar=progbar, **kw)
            inp = dict(n_terms=m, terms_is_dict=as_dict, return_all=return_all, rehearse=rehearse, executor=ex,
                       progbar=progbar, got=got, calls=calls)
            want_tn = executor.scattered if ex == 2 else tn
            if which == "each-term-once-own-operator-own-sites":
                if len(calls) != m:
                    return inp
                for (t_, G, where, k_), (w, Gw) in zip(calls, terms.items()):
                    if t_ is not want_tn or G is not Gw or where is not w or k_ != kw:
                        return inp
            else:
                if return_all or (rehearse not in ("absent", False)):
                    if not isinstance(got, dict) or list(got.items()) != list(zip(terms.keys(), vals)):
                        return inp
                elif isinstance(got, dict) or sp.simplify(got - sum(vals)) != 0:
                    return inp
    return go


def _ob_trampoline(nm, meth):
    def go():
        f = real(AG, nm, {})
        for extra in ((), (Tok("x"),)):
            log = []
            ret = Tok("ret")
            tn = Rec("tn", log, {meth: ret})
            G, w, kw = Tok("G"), Tok("where"), dict(normalized=Tok("n"), other=Tok("o"))
            got = f(tn, G, w, *extra, **kw)
            if got is not ret or len(log) != 1 or log[0][1] != meth or log[0][2] != (G, w) + extra or log[0][3] != kw:
                return dict(got=got, log=log)
    return go


# ------------------------------------------------------------------ compute_* wrappers: every option reaches every term
_NOT_THREADED = {"self", "terms", "return_all", "executor", "progbar"}


def _sig_opts(f):
    sig = inspect.signature(f)
    named = [p.name for p in sig.parameters.values() if p.kind is not p.VAR_KEYWORD and p.name not in _NOT_THREADED]
    return sig, named


def _ob_wrapper(qual, meth, special=()):
    """real wrapper + real helper + real trampoline: each term -> ONE call self.<meth>(G_i, where_i, every option of
    the wrapper under its own name with the caller's value, extra keyword options unchanged); values summed / dict"""
    cls, name = qual.split(".")

    def go():
        g = _ag_globals()
        f = real(AG, qual, g)
        target = real(AG, f"{cls}.{meth}", g)
        sig, named = _sig_opts(f)
        for m, return_all, with_extra in itertools.product((1, 2, 3), (False, True), (False, True)):
            terms, log = _terms(m), []
            vals = list(sp.symbols(f"r0:{m}"))
            it = iter(vals)
            me = Rec("self", log, {meth: lambda *_a, **_k: next(it)})
            opts = {p: Tok(p) for p in named}
            if "rehearse" in named:
                opts["rehearse"] = False
            extra = dict(extra_opt=Tok("extra")) if with_extra else {}
            got = f(me, terms, return_all=return_all, **opts, **extra)
            calls = [c for c in log if c[1] == meth]
            inp = dict(n_terms=m, return_all=return_all, extra=extra, got=got, log=log)
            if len(calls) != m or len(log) != m:
                return inp
            for (obj, _, a, k), (w, Gw) in zip(calls, terms.items()):
                b = inspect.signature(target).bind(obj, *a, **k)       # lands on the REAL per-term signature
                ba = dict(b.arguments)
                vk = [p.name for p in inspect.signature(target).parameters.values() if p.kind is p.VAR_KEYWORD]
                rest = ba.pop(vk[0], {}) if vk else {}
                if obj is not me or ba.pop("G") is not Gw or ba.pop("where") is not w:
                    return inp
                ba.pop("self", None)
                for p in named:
                    if p in special:
                        continue
                    v = ba.pop(p, rest.pop(p, None))
                    if v is not opts[p]:
                        return dict(inp, option=p, arrived=v)
                for p in special:
                    ba.pop(p, None), rest.pop(p, None)
                if rest != extra or ba:
                    return dict(inp, leftover=ba, rest=rest)
            if return_all:
                if not isinstance(got, dict) or list(got.items()) != list(zip(terms.keys(), vals)):
                    return inp
            elif isinstance(got, dict) or sp.simplify(got - sum(vals)) != 0:
                return inp
    return go


def _ob_gloop_global():
    """normalized='global': ONE global norm from the same loops / gauges / info, every term evaluated on self / norm
    with normalized=False (the value is divided by the norm exactly once)"""
    def go():
        g = _ag_globals()
        f = real(AG, "TensorNetworkGenVector.compute_local_expectation_gloop_expand", g)
        for m, return_all in itertools.product((1, 2, 3), (False, True)):
            terms, log = _terms(m), []
            vals = list(sp.symbols(f"r0:{m}"))
            it = iter(vals)
            scaled = Rec("self/norm", log, {"local_expectation_gloop_expand": lambda *_a, **_k: next(it)})
            nf = Tok("nfactor")
            me = Rec("self", log, {"norm_gloop_expand": nf, "__truediv__": scaled,
                                  "copy": Rec("copy", log, {"local_expectation_gloop_expand": sp.Symbol("c")})})
            o = {p: Tok(p) for p in ("gloops", "gauges", "autocomplete", "autoreduce", "optimize", "combine",
                                     "grow_from", "strict_size")}
            info = {}
            got = f(me, terms, normalized="global", info=info, return_all=return_all, **o)
            inp = dict(n_terms=m, return_all=return_all, log=log, got=got)
            norms = [c for c in log if c[1] == "norm_gloop_expand"]
            divs = [c for c in log if c[1] == "__truediv__"]
            calls = [c for c in log if c[1] == "local_expectation_gloop_expand"]
            if len(norms) != 1 or norms[0][0] is not me or len(divs) != 1 or divs[0][0] is not me or divs[0][2] != (nf,):
                return inp
            nk = norms[0][3]
            if any(nk.get(p) is not o[p] for p in ("gloops", "gauges", "autocomplete", "autoreduce", "optimize")) \
                    or nk.get("info") is not info:
                return inp
            if len(calls) != m or any(c[0] is not scaled or c[3].get("normalized") is not False
                                      or c[3].get("info") is not info for c in calls):
                return inp
            if log.index(divs[0]) > log.index(calls[0]) or not any(c[1] == "distribute_exponent" and c[0] is scaled for c in log):
                return inp
    return go


def _ob_sloop_gen():
    """sloops None / int: the loops are generated ONCE (gen_sloops(sloops, num_joins, intersect)) and the same tuple
    reaches every term; a given collection is handed on as it is"""
    def go():
        g = _ag_globals()
        f = real(AG, "TensorNetworkGenVector.compute_local_expectation_sloop_expand", g)
        for sl in (None, 3, "given"):
            terms, log = _terms(2), []
            gen = (Tok("loopA"), Tok("loopB"))
            me = Rec("self", log, {"gen_sloops": lambda *_a, **_k: iter(gen), "local_expectation_sloop_expand": sp.Symbol("r")})
            given = (Tok("loopC"),)
            nj, isec = Tok("nj"), Tok("isec")
            f(me, terms, sloops=given if sl == "given" else sl, num_joins=nj, intersect=isec)
            gens = [c for c in log if c[1] == "gen_sloops"]
            calls = [c for c in log if c[1] == "local_expectation_sloop_expand"]
            inp = dict(sloops=sl, log=log)
            if sl == "given":
                if gens or any(c[3].get("sloops") is not given for c in calls):
                    return inp
            else:
                if len(gens) != 1 or gens[0][2] != (sl,) or gens[0][3] != dict(num_joins=nj, intersect=isec):
                    return inp
                if any(c[3].get("sloops") != gen for c in calls) or len({id(c[3].get("sloops")) for c in calls}) != 1:
                    return inp
            if len(calls) != 2:
                return inp
    return go


# ------------------------------------------------------------------ local_expectation_cluster / local_expectation (tnag)
def _ob_cluster(which):
    def go():
        f = real(AG, "TensorNetworkGenVector.local_expectation_cluster", {})
        sig, named = _sig_opts(f)
        for mb, with_extra in itertools.product((None, "tok", 0), (False, True)):
            log, ret = [], Tok("value")
            k = Rec("cluster", log, {"local_expectation": ret, "local_expectation_exact": ret})
            me = Rec("self", log, {"get_cluster": k})
            o = {p: Tok(p) for p in named if p not in ("G", "where")}
            o["max_bond"] = None if mb is None else (0 if mb == 0 else o["max_bond"])
            G, w = Tok("G"), Tok("where")
            extra = dict(extra_opt=Tok("extra")) if with_extra else {}
            got = f(me, G, w, **o, **extra)
            inp = dict(max_bond=mb, extra=extra, log=log, got=got)
            if len(log) != 2 or log[0][:2] != (me, "get_cluster") or log[1][0] is not k or got is not ret:
                return inp
            if which == "cluster-selection-options":
                a, kk = log[0][2], log[0][3]
                want = {p: o[p] for p in ("gauges", "max_distance", "mode", "fillin", "grow_from", "smudge", "power")}
                if (a, kk) != ((w,), want) and (a, kk) != ((), dict(want, where=w)):
                    return inp
            else:
                meth, a, kk = log[1][1:]
                want = dict(G=G, where=w, optimize=o["optimize"], normalized=o["normalized"], rehearse=o["rehearse"], **extra)
                if mb is None:
                    if meth != "local_expectation_exact" or a or kk != want:
                        return inp
                elif meth != "local_expectation" or a or kk != dict(want, max_bond=o["max_bond"]):
                    return inp
    return go


def _ob_localexp(which):
    def go():
        dolog = []

        def do(name, *a, **k):
            dolog.append((name, a, k))
            return Tok("do-result")
        f = real(AG, "TensorNetworkGenVector.local_expectation", dict(do=do))
        sig, named = _sig_opts(f)
        for rehearse, with_extra in itertools.product((False, True, "tn", "tree"), (False, True)):
            del dolog[:]
            log, rho = [], Tok("rho")
            me = Rec("self", log, {"partial_trace": rho})
            o = {p: Tok(p) for p in named if p not in ("G", "where")}
            o["rehearse"] = rehearse
            G, w = Tok("G"), Tok("where")
            extra = dict(extra_opt=Tok("extra")) if with_extra else {}
            got = f(me, G, w, **o, **extra)
            inp = dict(rehearse=rehearse, extra=extra, log=log, do=list(dolog), got=got)
            if which == "options-reach-partial-trace":
                want = dict(keep=w, **{p: o[p] for p in o}, **extra)
                if len(log) != 1 or log[0][1] != "partial_trace" or log[0][2] or log[0][3] != want:
                    return inp
            else:
                if rehearse:
                    if got is not rho or dolog:
                        return inp
                else:
                    # Tr(rho G) = sum_{k,b} rho[k,b] G[b,k]   (rho rows = ket labels: rho, not its transpose)
                    if len(dolog) != 1 or dolog[0][0] != "tensordot" or dolog[0][1][:2] != (rho, G):
                        return inp
                    ax = dolog[0][2].get("axes", dolog[0][1][2] if len(dolog[0][1]) > 2 else None)
                    if ax is None or sorted(zip(*ax)) != [(0, 1), (1, 0)]:
                        return inp
    return go


# ------------------------------------------------------------------ 1D canonical route
def _mps(log, where_seen):
    def getitem(sl):
        log.append((None, "__getitem__", (sl,), {}))
        return me._k
    cls = type("MPSRec", (Rec,), {"__getitem__": lambda s, sl: getitem(sl)})
    rho = sp.Matrix(2, 2, sp.symbols("p00 p01 p10 p11"))
    rho_tn = Rec("k|b", log, {"to_dense": rho})
    b = Rec("bra", log)
    b._script["conj_"] = b
    kcls = type("KRec", (Rec,), {"__or__": lambda s, o: (log.append((s, "__or__", (o,), {})), rho_tn)[1]})
    k = kcls("k", log, {"reindex": b})
    me = cls("self", log, {"site_ind": lambda s, i: f"k{i}"}, cyclic=False, exponent=Tok("exponent"), _k=k)
    return me, k, b, rho_tn, rho


def _do_sym(name, x, *a):
    assert name == "trace"
    return x.trace()


def _ob_ptdc(which):
    def go():
        f = real(T1, "MatrixProductState.partial_trace_to_dense_canonical", dict(Integral=numbers.Integral, do=_do_sym))
        wheres = [3] + [p for r in (1, 2, 3) for c in itertools.combinations(range(5), r) for p in itertools.permutations(c)]
        for where, normalized, info in itertools.product(wheres, (True, False), (None, "dict")):
            log = []
            me, k, b, rho_tn, rho = _mps(log, where)
            info = dict(cur_orthog="calc") if info else None
            extra = dict(optimize=Tok("opt"))
            got = f(me, where, normalized=normalized, info=info, **extra)
            wt = (where,) if isinstance(where, int) else where
            inp = dict(where=where, normalized=normalized, info=info, log=[c[1:] for c in log], got=got)
            byname = {}
            for c in log:
                byname.setdefault(c[1], []).append(c)
            if which == "canonical-centre-covers-sites-record-is-callers":
                c = byname.get("canonicalize_", [])
                if len(c) != 1 or c[0][0] is not me or tuple(c[0][2][0]) != wt or c[0][3].get("info") is not info:
                    return inp
                if log.index(c[0]) > log.index(byname["__getitem__"][0]):
                    return inp
                if byname["__getitem__"][0][2][0] != slice(min(wt), max(wt) + 1) or k.exponent is not me.exponent:
                    return inp
            elif which == "rows-ket-cols-bra-in-requested-order":
                kix, bix = [f"k{i}" for i in wt], [f"__b{i}__" for i in wt]
                r, cj, td, orr = byname["reindex"], byname["conj_"], byname["to_dense"], byname["__or__"]
                if len(r) != 1 or r[0][0] is not k or r[0][2] != (dict(zip(kix, bix)),):
                    return inp
                if len(cj) != 1 or cj[0][0] is not b or orr[0][0] is not k or orr[0][2] != (b,):
                    return inp
                if td[0][0] is not rho_tn or [list(x) for x in td[0][2]] != [kix, bix] or td[0][3] != extra:
                    return inp
            else:
                want = rho / rho.trace() if normalized else rho
                if sp.simplify(sp.Matrix(got) - want) != sp.zeros(2, 2):
                    return inp
    return go


def _ob_lec():
    def go():
        def do(name, x):
            assert name == "trace"
            return x.trace()
        f = real(T1, "MatrixProductState.local_expectation_canonical", dict(do=do))
        rho = sp.Matrix(2, 2, sp.symbols("p00 p01 p10 p11"))
        G = sp.Matrix(2, 2, sp.symbols("g00 g01 g10 g11"))
        for normalized, info in itertools.product((True, False, Tok("n")), (None, {})):
            log = []
            me = Rec("self", log, {"partial_trace_to_dense_canonical": rho})
            w, extra = Tok("where"), dict(optimize=Tok("opt"))
            got = f(me, G, w, normalized=normalized, info=info, **extra)
            inp = dict(normalized=normalized, info=info, log=log, got=got)
            if len(log) != 1 or log[0][1] != "partial_trace_to_dense_canonical":
                return inp
            b = dict(zip(("where", "normalized", "info"), log[0][2]), **log[0][3])
            if b.pop("where") is not w or b.pop("normalized") is not normalized or b.pop("info") is not info or b != extra:
                return inp
            want = sum(G[i, j] * rho[j, i] for i in range(2) for j in range(2))
            if sp.expand(got - want) != 0:
                return inp
    return go


def _ob_clec(which):
    def go():
        f = real(T1, "MatrixProductState.compute_local_expectation_canonical",
                 dict(Integral=numbers.Integral, functools=functools, operator=operator))
        infos = [None, {}, {"cur_orthog": "calc"}, {"cur_orthog": (2, 2)}, {"cur_orthog": (0, 3)}, {"cur_orthog": None}]
        termsets = [{1: Tok("G0")}, {(2, 1): Tok("G0"), 0: Tok("G1")}, {3: Tok("G0"), (0, 1): Tok("G1"), (1, 3, 2): Tok("G2")}]
        for terms, inplace, info0, return_all, normalized in itertools.product(
                termsets, (False, True), infos, (False, True), (True, False)):
            log = []
            info = None if info0 is None else dict(info0)
            vals = {w: sp.Symbol(f"r{i}") for i, w in enumerate(terms)}

            def lec(obj, G, where, **kw):
                # what canonicalize_ does in the real route: the record follows the object it was used with
                wt = (where,) if isinstance(where, int) else where
                if kw.get("info") is not None:
                    kw["info"]["cur_orthog"] = (min(wt), max(wt))
                return vals[where]
            cp = Rec("copy", log, {"local_expectation_canonical": lec})
            me = Rec("self", log, {"local_expectation_canonical": lec, "copy": cp}, cyclic=False)
            extra = dict(optimize=Tok("opt"))
            got = f(me, dict(terms), normalized=normalized, return_all=return_all, info=info, inplace=inplace, **extra)
            calls = [c for c in log if c[1] == "local_expectation_canonical"]
            inp = dict(terms=terms, inplace=inplace, info_in=info0, info_after=info, return_all=return_all,
                       normalized=normalized, log=[(c[0], c[1], c[2], {k: v for k, v in c[3].items()}) for c in log], got=got)
            if which == "record-describes-the-object-it-is-used-with":
                obj = me if inplace else cp
                recs = [c[3].get("info") for c in calls]
                if any(c[0] is not obj for c in calls) or any(r is None or r is not recs[0] for r in recs):
                    return inp                       # one object, one record, threaded through every term
                if inplace:
                    if info is not None and recs[0] is not info:
                        return inp                   # self moved: the caller's record must have moved with it
                else:
                    if recs[0] is info or info != info0:
                        return inp                   # self untouched: the caller's record must be untouched
                    if len([c for c in log if c[1] == "copy"]) != 1:
                        return inp
                # the record starts from what the caller knew
                # (checked through the first call: before it, the record equals the caller's)
            elif which == "each-term-once-own-operator":
                seen = sorted(((c[2][1] if len(c[2]) > 1 else c[3]["where"]) for c in calls), key=repr)
                if seen != sorted(terms, key=repr) or len(calls) != len(terms):
                    return inp
                for c in calls:
                    a = dict(zip(("G", "where"), c[2]), **c[3])
                    if a["G"] is not terms[a["where"]] or a["normalized"] is not normalized or a.get("optimize") is not extra["optimize"]:
                        return inp
            else:
                if return_all:
                    if not isinstance(got, dict) or got != vals:
                        return inp
                elif isinstance(got, dict) or sp.simplify(got - sum(vals.values())) != 0:
                    return inp
    return go


def _ob_record_start():
    """with inplace=False the working record starts as a COPY of the caller's (same content at the first term)"""
    def go():
        f = real(T1, "MatrixProductState.compute_local_expectation_canonical",
                 dict(Integral=numbers.Integral, functools=functools, operator=operator))
        for inplace, info0 in itertools.product((False, True), ({"cur_orthog": (2, 2)}, {"cur_orthog": "calc", "x": 1}, {})):
            first = []

            def lec(obj, G, where, **kw):
                first.append(dict(kw["info"]))
                return sp.Symbol("r")
            cp = Rec("copy", [], {"local_expectation_canonical": lec})
            me = Rec("self", [], {"local_expectation_canonical": lec, "copy": cp}, cyclic=False)
            f(me, {1: Tok("G")}, info=dict(info0), inplace=inplace)
            if first[0] != info0:
                return dict(inplace=inplace, info=info0, first_record=first[0])
    return go


def _ob_dispatch_1d():
    def go():
        f = real(T1, "MatrixProductState.compute_local_expectation", {})
        for method, with_extra in itertools.product(("canonical", "envs", "exact", None), (False, True)):
            log, ret = [], Tok("value")
            me = Rec("self", log, {"compute_local_expectation_canonical": ret, "compute_local_expectation_via_envs": ret})
            o = {p: Tok(p) for p in ("normalized", "return_all", "info", "inplace")}
            terms = Tok("terms")
            extra = dict(extra_opt=Tok("extra")) if with_extra else {}
            try:
                got = f(me, terms, method=method, **o, **extra)
            except ValueError:
                got = ValueError
            inp = dict(method=method, extra=extra, log=log, got=got)
            if method not in ("canonical", "envs"):
                if got is not ValueError or log:
                    return inp
                continue
            if got is not ret or len(log) != 1 or log[0][0] is not me:
                return inp
            kw = dict(zip(("terms",), log[0][2]), **log[0][3])
            if method == "canonical":
                if log[0][1] != "compute_local_expectation_canonical" or kw != dict(terms=terms, **o, **extra):
                    return inp
            else:
                want = dict(terms=terms, normalized=o["normalized"], return_all=o["return_all"], **extra)
                if log[0][1] != "compute_local_expectation_via_envs" or kw != want:
                    return inp
    return go


_GV = "TensorNetworkGenVector"
_MPS = "MatrixProductState"


def provider(tier=None):
    ob = _Obs()
    ob.run(AG, "_combine_expansion_expectations", "combine-table", "e2", _ob_combine("table"))
    ob.run(AG, "_combine_expansion_expectations", "whole-network-cluster-is-ratio", "e2", _ob_combine("whole"))
    for lab in ("each-term-once-own-operator-own-sites", "return-form-dict-or-sum"):
        ob.run(AG, "_compute_expecs_maybe_in_parallel", lab, "fdx", _ob_helper(lab))
    for nm, meth in (("_tn_local_expectation", "local_expectation"), ("_tn_local_expectation_cluster", "local_expectation_cluster"),
                     ("_tn_local_expectation_exact", "local_expectation_exact"),
                     ("_tn_local_expectation_sloop_expand", "local_expectation_sloop_expand"),
                     ("_tn_local_expectation_gloop_expand", "local_expectation_gloop_expand")):
        ob.run(AG, nm, "forwards-to-same-route-unchanged", "fdx", _ob_trampoline(nm, meth))
    for name, meth, special in (("compute_local_expectation_exact", "local_expectation_exact", ()),
                                ("compute_local_expectation_cluster", "local_expectation_cluster", ()),
                                ("compute_local_expectation", "local_expectation", ()),
                                ("compute_local_expectation_sloop_expand", "local_expectation_sloop_expand",
                                 ("num_joins", "intersect")),
                                ("compute_local_expectation_gloop_expand", "local_expectation_gloop_expand", ())):
        ob.run(AG, f"{_GV}.{name}", "every-option-reaches-every-term", "fdx", _ob_wrapper(f"{_GV}.{name}", meth, special))
    ob.run(AG, f"{_GV}.compute_local_expectation_gloop_expand", "global-norm-divided-once", "fdx", _ob_gloop_global())
    ob.run(AG, f"{_GV}.compute_local_expectation_sloop_expand", "loops-generated-once", "fdx", _ob_sloop_gen())
    for lab in ("cluster-selection-options", "route-by-max-bond"):
        ob.run(AG, f"{_GV}.local_expectation_cluster", lab, "fdx", _ob_cluster(lab))
    for lab in ("options-reach-partial-trace", "trace-rho-G-pairing"):
        ob.run(AG, f"{_GV}.local_expectation", lab, "fdx", _ob_localexp(lab))
    for lab in ("canonical-centre-covers-sites-record-is-callers", "rows-ket-cols-bra-in-requested-order",
                "normalised-exactly-once"):
        ob.run(T1, f"{_MPS}.partial_trace_to_dense_canonical", lab, "fdx", _ob_ptdc(lab))
    ob.run(T1, f"{_MPS}.local_expectation_canonical", "trace-G-rho-options-threaded", "e2", _ob_lec())
    for lab in ("record-describes-the-object-it-is-used-with", "each-term-once-own-operator", "return-form-dict-or-sum"):
        ob.run(T1, f"{_MPS}.compute_local_expectation_canonical", lab, "fdx", _ob_clec(lab))
    ob.run(T1, f"{_MPS}.compute_local_expectation_canonical", "record-starts-from-callers", "fdx", _ob_record_start())
    ob.run(T1, f"{_MPS}.compute_local_expectation", "method-table", "fdx", _ob_dispatch_1d())
    return ob.out


# ------------------------------------------------------------------ 2D: compute_local_expectation via plaquette environments
T2 = "quimb/tensor/tn2d/core.py"
_P2 = "TensorNetwork2DVector"


class TN2:
    """structural stand-in for a 2D network: remembers how it was built"""

    def __init__(self, kind, parts=(), reg=None):
        self.kind, self.parts, self.reg, self.viewed = kind, parts, reg, None

    def __repr__(self):
        return f"{self.kind}{self.parts!r}"

    def __or__(self, other):
        return TN2("or", (self, other), self.reg)

    def select_any(self, sites):
        return TN2("select", (self, tuple(sites)), self.reg)

    def view_as_(self, cls, **kw):
        self.viewed = (cls, kw)
        return self

    def gate(self, G, where, **kw):
        return TN2("gate", (self, G, where, kw), self.reg)

    def site_tag(self, coo):
        return f"I{coo[0]},{coo[1]}"

    def contract(self, *a, **kw):
        s = sp.Symbol(f"v{len(self.reg)}")
        self.reg[s] = (self, a, kw)
        return s

    def make_norm(self, **kw):
        self.reg["make_norm"] = kw
        return self.norm, self.ket, self.bra

    def compute_plaquette_environments(self, x_bsz, y_bsz, **kw):
        self.reg.setdefault("envcalls", []).append(((x_bsz, y_bsz), kw))
        return {((i, j), (x_bsz, y_bsz)): TN2("env", (((i, j), (x_bsz, y_bsz)),), self.reg)
                for i in range(3 - x_bsz + 1) for j in range(3 - y_bsz + 1)}


def _g2():
    from collections import defaultdict
    g = dict(defaultdict=defaultdict, functools=functools, add=operator.add, combinations=itertools.combinations,
             Integral=numbers.Integral,
             TensorNetwork2DVector=Tok("TensorNetwork2DVector"))
    for nm in ("is_lone_coo", "calc_plaquette_sizes", "plaquette_to_sites", "calc_plaquette_map"):
        real(T2, nm, g, share=True)          # the plaquette bookkeeping is the real source too
    return g


def _terms_2d():
    S = [(i, j) for i in range(3) for j in range(3)]
    one = [{a: Tok("G")} for a in S] + [{(a, b): Tok("G")} for a in S for b in S if a != b]
    many = [{(0, 0): Tok("G0"), ((0, 0), (0, 1)): Tok("G1"), ((1, 0), (0, 0)): Tok("G2"), ((1, 1), (2, 2)): Tok("G3")},
            {((0, 1), (0, 0)): Tok("G0"), ((0, 0), (0, 1)): Tok("G1"), ((2, 2), (0, 2)): Tok("G2")},
            {((2, 0), (1, 1)): Tok("G0"), (2, 1): Tok("G1"), ((2, 1), (2, 2)): Tok("G2")}]   # (sites and pairs: the plaquette map knows nothing else)
    return one, many


def _ob_2d(which):
    def go():
        g = _g2()
        f = real(T2, f"{_P2}.compute_local_expectation", g)
        one, many = _terms_2d()
        for terms, normalized, return_all, autogroup, supplied in itertools.product(
                one + many, (False, True), (False, True), (True, False), (False, True)):
            if supplied and len(terms) == 1 and which != "environment-options":
                continue
            reg = {}
            me = TN2("self", (), reg)
            me.norm, me.ket, me.bra = TN2("norm", (), reg), TN2("ket", (), reg), TN2("bra", (), reg)
            o = {p: Tok(p) for p in ("max_bond", "cutoff", "canonize", "mode", "layer_tags")}
            copt, extra = Tok("contract_optimize"), dict(extra_opt=Tok("extra"))
            kw = {}
            if supplied:     # the caller's own environments (all 2x2 and 3x3 plaquettes) are used as they are
                kw["plaquette_envs"] = envs = {**me.norm.compute_plaquette_environments(3, 3),
                                               **me.norm.compute_plaquette_environments(2, 2)}
                reg.pop("envcalls")
            got = f(me, terms, normalized=normalized, return_all=return_all, autogroup=autogroup, contract_optimize=copt,
                    **o, **extra, **kw)
            inp = dict(terms=terms, normalized=normalized, return_all=return_all, autogroup=autogroup,
                       plaquette_envs_supplied=supplied, got=got)
            allv = f(me, terms, normalized=normalized, return_all=True, autogroup=autogroup, contract_optimize=copt,
                     **o, **extra, **kw) if not return_all else got
            if which == "environment-options":
                calls = reg.get("envcalls", [])
                if supplied:
                    if calls:
                        return inp
                    continue
                if not calls or any(k != dict(o, **extra) for _, k in calls) or reg.get("make_norm") != dict(return_all=True):
                    return dict(inp, envcalls=calls)
                continue
            if set(allv) != set(terms):
                return inp
            for where, G in terms.items():
                e, n = allv[where]
                num, a, k_ = reg[e]
                sites = (where,) if isinstance(where[0], int) else where
                bad = dict(inp, where=where, numerator=num, denominator=reg.get(n))
                if a != (all,) or k_ != dict(optimize=copt) or num.kind != "or" or num.parts[0].kind != "gate":
                    return bad
                ket_local, Gg, wg, gk = num.parts[0].parts
                bra_env = num.parts[1]
                if Gg is not G or wg is not where or gk != dict(contract=False):
                    return bad                                   # operator on the sites in the order given
                if ket_local.kind != "select" or ket_local.parts[0] is not me.ket or bra_env.kind != "or":
                    return bad
                bsel, env = bra_env.parts
                if bsel.kind != "select" or bsel.parts[0] is not me.bra or env.kind != "env":
                    return bad
                (i0, j0), (di, dj) = p = env.parts[0]
                rect = [(i, j) for i in range(i0, i0 + di) for j in range(j0, j0 + dj)]
                tags = tuple(f"I{i},{j}" for i, j in rect)
                if which == "plaquette-covers-term-operator-order-kept":
                    if ket_local.parts[1] != tags or bsel.parts[1] != tags or not set(sites) <= set(rect):
                        return bad
                    if supplied and env is not envs[p]:
                        return bad
                    if ket_local.viewed is None or ket_local.viewed[1].get("like") is not me:
                        return bad
                else:     # numerator and denominator from the same environment
                    if not normalized:
                        if n is not None:
                            return bad
                        continue
                    den, a2, k2 = reg[n]
                    if a2 != (all,) or k2 != dict(optimize=copt) or den.kind != "or":
                        return bad
                    if {id(x) for x in den.parts} != {id(ket_local), id(bra_env)}:      # a | b = b | a (label convention)
                        return bad
    return go


def _ob_2d_sum():
    """summed forms: normalized -> sum_i e_i / n_i (each term by ITS OWN plaquette norm), else sum_i e_i"""
    def go():
        g = _g2()
        f = real(T2, f"{_P2}.compute_local_expectation", g)
        one, many = _terms_2d()
        for terms, normalized, autogroup in itertools.product(one[::7] + many, (False, True), (True, False)):
            reg = {}
            me = TN2("self", (), reg)
            me.norm, me.ket, me.bra = TN2("norm", (), reg), TN2("ket", (), reg), TN2("bra", (), reg)
            got = f(me, terms, normalized=normalized, autogroup=autogroup)
            # read the structure of every contracted value back from the registry
            val = {s: v for s, v in reg.items() if isinstance(s, sp.Symbol)}
            nums = {s: v[0].parts[0].parts[2] for s, v in val.items() if v[0].parts[0].kind == "gate"}
            dens = {s: v[0] for s, v in val.items() if v[0].parts[0].kind != "gate"}
            want = 0
            for s, where in nums.items():
                if normalized:
                    mine = [d for d, tn in dens.items() if any(x is val[s][0].parts[1] for x in tn.parts)]
                    if len(mine) != 1:
                        return dict(terms=terms, normalized=normalized, got=got)
                    want += s / mine[0]
                else:
                    want += s
            if sorted(nums.values(), key=repr) != sorted(terms, key=repr) or sp.simplify(got - want) != 0 or (dens and not normalized):
                return dict(terms=terms, normalized=normalized, autogroup=autogroup, got=got, want=want)
    return go


def provider_2d(tier=None):
    ob = _Obs()
    q = f"{_P2}.compute_local_expectation"
    for lab in ("plaquette-covers-term-operator-order-kept", "numerator-denominator-same-environment", "environment-options"):
        ob.run(T2, q, lab, "fdx", _ob_2d(lab))
    ob.run(T2, q, "summed-forms-own-norm-per-term", "e2", _ob_2d_sum())
    return ob.out


# ------------------------------------------------------------------ 3D: PEPS3D.compute_local_expectation
T3 = "quimb/tensor/tn3d/core.py"


def _tensordot2(a, b, axes):
    """exact tensordot of two 2-index sympy matrices over the given axis pairs (all indices summed)"""
    pairs = list(zip(*axes))
    assert sorted(p[0] for p in pairs) == [0, 1] and sorted(p[1] for p in pairs) == [0, 1]
    tot = 0
    for i, j in itertools.product(range(2), repeat=2):
        ia = (i, j)
        ib = [None, None]
        for pa, pb in pairs:
            ib[pb] = ia[pa]
        tot += a[ia[0], ia[1]] * b[ib[0], ib[1]]
    return tot


def _ob_3d(which):
    def go():
        dolog = []

        def do(name, a, b, axes=None, **k):
            dolog.append(name)
            assert name == "tensordot"
            return _tensordot2(a, b, k.get("axes", axes))
        f = real(T3, "PEPS3D.compute_local_expectation", dict(do=do, functools=functools, add=operator.add, Progbar=_progbar))
        for m, return_all, envs_kind, progbar in itertools.product((1, 2, 3), (False, True), ("none", "given", "factory"),
                                                                   (False, True)):
            terms = {w: sp.Matrix(2, 2, sp.symbols(f"g{i}_0:4")) for i, w in enumerate(_terms(m))}
            rhos = [sp.Matrix(2, 2, sp.symbols(f"p{i}_0:4")) for i in range(m)]
            it, log = iter(rhos), []
            me = Rec("self", log, {"partial_trace": lambda *_a, **_k: next(it)})
            o = {p: Tok(p) for p in ("max_bond", "cutoff", "canonize", "flatten", "normalized", "symmetrized")}
            extra = dict(extra_opt=Tok("extra"))
            given, made = {"given": 1}, {"made": 1}
            kw = dict(envs=given) if envs_kind == "given" else {}
            sf = (lambda: made) if envs_kind == "factory" else None
            got = f(me, terms, return_all=return_all, storage_factory=sf, progbar=progbar, **o, **extra, **kw)
            inp = dict(n_terms=m, return_all=return_all, envs=envs_kind, progbar=progbar, log=log, got=got)
            if which == "options-reach-partial-trace-environments-shared":
                if len(log) != m:
                    return inp
                for (obj, meth, a, k), w in zip(log, terms):
                    k = dict(k)
                    e = k.pop("envs", None)
                    if obj is not me or meth != "partial_trace" or a != (w,) or k != dict(o, storage_factory=sf, **extra):
                        return inp
                    if e is not log[0][3]["envs"] or not isinstance(e, dict):
                        return inp                  # one store of environments for all the terms
                    if (envs_kind == "given" and e is not given) or (envs_kind == "factory" and e is not made):
                        return inp
            else:
                want = {w: sum(G[b, k] * r[k, b] for b in range(2) for k in range(2)) for (w, G), r in zip(terms.items(), rhos)}
                if return_all:
                    if not isinstance(got, dict) or list(got) != list(terms) or any(sp.expand(got[w] - want[w]) != 0 for w in want):
                        return inp
                elif isinstance(got, dict) or sp.expand(got - sum(want.values())) != 0:
                    return inp
    return go


def provider_3d(tier=None):
    ob = _Obs()
    ob.run(T3, "PEPS3D.compute_local_expectation", "options-reach-partial-trace-environments-shared", "fdx",
           _ob_3d("options-reach-partial-trace-environments-shared"))
    ob.run(T3, "PEPS3D.compute_local_expectation", "trace-G-rho-dict-or-sum", "e2", _ob_3d("trace-G-rho-dict-or-sum"))
    return ob.out


# ------------------------------------------------------------------ 1D: MatrixProductState.compute_local_expectation_via_envs
_L1 = 4


class TN1(TN2):
    gated = None

    def __or__(self, other):
        return TN1("or", (self, other), self.reg)

    def select_any(self, tags, **kw):
        return TN1("select", (self, tuple(tags), kw), self.reg)

    def select(self, tags, **kw):
        return TN1("select", (self, tags, kw), self.reg)

    def site_tag(self, i):
        return f"I{i}"

    def gate_(self, G, where, **kw):
        assert self.gated is None
        self.gated = (G, where, kw)
        return self

    def compute_left_environments(self, **kw):
        self.reg["left"] = kw
        self.left = {i: TN1("L", (i,), self.reg) for i in range(1, _L1)}
        return self.left

    def compute_right_environments(self, **kw):
        self.reg["right"] = kw
        self.right = {i: TN1("R", (i,), self.reg) for i in range(_L1 - 1)}
        return self.right


def _leaves(t):
    return _leaves(t.parts[0]) + _leaves(t.parts[1]) if t.kind == "or" else [t]


def _ob_envs(which):
    def go():
        f = real(T1, "MatrixProductState.compute_local_expectation_via_envs",
                 dict(Integral=numbers.Integral, functools=functools, operator=operator))
        wheres = list(range(_L1)) + [p for r in (1, 2, 3) for c in itertools.combinations(range(_L1), r)
                                     for p in itertools.permutations(c)]
        termsets = [{w: Tok("G")} for w in wheres] + [{0: Tok("G0"), (2, 1): Tok("G1"), (3, 0): Tok("G2"), (1, 2): Tok("G3")}]
        for terms, normalized, return_all in itertools.product(termsets, (False, True), (False, True)):
            reg = {}
            me = TN1("self", (), reg)
            me.norm, me.ket, me.bra = TN1("norm", (), reg), TN1("ket", (), reg), TN1("bra", (), reg)
            opts = dict(optimize=Tok("opt"))
            got = f(me, terms, normalized=normalized, return_all=return_all, **opts)
            inp = dict(terms=terms, normalized=normalized, return_all=return_all, got=got)
            vals = {s: v for s, v in reg.items() if isinstance(s, sp.Symbol)}
            if any(v[1] != (all,) or v[2] != opts for v in vals.values()) or reg["left"] != opts or reg["right"] != opts:
                return inp
            num, nf = {}, []
            for s, (tn, _, _) in vals.items():
                lv = _leaves(tn)
                gk = [x for x in lv if x.kind == "select" and x.parts[0] is me.ket]
                if gk and gk[0].gated:
                    num[gk[0].gated[1]] = (s, lv, gk[0])
                else:
                    nf.append((s, lv))
            if set(num) != set(terms) or len(nf) != (1 if normalized else 0):
                return inp
            if normalized:     # ONE denominator: the whole norm network (first site | everything to its right)
                lv = nf[0][1]
                if len(lv) != 2 or lv[0].parts[:2] != (me.norm, 0) or lv[1] is not me.norm.right[0]:
                    return dict(inp, denominator=lv)
            want = {}
            for where, G in terms.items():
                s, lv, k = num[where]
                ws = (where,) if isinstance(where, int) else where
                lo, hi = min(ws), max(ws)
                tags = tuple(f"I{i}" for i in range(lo, hi + 1))
                exp = [me.norm.left[lo]] if lo >= 1 else []
                exp += [me.norm.right[hi]] if hi <= _L1 - 2 else []
                b = [x for x in lv if x.kind == "select" and x.parts[0] is me.bra]
                bad = dict(inp, where=where, network=lv, gated=k.gated)
                if which == "operator-on-ket-sites-in-order-given":
                    if k.gated[0] is not G or k.gated[1] is not where or k.gated[2] != dict(contract=False):
                        return bad
                    if k.parts[1] != tags or len(b) != 1 or b[0].parts[1] != tags or b[0].gated is not None:
                        return bad
                    if k.parts[2] != dict(virtual=False) or b[0].parts[2] != dict(virtual=False):
                        return bad                      # the gate acts on a copy, not on the state itself
                elif which == "environments-complete-the-network":
                    rest = [x for x in lv if x is not k and not (b and x is b[0])]
                    if len(lv) != 2 + len(exp) or {id(x) for x in rest} != {id(x) for x in exp}:
                        return bad
                want[where] = s / nf[0][0] if normalized else s
            if which == "normalised-once-dict-or-sum":
                if return_all:
                    if not isinstance(got, dict) or list(got) != list(terms) or any(sp.simplify(got[w] - want[w]) != 0 for w in want):
                        return inp
                elif isinstance(got, dict) or sp.simplify(got - sum(want.values())) != 0:
                    return inp
    return go


def provider_1d_envs(tier=None):
    ob = _Obs()
    for lab in ("operator-on-ket-sites-in-order-given", "environments-complete-the-network", "normalised-once-dict-or-sum"):
        ob.run(T1, "MatrixProductState.compute_local_expectation_via_envs", lab, "fdx", _ob_envs(lab))
    return ob.out


# ------------------------------------------------------------------ TensorNetworkGenVector.partial_trace (compressed route)
from fractions import Fraction


class Lin:
    """element of the free *-algebra over matrix atoms: a rational combination of words (base, transposed?, conjugated?)
    -- rho, rho^T, conj(rho), rho^H = conj(rho^T) are four DIFFERENT words -- divided by a tuple of traces"""

    def __init__(self, terms, denoms=()):
        self.terms = {a: c for a, c in terms.items() if c != 0}
        self.denoms = tuple(denoms)

    @classmethod
    def atom(cls, base):
        return cls({(base, 0, 0): Fraction(1)})

    def _map(self, dt, dc):
        return Lin({(b, t ^ dt, c ^ dc): v for (b, t, c), v in self.terms.items()}, self.denoms)

    T = property(lambda s: s._map(1, 0))
    H = property(lambda s: s._map(1, 1))

    def conj(self):
        return self._map(0, 1)

    def conjugate(self):
        return self._map(0, 1)

    def transpose(self, *a):
        return self._map(1, 0)

    def key(self):
        return (frozenset(self.terms.items()), self.denoms)

    def __add__(self, o):
        assert isinstance(o, Lin) and o.denoms == self.denoms
        out = dict(self.terms)
        for a, c in o.terms.items():
            out[a] = out.get(a, 0) + c
        return Lin(out, self.denoms)

    def __sub__(self, o):
        return self + o * -1

    def __mul__(self, x):
        return Lin({a: c * Fraction(x) for a, c in self.terms.items()}, self.denoms)

    __rmul__ = __mul__

    def __truediv__(self, x):
        if isinstance(x, Tr):
            return Lin(self.terms, self.denoms + (x.of,))
        return Lin({a: c / Fraction(x) for a, c in self.terms.items()}, self.denoms)

    def __repr__(self):
        w = " + ".join(f"{c}*{b}{'^T' * t}{'*' * cj}" for (b, t, cj), c in sorted(self.terms.items(), key=repr))
        return f"({w})" + "".join(f" / tr{sorted(dict(d[0]).items(), key=repr)}" for d in self.denoms)


class Tr:
    def __init__(self, x):
        self.of = x.key()


def _star_do(name, x, *a, **k):
    if name == "trace":
        return Tr(x)
    return dict(transpose=lambda: x.T, conj=lambda: x.conj(), conjugate=lambda: x.conj(), dag=lambda: x.H)[name]()


class PTN(Rec):
    """network stand-in with the in-place operators partial_trace uses"""

    def __ixor__(self, tag):
        self._log.append((self, "__ixor__", (tag,), {}))
        return self

    def __ior__(self, other):
        self._log.append((self, "__ior__", (other,), {}))
        return self


def _pt_world(log):
    dense = lambda s, rows, cols, **k: Lin.atom(("dense", tuple(rows), tuple(cols)))     # noqa: E731
    t_rho = PTN("t_rho", log, {"to_dense": dense})
    part, red = PTN("tn-part", log, {"contract_compressed": t_rho, "to_dense": dense}), PTN("tn-reduced", log)
    tn = PTN("rho-tn", log, {"site_tag": lambda s, x: f"I{x}", "partition": (part, red), "contract_compressed": t_rho,
                             "to_dense": dense}, tag_map={"I0": 1, "I1": 1, "I2": 1})
    k = PTN("copy", log, {"make_reduced_density_matrix": tn})
    me = PTN("self", log, {"site_ind": lambda s, x: f"k{x}", "site_tag": lambda s, x: f"I{x}", "copy": k,
                           "gen_site_coos": lambda s: iter((0, 1, 2, 3))})
    return me, k, tn, part, red, t_rho


_PT_KEEPS = [p for r in (1, 2) for c in itertools.combinations(range(3), r) for p in itertools.permutations(c)]


def _ob_pt(which):
    def go():
        hr = []

        def handle(rehearse, tn, optimize, **kw):
            hr.append((rehearse, tn, optimize, kw))
            return ("rehearsal", rehearse)
        f = real(AG, f"{_GV}.partial_trace", dict(dag=lambda x: x.H, do=_star_do, _handle_rehearse=handle))
        dom = itertools.product(_PT_KEEPS, ("auto", True, False), (True, False, "all"), (True, False), (False, True),
                                ("contract_compressed", "contract_around", "other"), (False, True, "tn", "tree"))
        for keep, symmetrized, flatten, normalized, reduce, method, rehearse in dom:
            if which != "rehearse-returns-early" and rehearse not in (False,):
                continue
            del hr[:]
            log = []
            me, k, tn, part, red, t_rho = _pt_world(log)
            mb, opt, extra = Tok("max_bond"), Tok("optimize"), dict(extra_opt=Tok("extra"))
            try:
                got = f(me, keep, mb, opt, flatten=flatten, reduce=reduce, normalized=normalized, symmetrized=symmetrized,
                        rehearse=rehearse, method=method, **extra)
            except ValueError:
                got = ValueError
            inp = dict(keep=keep, symmetrized=symmetrized, flatten=flatten, normalized=normalized, reduce=reduce,
                       method=method, rehearse=rehearse, got=got, log=[c[:3] for c in log])
            kix, bix = tuple(f"k{s}" for s in keep), tuple(f"_bra{s}" for s in keep)
            names = [c[1] for c in log]
            by = {}
            for c in log:
                by.setdefault(c[1], []).append(c)
            if method == "other":
                if got is not ValueError or any(n in names for n in ("to_dense", "contract_compressed", "contract_around_")):
                    return inp
                continue
            if got is ValueError:
                return inp
            if which == "rehearse-returns-early":
                if not rehearse:
                    continue
                oi = None if (reduce and method == "contract_compressed") else kix + bix
                want_tn = part if (reduce and method == "contract_compressed") else tn
                if got != ("rehearsal", rehearse) or hr != [(rehearse, want_tn, opt, dict(output_inds=oi))]:
                    return inp
                if "to_dense" in names or "contract_compressed" in names:
                    return inp
                continue
            rho = Lin.atom(("dense", kix, bix))
            sym = (not flatten) if symmetrized == "auto" else symmetrized
            num = (rho + rho.H) / 2 if sym else rho
            if which == "hermitian-part-iff-resolved-symmetrized":
                # rho, or (rho + rho^H)/2 with rho^H = conj(rho^T): NOT the transpose, NOT the conjugate
                if not isinstance(got, Lin) or got.terms != num.terms:
                    return dict(inp, want=num, resolved_symmetrized=sym)
            elif which == "normalised-exactly-once":
                if not isinstance(got, Lin) or got.denoms != ((num.key(),) if normalized else ()):
                    return dict(inp, want_denominators=(num.key(),) if normalized else ())
            elif which == "rows-ket-cols-bra-in-keep-order":
                m = by["make_reduced_density_matrix"]
                if len(m) != 1 or m[0][0] is not k or tuple(m[0][2][0]) != tuple(keep):
                    return inp
                bid = m[0][3].get("bra_ind_id")
                if bid is None or tuple(bid.format(s) for s in keep) != bix:
                    return inp
                td = by["to_dense"]
                if len(td) != 1 or tuple(td[0][2][0]) != kix or tuple(td[0][2][1]) != bix:
                    return inp
                if not isinstance(got, Lin) or {a[0] for a in got.terms} != {("dense", kix, bix)}:
                    return inp
            else:   # options-reach-route-by-method-table
                want_x = [f"I{s}" for s in (0, 1, 2) if (s not in keep) or flatten == "all"] if flatten else []
                if [c[2][0] for c in by.get("__ixor__", [])] != want_x or any(c[0] is not tn for c in by.get("__ixor__", [])):
                    return dict(inp, want_contracted_sites=want_x)
                r = by.get("reduce_inds_onto_bond", [])
                if reduce:
                    if len(r) != 1 or r[0][0] is not k or r[0][2] != kix or r[0][3] != dict(tags="__BOND__", drop_tags=True):
                        return inp
                elif r:
                    return inp
                if len(by.get("fuse_multibonds_", [])) != 1:
                    return inp
                td = by["to_dense"][0]
                if method == "contract_compressed":
                    cc = by.get("contract_compressed", [])
                    src = part if reduce else tn
                    oi = None if reduce else kix + bix
                    if len(cc) != 1 or cc[0][0] is not src or cc[0][2] != (opt,) or cc[0][3] != dict(max_bond=mb, output_inds=oi, **extra):
                        return inp
                    if "contract_around_" in names or td[0] is not t_rho or td[3]:
                        return inp
                    io = by.get("__ior__", [])
                    if (reduce and (len(io) != 1 or io[0][0] is not t_rho or io[0][2] != (red,))) or (not reduce and io):
                        return inp
                    if reduce and by["partition"][0][2:] != (("__BOND__",), dict(inplace=True)):
                        return inp
                else:
                    ca = by.get("contract_around_", [])
                    if len(ca) != 1 or ca[0][0] is not tn or tuple(ca[0][2][0]) != tuple(f"I{s}" for s in keep) \
                            or ca[0][2][1:] != ("any",) or ca[0][3] != dict(max_bond=mb, **extra):
                        return inp
                    if "contract_compressed" in names or td[0] is not tn or td[3] != dict(optimize=opt):
                        return inp
    return go


_PT_LABELS = ("hermitian-part-iff-resolved-symmetrized", "normalised-exactly-once", "rows-ket-cols-bra-in-keep-order",
              "options-reach-route-by-method-table", "rehearse-returns-early")


def provider_pt(tier=None):
    ob = _Obs()
    for lab in _PT_LABELS:
        ob.run(AG, f"{_GV}.partial_trace", lab, "fdx", _ob_pt(lab))
    return ob.out
