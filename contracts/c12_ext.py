"""C12 extension: bond-cap threading and dispatch obligations over the REAL source (providers, re-read on every run).

Statement clause served: "every bond it has compressed is within the cap": a scheme can only keep that promise if the
caller's max_bond / cutoff reach EVERY compressing callee unchanged, and if a compression is skipped only when the bond is
already within the cap.  That is discrete bookkeeping (which name flows into which keyword, through which options dict,
under which guard) and is decided here for all inputs by a def-use analysis of the function's ast:

  provider_threading  (kind 'frame', backend 'ast'): per function F of TARGETS and per cap option P in (max_bond, cutoff)
      cap-sinks-present      F contains at least the declared number of calls to compressing callees (vacuity guard)
      P-not-rebound          P is never re-bound in F (only the documented sentinel resolution `if P == "auto": P = ...`)
      sink[callee#k]:P       the k-th call of a compressing callee receives the caller's P:
                               keyword P=<expr> where <expr> resolves to P through single-definition aliases, closures
                               `def f(d): return P` and the schedule pass-through `f = P` (callable P), or
                               an options dict D (**D or <x>_opts=D) with an unconditional top-level D["P"] = P /
                               D.setdefault("P", P) after the last binding of D and no other write to D's key P, or
                               (P not a named parameter) the function's own **kwargs / options-dict parameter, never
                               mutated on key P (only D = ensure_dict(D) allowed)
      sink[callee#k]:opt:Q   every further scalar option Q of OPTS (canonize, mode, layer_tags, compress_late,
                               equalize_norms, sweep_reverse, lazy) that the call passes by its own name is the caller's Q;
                               Q re-bound only under `if Q == "auto"` / `if Q is None` (documented default resolution)
      skip-guard-compare / skip-guard-none[callee#k]   every enclosing `if` that consults bonds_size has exactly the form
                               (cap is None) or bonds_size(..) > cap    with cap resolving to max_bond (two obligations:
                               the comparison, and the None disjunct)
      compress-iff-branch    (_contract_boundary_core 2D/3D) per-bond compression sits under `if not compress_late`, the
                               per-plane one under `if compress_late`, both inside the sweep loop
  provider_dispatch   (kind 'fdx', backend 'exhaustive'): the REAL tensor_network_ag_compress is executed for every key of
      the REAL dispatch table x inplace in {True, False}: the callee invoked is the table's function for that key, it
      receives max_bond, cutoff, site_tags, canonize, optimize, equalize_norms, inplace and the extra options unchanged,
      the result is handed back; the table maps every documented method name to the function of that name.
"""
import ast
import importlib.util
import os
import sys
import time

from vf.framework import ObResult

T2 = "quimb/tensor/tn2d/core.py"
T3 = "quimb/tensor/tn3d/core.py"
TC = "quimb/tensor/tensor_core.py"
AG = "quimb/tensor/tnag/compress.py"

CAPS = ("max_bond", "cutoff")
# further options that decide HOW the compression is done; pure pass-through by their documentation ("mode" only in the lattice
# files, where it names the boundary method; in tensor_core.py it is a gauge setting resolved by
# choose_local_compress_gauge_settings)
# (dict-valued options -- compress_opts, canonize_opts -- are NOT covered here: functions add defaults to them; the 2D core's
# compress_opts flow is an E1 obligation of contracts/c10_sweeps.py)
OPTS = ("canonize", "mode", "layer_tags", "compress_late", "equalize_norms", "sweep_reverse", "lazy")

# compressing callees (or the next level that takes the cap)
SINKS = {
    "contract_boundary_from_", "contract_boundary_from", "contract_boundary", "contract_boundary_",
    "_contract_interleaved_boundary_sequence", "compress_plane", "compress_between", "_compress_between_tids",
    "tensor_network_1d_compress", "tensor_network_2d_compress", "insert_compressor_between_regions", "compress_l2bp",
    "coarse_grain_hotrg_", "coarse_grain_hotrg", "compute_x_environments", "compute_y_environments",
    "compute_xmin_environments", "compute_xmax_environments", "compute_ymin_environments", "compute_ymax_environments",
    "compute_env_fn", "_contract_compressed_tid_sequence", "_contract_around_tids", "compress_all_",
    "compress_all_simple_", "_contract_boundary_core", "_contract_boundary_core_via_1d", "_contract_boundary_core_via_2d",
    "_contract_boundary_full_bond", "_contract_boundary_projector", "_contract_boundary_l2bp",
}

# (relpath, class or None, function, minimum number of sink calls)
TARGETS = [
    (T2, "TensorNetwork2D", "compress_plane", 1),
    (T2, "TensorNetwork2D", "_contract_boundary_core_via_1d", 1),
    (T2, "TensorNetwork2D", "_contract_boundary_core", 2),
    (T2, "TensorNetwork2D", "_contract_boundary_projector", 1),
    (T2, "TensorNetwork2D", "contract_mps_sweep", 1),
    (T2, "TensorNetwork2D", "compute_environments", 1),
    (T2, "TensorNetwork2D", "compute_x_environments", 2),
    (T2, "TensorNetwork2D", "compute_y_environments", 2),
    (T2, "TensorNetwork2D", "_compute_plaquette_environments_x_first", 2),
    (T2, "TensorNetwork2D", "_compute_plaquette_environments_y_first", 2),
    (T2, "TensorNetwork2D", "compute_plaquette_environments", 1),
    (T2, "TensorNetwork2D", "contract_hotrg", 1),
    (T2, "TensorNetwork2D", "contract_ctmrg", 1),
    (T3, "TensorNetwork3D", "compress_plane", 1),
    (T3, "TensorNetwork3D", "_contract_boundary_core_via_2d", 1),
    (T3, "TensorNetwork3D", "_contract_boundary_core", 2),
    (T3, "TensorNetwork3D", "_contract_boundary_projector", 1),
    (T3, "TensorNetwork3D", "_contract_boundary_l2bp", 1),
    (T3, "TensorNetwork3D", "contract_boundary_from", 4),
    (T3, "TensorNetwork3D", "_contract_interleaved_boundary_sequence", 1),
    (T3, "TensorNetwork3D", "contract_boundary", 1),
    (T3, "TensorNetwork3D", "_compute_plane_envs", 1),
    (T3, "TensorNetwork3D", "coarse_grain_hotrg", 1),
    (T3, "TensorNetwork3D", "contract_hotrg", 1),
    (T3, "TensorNetwork3D", "contract_ctmrg", 1),
    (TC, "TensorNetwork", "compress_between", 1),
    (TC, "TensorNetwork", "compress_all", 1),
    (TC, "TensorNetwork", "compress_all_1d", 1),
    (TC, "TensorNetwork", "_contract_compressed_tid_sequence", 1),
    (TC, "TensorNetwork", "_contract_around_tids", 1),
    (TC, "TensorNetwork", "contract_around", 1),
    (TC, "TensorNetwork", "contract_compressed", 1),
    (AG, None, "tensor_network_ag_compress_local_early", 1),
    (AG, None, "tensor_network_ag_compress_local_late", 1),
    (AG, None, "tensor_network_ag_compress_superorthogonal", 1),
    (AG, None, "tensor_network_ag_compress_l2bp", 1),
]

E1_TARGETS = [f"{rel}::{(cls + '.') if cls else ''}{fn}" for rel, cls, fn, _ in TARGETS] + [f"{AG}::tensor_network_ag_compress"]


def _root():
    return os.path.realpath(os.environ.get("VERIF_REPO", "/repo"))


# ------------------------------------------------------------------------------------------------ def-use helpers
def _parents(fn):
    par = {}
    for n in ast.walk(fn):
        for c in ast.iter_child_nodes(n):
            par[c] = n
    return par


def _target_names(t):
    if isinstance(t, ast.Name):
        return [t.id]
    if isinstance(t, (ast.Tuple, ast.List)):
        return [x for e in t.elts for x in _target_names(e)]
    if isinstance(t, ast.Starred):
        return _target_names(t.value)
    return []


def bindings(fn, name):
    """every binding of `name` inside fn (nested functions included), except fn's own parameter: list of (kind, node)"""
    out = []
    for n in ast.walk(fn):
        if isinstance(n, ast.Assign):
            for t in n.targets:
                if name in _target_names(t):
                    out.append(("assign" if isinstance(t, ast.Name) else "unpack", n))
        elif isinstance(n, (ast.AugAssign, ast.AnnAssign)):
            if name in _target_names(n.target):
                out.append(("aug", n))
        elif isinstance(n, (ast.For, ast.AsyncFor)):
            if name in _target_names(n.target):
                out.append(("for", n))
        elif isinstance(n, ast.comprehension):
            if name in _target_names(n.target):
                out.append(("comp", n))
        elif isinstance(n, ast.NamedExpr):
            if name in _target_names(n.target):
                out.append(("walrus", n))
        elif isinstance(n, (ast.With, ast.AsyncWith)):
            for it in n.items:
                if it.optional_vars is not None and name in _target_names(it.optional_vars):
                    out.append(("with", n))
        elif isinstance(n, (ast.FunctionDef, ast.AsyncFunctionDef, ast.Lambda)) and n is not fn:
            if isinstance(n, ast.FunctionDef) and n.name == name:
                out.append(("def", n))
            a = n.args
            ps = [x.arg for x in a.posonlyargs + a.args + a.kwonlyargs] + [x.arg for x in (a.vararg, a.kwarg) if x]
            if name in ps:
                out.append(("inner-param", n))
        elif isinstance(n, (ast.Import, ast.ImportFrom)):
            if any((al.asname or al.name.split(".")[0]) == name for al in n.names):
                out.append(("import", n))
        elif isinstance(n, ast.ExceptHandler) and n.name == name:
            out.append(("except", n))
        elif isinstance(n, (ast.Global, ast.Nonlocal)) and name in n.names:
            out.append(("scope", n))
        elif isinstance(n, ast.Delete):
            if any(name in _target_names(t) for t in n.targets):
                out.append(("del", n))
    return out


def params_of(fn):
    a = fn.args
    return [x.arg for x in a.posonlyargs + a.args + a.kwonlyargs]


def resolves(expr, P, fn, depth=0):
    """does `expr`, evaluated anywhere in fn, denote the caller's option P (or P(d) for a callable schedule P)?"""
    if depth > 6:
        return False
    if isinstance(expr, ast.Name):
        if expr.id == P:
            return P in params_of(fn)
        defs = bindings(fn, expr.id)
        if not defs or expr.id in params_of(fn):
            return False
        return all(k == "assign" and resolves(n.value, P, fn, depth + 1) for k, n in defs)
    if isinstance(expr, ast.Call) and isinstance(expr.func, ast.Name) and not expr.keywords:
        g = expr.func.id
        defs = bindings(fn, g)
        if not defs or g in params_of(fn):
            return False
        for k, n in defs:
            if k == "assign" and isinstance(n.value, ast.Name) and n.value.id == P:
                continue  # schedule pass-through: g = P (P callable): the cap at distance d is P(d)
            if k == "def":
                body = [s for s in n.body if not (isinstance(s, ast.Expr) and isinstance(s.value, ast.Constant))]
                if len(body) == 1 and isinstance(body[0], ast.Return) and body[0].value is not None and \
                        resolves(body[0].value, P, fn, depth + 1):
                    continue
            return False
        return True
    return False


def _callee_name(c):
    if isinstance(c.func, ast.Attribute):
        return c.func.attr
    if isinstance(c.func, ast.Name):
        return c.func.id
    if isinstance(c.func, ast.Subscript):  # TABLE[method](...)
        return "<dispatch>"
    return "?"


def _dict_writes(fn, D, key):
    """statements that write key `key` of the dict named D (or may do so): list of (form, node, value-or-None)"""
    out = []
    for n in ast.walk(fn):
        if isinstance(n, (ast.Assign, ast.AugAssign)):
            for t in (n.targets if isinstance(n, ast.Assign) else [n.target]):
                for s in ([t] if not isinstance(t, (ast.Tuple, ast.List)) else t.elts):
                    if isinstance(s, ast.Subscript) and isinstance(s.value, ast.Name) and s.value.id == D:
                        k = s.slice
                        if isinstance(k, ast.Constant) and k.value != key:
                            continue
                        out.append(("setitem" if isinstance(n, ast.Assign) and isinstance(k, ast.Constant) else "setitem?", n,
                                    n.value if isinstance(n, ast.Assign) else None))
        elif isinstance(n, ast.Delete):
            for t in n.targets:
                if isinstance(t, ast.Subscript) and isinstance(t.value, ast.Name) and t.value.id == D:
                    out.append(("del", n, None))
        elif isinstance(n, ast.Call) and isinstance(n.func, ast.Attribute) and isinstance(n.func.value, ast.Name) and \
                n.func.value.id == D:
            m = n.func.attr
            if m == "setdefault":
                if n.args and isinstance(n.args[0], ast.Constant) and n.args[0].value != key:
                    continue
                out.append(("setdefault" if n.args and isinstance(n.args[0], ast.Constant) and len(n.args) == 2 else "setdefault?",
                            n, n.args[1] if len(n.args) == 2 else None))
            elif m == "pop":
                if n.args and isinstance(n.args[0], ast.Constant) and n.args[0].value != key:
                    continue
                out.append(("pop", n, None))
            elif m in ("update", "clear", "popitem", "__setitem__", "__delitem__"):
                out.append((m, n, None))
    return out


def _is_ensure_dict_of_self(n, D):
    v = n.value
    return (isinstance(v, ast.Call) and isinstance(v.func, ast.Name) and v.func.id == "ensure_dict" and len(v.args) == 1
            and not v.keywords and isinstance(v.args[0], ast.Name) and v.args[0].id == D)


def _top_level_stmt(fn, node, par):
    """the statement of fn.body that IS node's statement (None when nested under any compound statement)"""
    s = node
    while s in par and not isinstance(s, ast.stmt):
        s = par[s]
    return s if any(s is b for b in fn.body) else None


def dict_carries(fn, D, P, call, par):
    """(ok, why): the dict named D, as passed at `call`, carries the caller's P"""
    named = P in params_of(fn)
    writes = _dict_writes(fn, D, P)
    binds = bindings(fn, D)
    is_param = D in params_of(fn) or (fn.args.kwarg is not None and fn.args.kwarg.arg == D)
    if not named:
        # P travels inside the caller's own options dict: D must be that parameter, never written on key P
        if not is_param:
            return False, f"{D} is not a parameter of the function"
        for k, n in binds:
            if not (k == "assign" and _is_ensure_dict_of_self(n, D) and _top_level_stmt(fn, n, par) is not None):
                return False, f"{D} re-bound at line {n.lineno}"
        if writes:
            return False, f"{D}[{P!r}] written at line {writes[0][1].lineno} ({writes[0][0]})"
        return True, ""
    good = [(f, n, v) for f, n, v in writes if f in ("setitem", "setdefault") and v is not None and resolves(v, P, fn)
            and _top_level_stmt(fn, n, par) is not None]
    if len(good) != 1 or len(writes) != 1:
        return False, f"{D}: expected exactly one unconditional top-level write of key {P!r} with the caller's {P}; found " \
                      f"{[(f, n.lineno) for f, n, _ in writes]}"
    w = good[0][1]
    last_bind = max([n.lineno for _, n in binds], default=0)
    if not last_bind < w.lineno < call.lineno:
        return False, f"{D}[{P!r}] set at line {w.lineno}, {D} last bound at {last_bind}, used at {call.lineno}"
    for k, n in binds:
        if k != "assign" or _top_level_stmt(fn, n, par) is None:
            return False, f"{D} bound conditionally at line {n.lineno}"
    return True, ""


def sink_receives(fn, call, P, par):
    kws = {k.arg: k.value for k in call.keywords if k.arg is not None}
    stars = [k.value for k in call.keywords if k.arg is None]
    if P in kws:
        ok = resolves(kws[P], P, fn)
        return ok, "" if ok else f"keyword {P}={ast.unparse(kws[P])} does not denote the caller's {P}"
    cands = [v for v in stars if isinstance(v, ast.Name)] + \
            [v for k, v in kws.items() if k.endswith("_opts") and isinstance(v, ast.Name)]
    why = [f"no keyword {P} and no options dict"]
    for v in cands:
        ok, w = dict_carries(fn, v.id, P, call, par)
        if ok:
            return True, ""
        why.append(w)
    return False, "; ".join(why[1:] or why)


def rebinding_ok(fn, P, par, sentinels=("auto",), allow_ensure_dict=False):
    bad = []
    for k, n in bindings(fn, P):
        ok = False
        if k == "assign" and allow_ensure_dict and _is_ensure_dict_of_self(n, P) and _top_level_stmt(fn, n, par) is not None:
            ok = True
        elif k == "assign":
            s = n
            while s in par and s is not fn:
                s = par[s]
                if isinstance(s, ast.If) and isinstance(s.test, ast.Compare) and isinstance(s.test.left, ast.Name) and \
                        s.test.left.id == P and len(s.test.ops) == 1 and isinstance(s.test.comparators[0], ast.Constant) and \
                        ((isinstance(s.test.ops[0], ast.Eq) and isinstance(s.test.comparators[0].value, str)
                          and s.test.comparators[0].value in sentinels)
                         or (isinstance(s.test.ops[0], ast.Is) and s.test.comparators[0].value is None and None in sentinels)) and \
                        any(n is x for b in s.body for x in ast.walk(b)):
                    ok = True
                    break
        if not ok:
            bad.append(f"{k} at line {n.lineno}: {ast.unparse(n)[:70]}")
    return bad


def skip_guard_ok(fn, call, par):
    """every enclosing `if` consulting bonds_size must read: (cap is None) or bonds_size(...) > cap.
    returns (number of such ifs, violations of the comparison form, violations of the None disjunct)"""
    s = call
    bad_cmp, bad_none = [], []
    seen = 0

    def is_cmp(t):
        return (isinstance(t, ast.Compare) and len(t.ops) == 1 and isinstance(t.ops[0], ast.Gt) and isinstance(t.left, ast.Call)
                and _callee_name(t.left) == "bonds_size" and resolves(t.comparators[0], "max_bond", fn))

    def is_none(t):
        return (isinstance(t, ast.Compare) and len(t.ops) == 1 and isinstance(t.ops[0], ast.Is)
                and isinstance(t.comparators[0], ast.Constant) and t.comparators[0].value is None
                and resolves(t.left, "max_bond", fn))

    while s in par and s is not fn:
        p = par[s]
        if isinstance(p, ast.If) and any(isinstance(x, ast.Call) and _callee_name(x) == "bonds_size" for x in ast.walk(p.test)):
            seen += 1
            t = p.test
            in_body = any(s is b for b in p.body)
            parts = t.values if isinstance(t, ast.BoolOp) and isinstance(t.op, ast.Or) else [t]
            if not (in_body and sum(is_cmp(x) for x in parts) == 1 and all(is_cmp(x) or is_none(x) for x in parts)):
                bad_cmp.append(f"line {p.lineno}: if {ast.unparse(t)}")
            if not (in_body and any(is_none(x) for x in parts)):
                bad_none.append(f"line {p.lineno}: if {ast.unparse(t)}: max_bond=None (documented: no cap, cutoff only) is compared "
                                f"with an int")
        s = p
    return seen, bad_cmp, bad_none


def branch_ok(fn, call, par, want_late):
    """the call sits (inside the sweep loop) under `if compress_late` (want_late) resp. `if not compress_late`"""
    s = call
    under = None
    in_loop = False
    while s in par and s is not fn:
        p = par[s]
        if isinstance(p, ast.If) and under is None:
            t = p.test
            pos = isinstance(t, ast.Name) and t.id == "compress_late"
            neg = isinstance(t, ast.UnaryOp) and isinstance(t.op, ast.Not) and isinstance(t.operand, ast.Name) and \
                t.operand.id == "compress_late"
            if pos or neg:
                in_body = any(s is b for b in p.body)
                under = (pos and in_body) or (neg and not in_body)  # True = executed iff compress_late
        if isinstance(p, (ast.For, ast.While)) and under is not None:
            in_loop = True
        s = p
    return under is not None and under == want_late and in_loop and not bindings(fn, "compress_late")


# ------------------------------------------------------------------------------------------------ provider: threading
def find_fn(tree, cls, name):
    scope = tree.body
    if cls:
        scope = [b for n in tree.body if isinstance(n, ast.ClassDef) and n.name == cls for b in n.body]
    fns = [n for n in scope if isinstance(n, ast.FunctionDef) and n.name == name]
    return fns[0] if len(fns) == 1 else None


def threading_obligations(root, only=None):
    out = []
    trees = {}
    for rel, cls, name, nmin in TARGETS:
        fid = f"{rel}::{(cls + '.') if cls else ''}{name}"
        if only and not any(s in fid for s in only):
            continue
        t0 = time.time()

        def ob(label, ok, detail=None, line=None, kind="frame"):
            out.append(ObResult(f"{fid}::{label}", kind, "discharged" if ok else "failed", "ast", time.time() - t0, function=fid,
                                model=None if ok else dict(function=fid, line=line, why=detail), line=line, detail=detail,
                                engine="E4"))

        if rel not in trees:
            trees[rel] = ast.parse(open(os.path.join(root, rel)).read())
        fn = find_fn(trees[rel], cls, name)
        if fn is None:
            ob("function-present", False, "function not found (or defined twice)")
            continue
        par = _parents(fn)
        sinks = sorted([c for c in ast.walk(fn) if isinstance(c, ast.Call) and _callee_name(c) in SINKS],
                       key=lambda c: (c.lineno, c.col_offset))
        ob("cap-sinks-present", len(sinks) >= nmin, f"{len(sinks)} compressing calls, expected >= {nmin}", fn.lineno)
        ps = params_of(fn)
        for P in CAPS:
            if P in ps:
                bad = rebinding_ok(fn, P, par)
                ob(f"{P}-not-rebound", not bad, "; ".join(bad) or None, fn.lineno)
        count = {}
        for c in sinks:
            cn = _callee_name(c)
            count[cn] = count.get(cn, 0) + 1
            tag = f"{cn}#{count[cn]}"
            for P in CAPS:
                ok, why = sink_receives(fn, c, P, par)
                ob(f"sink[{tag}]:{P}: the compressing callee receives the caller's {P}", ok, why or None, c.lineno)
            for kwd in c.keywords:
                Q = kwd.arg
                if Q in OPTS and Q in ps and (Q != "mode" or rel in (T2, T3)):
                    bad = rebinding_ok(fn, Q, par, sentinels=("auto", None))
                    ok = isinstance(kwd.value, ast.Name) and kwd.value.id == Q and not bad
                    ob(f"sink[{tag}]:opt:{Q}: the compressing callee receives the caller's {Q} (or its documented 'auto' / None "
                       f"default resolution)", ok,
                       None if ok else f"{Q}={ast.unparse(kwd.value)}; " + "; ".join(bad), c.lineno)
            seen, bad_cmp, bad_none = skip_guard_ok(fn, c, par)
            if seen or cn == "_compress_between_tids" and name in ("_contract_boundary_core", "_contract_compressed_tid_sequence"):
                ob(f"skip-guard-compare[{tag}]: compression skipped only when bonds_size <= cap", seen >= 1 and not bad_cmp,
                   "; ".join(bad_cmp) or "no bonds_size guard found", c.lineno)
                ob(f"skip-guard-none[{tag}]: cap None (no cap) always compresses, never compared with an int",
                   seen >= 1 and not bad_none, "; ".join(bad_none) or "no bonds_size guard found", c.lineno)
            if name == "_contract_boundary_core" and cn in ("_compress_between_tids", "compress_plane"):
                ob(f"compress-iff-branch[{tag}]: {'per-plane compression iff compress_late' if cn == 'compress_plane' else 'per-bond compression iff not compress_late'}, inside the sweep",
                   branch_ok(fn, c, par, cn == "compress_plane"), "not under the expected compress_late branch", c.lineno)
    return out


# The 3D twin of the 2D guard: TensorNetwork3D._contract_boundary_core compared bonds_size(t1, tn) > max_bond without the
# `max_bond is None` disjunct (TN3D.contract_boundary(max_bond=None, mode="peps", compress_late=False) raised TypeError although
# max_bond=None is the documented "use only the cutoff").  Found by the skip-guard-none obligation, repaired in /repo by
# dd440607 (known_findings.d/C12.json, C12-m, fixed); the obligation is registered like every other one since.
KNOWN_OUT = ()


def provider_threading(tier="quick", root=None):
    return [o for o in threading_obligations(root or _root()) if not (KNOWN_OUT and o.id.startswith(KNOWN_OUT))]


def unregistered_obligations(root=None):
    return [o for o in threading_obligations(root or _root()) if KNOWN_OUT and o.id.startswith(KNOWN_OUT)]


# ------------------------------------------------------------------------------------------------ provider: dispatch (fdx)
DOCUMENTED = {
    "local-early": "tensor_network_ag_compress_local_early",
    "local-late": "tensor_network_ag_compress_local_late",
    "projector": "tensor_network_ag_compress_projector",
    "superorthogonal": "tensor_network_ag_compress_superorthogonal",
    "su": "tensor_network_ag_compress_superorthogonal",
    "l2bp": "tensor_network_ag_compress_l2bp",
}


def _load_ag(root):
    """the REAL module source of tnag/compress.py under `root`, executed as a sibling of the installed module (so that its
    relative imports resolve against quimb)"""
    path = os.path.join(root, AG)
    name = "quimb.tensor.tnag._c12x_compress_%d" % (abs(hash(path)) % 10**8)
    import quimb.tensor.tnag  # noqa: F401
    spec = importlib.util.spec_from_file_location(name, path)
    mod = importlib.util.module_from_spec(spec)
    sys.modules[name] = mod
    try:
        spec.loader.exec_module(mod)
    finally:
        sys.modules.pop(name, None)
    return mod


def dispatch_obligations(root):
    fid = f"{AG}::tensor_network_ag_compress"
    out = []
    t0 = time.time()

    def ob(label, ok, model=None):
        out.append(ObResult(f"{fid}::{label}", "fdx", "discharged" if ok else "failed", "exhaustive", time.time() - t0,
                            function=fid, model=None if ok else model, detail=None if ok else str(model)[:300], engine="fdx"))

    try:
        mod = _load_ag(root)
        table = mod._TNAG_COMPRESS_METHODS
        real = dict(table)
    except Exception as e:  # noqa
        out.append(ObResult(f"{fid}::module-loads", "fdx", "failed", "exhaustive", time.time() - t0, function=fid,
                            model=dict(error=f"{type(e).__name__}: {e}"), engine="fdx"))
        return out
    ob("table: every documented method name is a key and no undocumented key exists", set(real) == set(DOCUMENTED),
       dict(keys=sorted(real), documented=sorted(DOCUMENTED)))
    for k in sorted(DOCUMENTED):
        f = real.get(k)
        ob(f"table[{k}]: maps to the function of that method", f is not None and getattr(f, "__name__", None) == DOCUMENTED[k]
           and getattr(mod, DOCUMENTED[k], None) is f, dict(method=k, got=getattr(f, "__name__", None), want=DOCUMENTED[k]))

    class S:  # opaque sentinel
        def __init__(self, n):
            self.n = n

        def __repr__(self):
            return f"<{self.n}>"

    for k in sorted(real):
        for inplace in (True, False):
            rec = []
            ret = S("result")
            given = dict(max_bond=S("max_bond"), cutoff=S("cutoff"), site_tags=S("site_tags"), canonize=S("canonize"),
                         optimize=S("optimize"), equalize_norms=S("equalize_norms"), inplace=inplace)
            extra = dict(compress_opts=S("compress_opts"), some_option=S("extra"))
            tn = S("tn")
            try:
                for kk in real:
                    table[kk] = (lambda kk: lambda *a, **kw: (rec.append((kk, a, kw)), ret)[1])(kk)
                got = mod.tensor_network_ag_compress(tn, given["max_bond"], given["cutoff"], method=k,
                                                     **{x: v for x, v in given.items() if x not in ("max_bond", "cutoff")}, **extra)
                err = None
            except Exception as e:  # noqa
                got, err = None, f"{type(e).__name__}: {e}"
            finally:
                table.update(real)
            want_kw = dict(given, **extra)
            ok_one = err is None and len(rec) == 1
            model = dict(call=f"tensor_network_ag_compress(tn, max_bond, cutoff, method={k!r}, inplace={inplace}, ...)", error=err,
                         calls=[(c[0], [repr(x) for x in c[1]], {a: repr(b) for a, b in c[2].items()}) for c in rec])
            ob(f"dispatch[{k},inplace={inplace}]: exactly the table's function for the method is invoked, once, on the network",
               ok_one and real[rec[0][0]] is real[k] and len(rec[0][1]) == 1 and rec[0][1][0] is tn, model)
            ob(f"dispatch[{k},inplace={inplace}]: max_bond and cutoff reach the method unchanged",
               ok_one and rec[0][2].get("max_bond") is given["max_bond"] and rec[0][2].get("cutoff") is given["cutoff"], model)
            ob(f"dispatch[{k},inplace={inplace}]: every other option reaches the method unchanged, nothing added",
               ok_one and set(rec[0][2]) == set(want_kw) and all(rec[0][2][a] is want_kw[a] for a in want_kw), model)
            ob(f"dispatch[{k},inplace={inplace}]: the method's result is returned", ok_one and got is ret, model)
    return out


def provider_dispatch(tier="quick", root=None):
    return dispatch_obligations(root or _root())



# ------------------------------------------------------------------------------------------------ provider: 3D mode dispatch (fdx)
MODE3 = {"peps": "_contract_boundary_core", "l2bp3d": "_contract_boundary_l2bp", "projector3d": "_contract_boundary_projector"}
CORES3 = sorted(set(MODE3.values()) | {"_contract_boundary_core_via_2d"})


def _load_sibling(root, rel, tag):
    path = os.path.join(root, rel)
    pkg = os.path.dirname(rel).replace("/", ".")
    name = f"{pkg}._c12x_{tag}_{abs(hash(path)) % 10**8}"
    importlib.import_module(pkg)
    spec = importlib.util.spec_from_file_location(name, path)
    mod = importlib.util.module_from_spec(spec)
    sys.modules[name] = mod
    try:
        spec.loader.exec_module(mod)
    finally:
        sys.modules.pop(name, None)
    return mod


def dispatch3d_obligations(root):
    """the REAL TensorNetwork3D.contract_boundary_from executed on a recording receiver for every class of `mode` its body
    distinguishes (the three literal modes + one other method name) x inplace"""
    fid = f"{T3}::TensorNetwork3D.contract_boundary_from"
    out = []
    t0 = time.time()

    def ob(label, ok, model=None):
        out.append(ObResult(f"{fid}::{label}", "fdx", "discharged" if ok else "failed", "exhaustive", time.time() - t0,
                            function=fid, model=None if ok else model, detail=None if ok else str(model)[:300], engine="fdx"))

    try:
        fn = _load_sibling(root, T3, "core3").TensorNetwork3D.contract_boundary_from
    except Exception as e:  # noqa
        ob("module-loads", False, dict(error=f"{type(e).__name__}: {e}"))
        return out

    class S:
        def __init__(self, n):
            self.n = n

        def __repr__(self):
            return f"<{self.n}>"

    for mode in list(MODE3) + ["zipup"]:
        for inplace in (True, False):
            rec = []

            class Net:
                def __init__(self, orig=None):
                    self.orig = orig

                def copy(self):
                    rec.append(("copy", self, (), {}))
                    return Net(self)

            for m in CORES3:
                setattr(Net, m, (lambda m: lambda self, *a, **kw: rec.append((m, self, a, kw)))(m))
            me = Net()
            given = dict(xrange=S("xrange"), yrange=S("yrange"), zrange=S("zrange"), from_which=S("from_which"),
                         max_bond=S("max_bond"), cutoff=S("cutoff"), equalize_norms=S("equalize_norms"), compress_opts=S("compress_opts"))
            extra = dict(canonize=S("canonize"), some_option=S("extra"))
            try:
                got = fn(me, given["xrange"], given["yrange"], given["zrange"], given["from_which"], given["max_bond"],
                         cutoff=given["cutoff"], mode=mode, equalize_norms=given["equalize_norms"],
                         compress_opts=given["compress_opts"], inplace=inplace, **extra)
                err = None
            except Exception as e:  # noqa
                got, err = None, f"{type(e).__name__}: {e}"
            cores = [r for r in rec if r[0] != "copy"]
            copies = [r for r in rec if r[0] == "copy"]
            model = dict(call=f"TensorNetwork3D.contract_boundary_from(net, ..., mode={mode!r}, inplace={inplace})", error=err,
                         calls=[(r[0], "receiver" if r[1] is me else "copy", {a: repr(b) for a, b in r[3].items()}) for r in rec])
            one = err is None and len(cores) == 1
            work = cores[0][1] if one else None
            tag = f"dispatch[mode={mode if mode in MODE3 else 'other'},inplace={inplace}]"
            ob(f"{tag}: works on the receiver iff inplace, else on ONE copy of it; returns the working network",
               one and ((inplace and work is me and not copies) or (not inplace and len(copies) == 1 and copies[0][1] is me
                                                                    and work.orig is me)) and got is work, model)
            ob(f"{tag}: exactly the core of that mode runs, once", one and cores[0][0] == MODE3.get(mode, "_contract_boundary_core_via_2d")
               and not cores[0][2], model)
            want = dict(given, **extra)
            if mode not in MODE3:
                want["method"] = mode
            ob(f"{tag}: max_bond and cutoff reach the core unchanged",
               one and cores[0][3].get("max_bond") is given["max_bond"] and cores[0][3].get("cutoff") is given["cutoff"], model)
            ob(f"{tag}: ranges, from_which and every other option reach the core unchanged, nothing added",
               one and set(cores[0][3]) == set(want) and all(cores[0][3][a] is want[a] for a in want), model)
    return out


def provider_dispatch3d(tier="quick", root=None):
    return dispatch3d_obligations(root or _root())


def provider(tier="quick"):
    return provider_threading(tier) + provider_dispatch(tier) + provider_dispatch3d(tier)


if __name__ == "__main__":
    t0 = time.time()
    res = provider()
    for o in res:
        if o.status != "discharged" or "-v" in sys.argv:
            print(o.status.upper(), o.id, (o.detail or "")[:300])
    print(len(res), "obligations", sum(o.status == "discharged" for o in res), "discharged", round(time.time() - t0, 2), "s")
