from contracts.index import entry_extend

entry_extend(
    "C12", modules=["contracts.c12_ext"],
    E1=[],
    LEMMAS=False,
    PROVIDERS=["contracts.c12_ext.provider_threading", "contracts.c12_ext.provider_dispatch",
               "contracts.c12_ext.provider_dispatch3d"],
    TRUSTED=[
        "E4 (contracts/c12_ext.py, cap threading): python keyword-argument semantics (f(P=x, **D) hands x resp. D[P] to the "
        "callee's parameter P); utils.ensure_dict(x) = {} for None, else a dict COPY (same leaf as contracts/c10_sweeps.py); the "
        "set SINKS of compressing callees (every callee name of the target files that takes max_bond / cutoff, listed in the "
        "module) -- a compressing call through a name outside SINKS is not seen; statements of a function body execute in "
        "source order (an unconditional top-level D[P] = P precedes every later call in the body, closures included only when "
        "defined after it); the callee itself honours the cap it receives (numerical content: C12 drivers, C04/C05)",
        "E4: a callable max_bond / cutoff (distance schedule of _contract_compressed_tid_sequence) counts as 'the caller's "
        "cap' when passed through as chi_fn = max_bond and evaluated as chi_fn(d)",
        "fdx (tensor_network_ag_compress): parametricity in the opaque option values (the function body is a single call "
        "that never inspects them: executed on sentinel objects, identity compared); the documented method -> function table "
        "DOCUMENTED in contracts/c12_ext.py, written from the docstring of tensor_network_ag_compress",
        "fdx (TensorNetwork3D.contract_boundary_from): executed on a recording receiver (copy() and the four core methods "
        "stubbed) with sentinel option values; `mode` enters the body only through == with the three literals 'peps', 'l2bp3d', "
        "'projector3d', so the four executed classes (three literals + one other method name) x inplace exhaust its behaviour "
        "(parametricity in the other-method string and in the option values); the table MODE3 mode -> core",
    ],
    ASSUMPTIONS=[
        "cap threading is decided per function (one level): each callee in SINKS that lies in the target list is itself a "
        "target; callees outside the anchor files (tensor_network_1d_compress / tensor_network_2d_compress, compress_l2bp, "
        "insert_compressor_between_regions, compress_all_simple_) are end points",
        "options-dict flow: an explicit 'max_bond' / 'cutoff' entry in the caller's own compress_opts takes precedence over "
        "the named argument in the tnag methods (setdefault), as their docstrings state",
    ],
    BOUNDED_FOR={
        "TensorNetwork2D.compute_environments": ["compute_environments", "environments"],
        "TensorNetwork2D.contract_hotrg": ["contract_hotrg"],
        "TensorNetwork2D.contract_ctmrg": ["contract_ctmrg"],
        "TensorNetwork3D._contract_boundary_core": ["contract_boundary (3D)"],
        "TensorNetwork3D.contract_boundary": ["contract_boundary (3D)"],
        "TensorNetwork._contract_compressed_tid_sequence": ["contract_compressed"],
        "TensorNetwork.contract_compressed": ["contract_compressed"],
        "TensorNetwork3D.contract_boundary_from": ["contract_boundary_from (3D)"],
        "tensor_network_ag_compress": ["tensor_network_ag_compress"]},
    EXPLANATION="E4 + fdx (bond-cap threading, contracts/c12_ext.py): for 36 functions of tn2d/core.py, tn3d/core.py, "
                "tensor_core.py and tnag/compress.py a def-use analysis of the real ast decides, for all inputs, that the "
                "caller's max_bond and cutoff reach EVERY compressing callee unchanged -- as a keyword (through single-"
                "definition aliases and the distance-schedule closures chi_fn / eps_fn of _contract_compressed_tid_sequence), "
                "through an options dict with one unconditional write of the key, or inside the function's own **options -- "
                "that neither option is re-bound (only the documented max_bond == 'auto' resolution of contract_compressed), "
                "that a per-bond compression is skipped only under `(cap is None) or bonds_size(..) > cap` (2D / 3D boundary "
                "cores, compressed contraction along a tree), and that the per-bond / per-plane compressions of the 2D and 3D "
                "cores sit under `not compress_late` / `compress_late` inside the sweep; every further scalar option (canonize, mode, "
                "layer_tags, compress_late, equalize_norms, sweep_reverse, lazy) handed to a compressing callee by its own name "
                "is the caller's (re-bound only under its documented 'auto' / None default resolution). The real "
                "TensorNetwork3D.contract_boundary_from is executed for every mode class x inplace: works on the receiver iff "
                "inplace (else one copy), runs exactly the core of the mode once with ranges, from_which, max_bond, cutoff and "
                "all options unchanged, returns the working network. The real tensor_network_ag_compress "
                "is executed on every key of its real dispatch table x inplace: the table's function for the method is "
                "invoked exactly once with max_bond, cutoff and every other option unchanged and its result returned; the "
                "table maps each documented method name to the function of that name. KEPT OUT (genuine defect, reported): "
                "TensorNetwork3D._contract_boundary_core lacks the `max_bond is None` disjunct (TypeError for the documented "
                "max_bond=None with mode='peps', compress_late=False).")
