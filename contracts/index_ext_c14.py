from contracts.index import entry_extend

entry_extend(
    "C14", modules=["contracts.c14_ext"], E1=["quimb/tensor/belief_propagation/bp_common.py::BeliefPropagationCommon.run"], LEMMAS=False,
    PROVIDERS=["contracts.c14_ext.provider_counting", "contracts.c14_ext.provider_algebra"],
    TRUSTED=[
        "python semantics used by the ast path analysis (provider_counting): iterating a dict / dict.items() / a list "
        "comprehension visits every key exactly once; list.append adds exactly one element; a statement that does not "
        "mention the accumulator name does not change it (the name is local and never aliased: checked syntactically)",
        "tn.tensor_map / local_tns hold every tensor / site once, tn.ind_map / edges every bond once (constructor and "
        "C09 bookkeeping, not re-proved here); local_tensor_contract / local_message_contract / array_contract / "
        "tensor_contract compute the local values they are named after (numerics, bounded drivers only)",
        "scaled-vector algebra for normalize_message_pair: (a u)@(b v) = a b (u@v), (a u)/s = (a/s) u, u@v = v@u; "
        "sympy's simplification of the resulting scalar identities; principal roots (equal-self-overlaps decided on "
        "positive overlaps)",
        "recording stubs for autoray.do(conj|real|sum|abs) and quimb.tensor.array_contract inside the REAL "
        "D2BP.compute_marginal / normalize_message_pair: the functions are executed unmodified from the source file",
        "D2BP message leg order (bra, ket): taken from D2BP.local_tensor_contract of the same file (compared on every run)",
    ],
    ASSUMPTIONS=[
        "tree exactness itself (fixed point of message passing == exact value) stays with the bounded drivers; what is "
        "decided here is the counting argument: one +1 term per tensor/region, one -1 term per bond, stored sign/exponent "
        "threaded into the proved combiner",
        "compute_index_marginal / compute_all_index_marginals_from_messages: symbolic in the data, enumerated for bond "
        "dimension 1..3 and 1..3 tensors per index; D2BP.compute_marginal: every tensor of 1..4 legs, every output "
        "position, every subset of bonded legs (the function is uniform in the leg position)",
        "BeliefPropagationCommon.run (E1): domain max_iterations >= 1 (max_iterations == 0 raises UnboundLocalError on "
        "'max_mdiff' with the default tol: reported defect, outside the contract), diis=False, progbar=False, iterate "
        "returning a plain number (the dict-returning flavours' result.get('max_mdiff') branch is not covered); iterate, "
        "_maybe_contract, callback and RollingDiffMean are uninterpreted (k-th reported change MD(k), rolling mean AMD(k))",
        "HV1BP.contract, compute_tensor_marginal, the per-flavour iterate/update functions and D2BP gauging are NOT covered",
    ],
    BOUNDED_FOR={"compute_index_marginal": ["marginal"], "compute_marginal": ["marginal"]},
    EXPLANATION="E1 (BeliefPropagationCommon.run, all of tol_abs / tol_rolling_diff / info / callback given or not): "
                "iterate is called exactly `it` <= max_iterations times, each time with tol=tol; self.n advances by it; the "
                "loop stops only when converged or exhausted; converged holds iff the LAST reported change is below "
                "tol_abs (default tol) or the rolling mean is below a positive tol_rolling_diff (default tol); every "
                "reported change is recorded and fed to the rolling mean; the warning is issued iff tol != 0 and not "
                "converged; info is filled with exactly these values.  E4 (ast path analysis of the real contract methods of D1BP, D2BP, L1BP, L2BP, HD1BP and of "
                "contract_hyper_messages): on every control-flow path each tensor / site / factor contributes exactly one "
                "local value with counting number +1 (sites without neighbours included), each bond exactly one with -1 "
                "(read from the two opposite messages; only output indices may be skipped), nothing else touches the list, "
                "and list, strip_exponent, check_zero, stored sign (squared for 2-norm) and exponent (doubled) reach "
                "combine_local_contractions.  E2 / fdx on the real functions: normalize_message_pair leaves <mi|mj> = 1 "
                "and equal self-overlaps; the damping setter installs d*old+(1-d)*new (new for 0, the callable itself); "
                "index marginals are the normalised product of the messages INTO the index; D2BP.compute_marginal "
                "contracts ket, conjugated bra and each incoming message with legs (bra, ket), takes the diagonal on the "
                "asked index and returns the real part normalised to one.")
