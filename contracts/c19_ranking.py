"""C19 -- configuration ranking kernels of quimb/operator/configcore.py are bijections of the right size;
finite-domain-exhaustive checks of the operator tables of quimb/operator/builder.py.

Method (DESIGN 2/C19 paragraph P, B.5).  Every kernel is proved (VCs from the real source) to compute a
*recurrence spec* (uninterpreted spec functions whose defining equations are assumed only as ground instances):

   val(c,0)=0, val(c,i+1)=2*val(c,i)+c[i]                      Horner value of a bit prefix      (rank, nosymm / z2)
   sh(r,0)=r,  sh(r,j+1)=sh(r,j) div 2                         right shifts                      (unrank, nosymm / z2)
   pow2(0)=1,  pow2(m+1)=2*pow2(m)
   par(c,0)=0, par(c,i+1)=(par(c,i)+c[i]) mod 2                parity of a bit prefix            (z2)
   PB(r,n,0)=0, PB(r,n,i+1)=(PB(r,n,i)+sh(r,n-2-i)) mod 2      parity of the i leading rank bits (z2 unrank)
   C(n,0)=1, C(0,k)=0 (k>=1), C(n+1,k+1)=C(n,k)+C(n,k+1)       binomial coefficient
   R(c,n,k,0)=0, KR(c,k,0)=k, R(..,i+1)=R(..,i)+[c[i]=1]*C(n-1-i,KR(c,k,i)), KR(c,k,i+1)=KR(c,k,i)-c[i]   (u1 rank)
   UR(r,n,k,0)=r, UK(r,n,k,0)=k, t=C(n-1-i,UK(i)), UB(i)=[UR(i)>=t], UR(i+1)=UR(i)-UB*t, UK(i+1)=UK(i)-UB  (u1 unrank)
   ST(sz,n,n-1)=1, ST(sz,n,i)=ST(sz,n,i+1)*sz[i+1]             strides;   S(c,st,i+1)=S(c,st,i)+c[i]*st[i]  (mixed radix)

The bijection statements (rank o unrank = id on [0,size), unrank o rank = id on the sector, ranks land in
[0,size)) are pure lemmas over these recurrences, each induction given as a base / step pair (the induction
principle over the naturals is the only thing trusted there).  Everything is linear integer arithmetic + UF
except the mixed-radix / u1u1 products (hints given as separate lemmas).

How the pieces compose (per sector; [K] = kernel contract, proved from the source; (L) = lemma group):
  nosymm  [K] unrank writes c'[j] = sh(r,n-1-j) mod 2; [K] rank returns val(c,n) in [0,pow2(n)).
          (L) sh-bound, nosymm-rank-of-unrank: val(c',n) = r for 0 <= r < pow2(n);  nosymm-unrank-of-rank: the bits
          written for r = val(c,n) are c's;  val-range: ranks in [0,pow2(n))  => bijection [0,2^n) <-> {0,1}^n.
  z2      first n-1 bits: the nosymm statements at N = n-1;  (L) z2-parity-spec / z2-unranked-has-parity-p: unrank lands
          in the parity-p sector;  z2-last-bit-recovered: the last bit of a parity-p string is restored  => size 2^(n-1).
  u1      [K] build_pascal_table: pt = C;  [K] rank = R(c,n,k,n);  [K] unrank writes the greedy bits UB(r,n,k,j).
          (L) u1-unrank-block (+exhausted), u1-rank-of-unrank: R(c',n) = r and weight(c') = k for 0 <= r < C(n,k);
          u1-tail-bound, u1-rank-in-sector: 0 <= R(c,n) < C(n,k);  u1-unrank-of-rank: greedy bits of R(c,n) are c's.
  u1u1    [K] rank = R(c[:na])*Db + R(c[na:]), unrank = u1-unrank(r div Db), u1-unrank(r mod Db), Db = C(nb,kb);
          (L) u1u1-quotient-below / -rank-of-unrank / -unrank-of-rank / -rank-in-sector (digits unique)  => C(na,ka)*C(nb,kb).
  mixed   [K] strides = ST, rank = S(c,strides,n), unrank digit j = (r div strides[j]) mod sizes[j] in [0,sizes[j]).
          (L) mr-nested-division, mr-rank-of-unrank, mr-horner, mr-tail-bound, mr-unrank-of-rank, mr-rank-in-range
          => bijection [0, prod sizes) <-> prod_j [0,sizes[j]).

Second part of the module: fdx (finite-domain exhaustive) providers for the operator tables of builder.py.
"""

import itertools
import time

import z3

from vf.pyvc import And, Arr, Contract, I, If, Implies, Loop, NS, Not, Or, Unsupported, Z, is_z3, register
from vf import lemmas

CC = "quimb/operator/configcore.py"
BD = "quimb/operator/builder.py"
PID = "C19"

IntS = z3.IntSort()
ArrS = z3.ArraySort(IntS, IntS)

# ---------------------------------------------------------------------------------------------------------
# spec functions (uninterpreted; defining equations enter proofs only as ground instances: `def-...`)
# ---------------------------------------------------------------------------------------------------------
pow2 = z3.Function("pow2", IntS, IntS)
val = z3.Function("val", ArrS, IntS, IntS)
sh = z3.Function("sh", IntS, IntS, IntS)
par = z3.Function("par", ArrS, IntS, IntS)
PB = z3.Function("PB", IntS, IntS, IntS, IntS)
C = z3.Function("C", IntS, IntS, IntS)
Rk = z3.Function("R", ArrS, IntS, IntS, IntS, IntS)  # R(c, n, k, i)
KR = z3.Function("KR", ArrS, IntS, IntS, IntS)  # KR(c, k, i)
UR = z3.Function("UR", IntS, IntS, IntS, IntS, IntS)  # UR(r0, n, k, i)
UK = z3.Function("UK", IntS, IntS, IntS, IntS, IntS)  # UK(r0, n, k, i)
ST = z3.Function("ST", ArrS, IntS, IntS, IntS)  # ST(sizes, n, i) = prod_{j>i} sizes[j]
Sm = z3.Function("S", ArrS, ArrS, IntS, IntS)  # S(c, strides, i) = sum_{j<i} c[j]*strides[j]
shift = z3.Function("shift", ArrS, IntS, ArrS)  # view c[off:]  : shift(c,off)[j] = c[j+off]
# products / quotients by symbolic terms in the u1u1 kernels are kept abstract inside the code proofs (linear queries);
# their definitions  mulU(x,y) = x*y,  and for d >= 1:  x = d*divU(x,d) + modU(x,d), 0 <= modU(x,d) < d  (python // and %)
# are instantiated only in the arithmetic lemmas
mulU = z3.Function("mul", IntS, IntS, IntS)
divU = z3.Function("div", IntS, IntS, IntS)
modU = z3.Function("mod", IntS, IntS, IntS)

G = z3.Int("g!skolem")  # arbitrary index (never constrained): statements proved at G hold at every index
G2 = z3.Int("g2!skolem")
J = z3.Int("j!q")  # bound variables of the quantified invariants
J2 = z3.Int("k!q")
INT64_MAX = 2 ** 63 - 1


def sel(a, *idx):
    t = a.a if isinstance(a, Arr) else a
    for i in idx:
        t = z3.Select(t, i)
    return t


def forall(body, *pats):
    """ForAll j. body(j) with explicit Select patterns (multi-pattern when several are given)"""
    b = body(J)
    ps = [p(J) for p in pats]
    return z3.ForAll([J], b, patterns=ps) if ps else z3.ForAll([J], b)


def is_bit(x):
    return Or(x == 0, x == 1)


IsBits = z3.Function("IsBits", ArrS, IntS, IntS, z3.BoolSort())
PT_S = z3.ArraySort(IntS, ArrS)
IsPascal = z3.Function("IsPascal", PT_S, IntS, IntS, z3.BoolSort())
# The two array predicates are kept opaque inside the code proofs (all obligations stay quantifier free, so a failed
# one comes with a model); their definitions
#     IsBits(c,lo,hi)    :<=>  forall j.  lo <= j < hi  =>  c[j] in {0,1}
#     IsPascal(pt,d1,d2) :<=>  forall a,b. 0 <= a < d1, 0 <= b < d2  =>  pt[a,b] = (C(a,b) if b <= a else 0)
# are used (i) as instances at the indices the code reads (`bits_at`, `pascal_at`), (ii) unfolded where a contract has
# to establish the predicate (build_pascal_table), (iii) in the lemmas bits-subrange / bits-shift.


def bits(c, lo, hi):
    """c[j] in {0,1} for lo <= j < hi"""
    return IsBits(c.a if isinstance(c, Arr) else c, lo, hi)


def bits_forall(c, lo, hi):
    return forall(lambda j: Implies(And(lo <= j, j < hi), is_bit(sel(c, j))), lambda j: sel(c, j))


def bits_at(c, lo, hi, i):
    """instance of the definition of IsBits at index i"""
    return Implies(And(bits(c, lo, hi), lo <= i, i < hi), is_bit(sel(c, i)))


# definitional instances -----------------------------------------------------------------------------------
def def_pow2(m):
    """pow2(m+1) = 2*pow2(m) for m >= 0, pow2(0) = 1"""
    return [pow2(0) == 1, Implies(m >= 0, pow2(m + 1) == 2 * pow2(m))]


def def_val(c, i):
    return [val(c, 0) == 0, Implies(i >= 0, val(c, i + 1) == 2 * val(c, i) + sel(c, i))]


def def_sh(r, j):
    return [sh(r, 0) == r, Implies(j >= 0, sh(r, j + 1) == sh(r, j) / 2)]


def def_par(c, i):
    return [par(c, 0) == 0, Implies(i >= 0, par(c, i + 1) == (par(c, i) + sel(c, i)) % 2)]


def def_PB(r, n, i):
    return [PB(r, n, 0) == 0, Implies(i >= 0, PB(r, n, i + 1) == (PB(r, n, i) + sh(r, n - 2 - i) % 2) % 2)]


def def_C(n, k):
    """instances at (n,k): C(n,0)=1, C(0,k)=0 for k>=1, Pascal C(n+1,k+1)=C(n,k)+C(n,k+1)   (n,k >= 0)"""
    return [Implies(n >= 0, C(n, 0) == 1), Implies(k >= 1, C(0, k) == 0),
            Implies(And(n >= 0, k >= 0), C(n + 1, k + 1) == C(n, k) + C(n, k + 1))]


def def_R(c, n, k, i):
    t = C(n - 1 - i, KR(c, k, i))
    return [Rk(c, n, k, 0) == 0, KR(c, k, 0) == k,
            Implies(i >= 0, Rk(c, n, k, i + 1) == Rk(c, n, k, i) + If(sel(c, i) == 1, t, 0)),
            Implies(i >= 0, KR(c, k, i + 1) == KR(c, k, i) - sel(c, i))]


def UBit(r0, n, k, i):
    """bit i of the u1 unranking of r0: the remaining rank reaches the block of the strings with a 1 here"""
    return UR(r0, n, k, i) >= C(n - 1 - i, UK(r0, n, k, i))


def def_U(r0, n, k, i):
    t = C(n - 1 - i, UK(r0, n, k, i))
    b = UBit(r0, n, k, i)
    return [UR(r0, n, k, 0) == r0, UK(r0, n, k, 0) == k,
            Implies(i >= 0, UR(r0, n, k, i + 1) == If(b, UR(r0, n, k, i) - t, UR(r0, n, k, i))),
            Implies(i >= 0, UK(r0, n, k, i + 1) == If(b, UK(r0, n, k, i) - 1, UK(r0, n, k, i)))]


def def_ST(sz, n, i):
    return [Implies(n >= 1, ST(sz, n, n - 1) == 1),
            Implies(And(0 <= i, i < n - 1), ST(sz, n, i) == ST(sz, n, i + 1) * sel(sz, i + 1))]


def def_S(c, st, i):
    return [Sm(c, st, 0) == 0, Implies(i >= 0, Sm(c, st, i + 1) == Sm(c, st, i) + sel(c, i) * sel(st, i))]


def def_mul(x, y):
    return [mulU(x, y) == x * y]


def def_divmod(x, d):
    """floor division / modulo by a positive divisor (python semantics), written with the abstract product"""
    return [Implies(d >= 1, And(x == mulU(d, divU(x, d)) + modU(x, d), 0 <= modU(x, d), modU(x, d) < d))]


def def_shift(c, off, j):
    """instance at j of the definition of the view c[off:]"""
    return sel(shift(c, off), j) == sel(c, j + off)


def def_shift_forall(c, off):
    return forall(lambda j: sel(shift(c, off), j) == sel(c, j + off), lambda j: sel(shift(c, off), j))


# ---------------------------------------------------------------------------------------------------------
# shared modelling of the njit kernels
# ---------------------------------------------------------------------------------------------------------


class Kernel(Contract):
    """numpy allocation, dtype casts, bit operations on non-negative ints (each encoding emits its `enc`
    side condition; shifts / ors also an `overflow` side condition: the result fits int64)"""

    property_ids = (PID,)
    drops = "decorators (@njit(cache, nogil, inline)), docstring; ints mathematical (overflow side conditions emitted)"

    def attr(self, cx, base, attr, node):
        if base is None and attr == "np":
            return NS(_np=True, uint8="uint8", int64="int64", uint64="uint64", uint32="uint32", float64="float64")
        return NotImplemented

    def intvec(self, cx, name, n):
        return Arr(cx.Array(name, IntS, IntS), (n,))

    def call(self, cx, name, args, kwargs, node):
        line = node.lineno
        if name in ("np.empty", "np.zeros", "np.ones"):
            shp = args[0]
            shp = tuple(shp) if isinstance(shp, (tuple, list)) else (shp,)
            for k, s in enumerate(shp):
                cx.oblige(f"alloc@{line}:dim{k}>=0", "safety", Z(s) >= 0, line)
            sorts = [IntS] * (len(shp) + 1)
            if name == "np.empty":
                a = cx.Array(f"empty@{line}", *sorts)  # arbitrary content
            else:
                cst = z3.IntVal(0 if name == "np.zeros" else 1)
                a = cst
                for _ in shp:
                    a = z3.K(IntS, a)
            return Arr(a, shp)
        if name in ("np.int64", "np.uint64", "np.uint32", "np.uint8"):
            return args[0]  # ints are mathematical (see drops)
        if name == "__bitop__":
            return self.bitop(cx, args[0], args[1], args[2], node)
        if name == "__binop__" and args[0] == "BitXor":
            return self.bitop(cx, "BitXor", args[1], args[2], node)
        return NotImplemented

    def bitop(self, cx, op, a, b, node):
        line = node.lineno
        a = I(a) if (is_z3(a) or isinstance(a, bool)) else a
        b = I(b) if (is_z3(b) or isinstance(b, bool)) else b
        if op == "LShift" and isinstance(b, int) and b == 1:
            cx.oblige(f"enc@{line}:lshift-nonneg", "enc", Z(a) >= 0, line)
            return 2 * Z(a)
        if op == "LShift" and isinstance(a, int) and a == 1:
            # 1 << e  ==  pow2(e)   (exact for e >= 0; python raises / numba is undefined for e < 0)
            cx.oblige(f"enc@{line}:shift-count>=0", "enc", Z(b) >= 0, line)
            cx.oblige(f"overflow@{line}:shift-count<=62", "enc", Z(b) <= 62, line)
            return pow2(Z(b))
        if op == "RShift" and isinstance(b, int) and b == 1:
            cx.oblige(f"enc@{line}:rshift-nonneg", "enc", Z(a) >= 0, line)
            return Z(a) / 2
        if op == "BitAnd" and isinstance(b, int) and b == 1:
            cx.oblige(f"enc@{line}:and1-nonneg", "enc", Z(a) >= 0, line)
            return Z(a) % 2
        if op == "BitOr":
            # a | b == a + b  when a is even and b is a single bit
            cx.oblige(f"enc@{line}:or-even-lhs", "enc", And(Z(a) >= 0, Z(a) % 2 == 0), line)
            cx.oblige(f"enc@{line}:or-bit-rhs", "enc", is_bit(Z(b)), line)
            cx.oblige(f"overflow@{line}:or-fits-int64", "enc", Z(a) + Z(b) <= INT64_MAX, line)
            return Z(a) + Z(b)
        if op == "BitXor":
            cx.oblige(f"enc@{line}:xor-bits", "enc", And(is_bit(Z(a)), is_bit(Z(b))), line)
            return (Z(a) + Z(b)) % 2
        raise Unsupported(f"bit operation {op} at line {line}")

    def unmodified(self, a, cx, *names):
        """(proof mode) the named array parameters hold their entry content at the arbitrary index G: read-only inputs"""
        if cx.contract is not self:
            return {}
        return {f"{nm}-not-modified": (isinstance(cx.env.get(nm), Arr) and cx.env[nm].ndim == a[nm].ndim and
                                       sel(cx.env[nm], *([G] if a[nm].ndim == 1 else [G, G2])) ==
                                       sel(a[nm], *([G] if a[nm].ndim == 1 else [G, G2]))) for nm in names}

    def final(self, a, cx, name="flatconfig"):
        """the array parameter after the call: published value when used as callee, else the current local"""
        out = a.__dict__.get("_out") or {}
        a.__dict__["_cx"] = cx
        return out[name] if name in out else cx.env[name]

    def publish(self, cx, a, name="flatconfig"):
        new = Arr(cx.Array(f"{name}'", IntS, IntS), a[name].shape)
        a.__dict__.setdefault("_out", {})[name] = new
        return new


# pow2 is monotone and pow2(62) = 2^62: instances of lemmas pow2-monotone / pow2-62 (proved below)
def pow2_bound(i):
    return [Implies(And(0 <= i, i <= 62), pow2(i) <= pow2(62)), pow2(62) == 2 ** 62]


# ---------------------------------------------------------------------------------------------------------
# no symmetry: [0, 2^n)  <->  {0,1}^n
# ---------------------------------------------------------------------------------------------------------


@register
class RankNosymm(Kernel):
    """r = val(c, n)  (Horner), and 0 <= r < 2^n"""

    target = f"{CC}::flatconfig_to_rank_nosymm"
    floor = 8

    def inputs(self, cx, case):
        n = cx.Int("n")
        return dict(flatconfig=self.intvec(cx, "c", n))

    def requires(self, a, case):
        c = a.flatconfig
        n = c.shape[0]
        return {"n>=0": n >= 0, "n<=62": n <= 62, "bits": bits(c, 0, n)}

    def ensures(self, a, r, cx, case):
        c = a.flatconfig
        n = c.shape[0]
        return {"rank==val": r == val(c.a, n), "in-range": And(0 <= r, r < pow2(n)), **self.unmodified(a, cx, "flatconfig")}

    def fresh_result(self, cx, a, case):
        return cx.Int("rank")

    loops = {0: Loop("for xi in flatconfig",
                     inv=lambda v: {"horner": v.r == val(v.old.flatconfig.a, v._it0),
                                    "range": And(0 <= v.r, v.r < pow2(v._it0)),
                                    "it<=n": v._it0 <= v.old.flatconfig.shape[0]},
                     facts=lambda v: def_val(v.old.flatconfig.a, v._it0) + def_pow2(v._it0) + pow2_bound(v._it0 + 1) +
                     [bits_at(v.old.flatconfig, 0, v.old.flatconfig.shape[0], v._it0)])}


class Unrank2(Kernel):
    """common part of the unranking kernels, which only *write* the configuration: statements about the array
    are proved at one arbitrary (skolem) index G -- quantifier free, so failed obligations come with models --
    hence hold for all indices (forall-introduction over G); call sites assume the instances they need."""

    def as_callee(self, a):
        return "_out" in a.__dict__

    def at_all(self, a, body):
        """body(j): at the skolem index when proved; when assumed at a call site: the instances of `forall j`
        at the indices the calling contract asks for (default: its own skolem index G) -- assuming instances
        only is sound and keeps the caller's obligations quantifier free"""
        if self.as_callee(a):
            cx = a.__dict__["_cx"]
            inst = getattr(cx.contract, "instances", None)
            return And(*[body(j) for j in (inst(cx) if inst else [G])])
        return body(G)

    def unrank_post(self, a, c1, r0, nbits):
        """c'[j] = bit (nbits-1-j) of r0 for j < nbits"""
        self._c1 = c1
        return self.at_all(a, lambda j: Implies(And(0 <= j, j < nbits), sel(c1, j) == sh(r0, nbits - 1 - j) % 2))

    def frame_post(self, a, c1, c0, lo, hi):
        self._c1 = c1
        return self.at_all(a, lambda j: Implies(Or(j < lo, j >= hi), sel(c1, j) == sel(c0, j)))


@register
class UnrankNosymm(Unrank2):
    """c'[j] = (r >> (n-1-j)) & 1 for 0 <= j < n, nothing else written"""

    target = f"{CC}::rank_into_flatconfig_nosymm"
    floor = 8

    def inputs(self, cx, case):
        n = cx.Int("n")
        return dict(flatconfig=self.intvec(cx, "c", n), r=cx.Int("r"), n=n)

    def requires(self, a, case):
        return {"n>=0": a.n >= 0, "shape": a.flatconfig.shape[0] == a.n, "r>=0": a.r >= 0}

    def ensures(self, a, res, cx, case):
        c1 = self.final(a, cx)
        return {"bits-of-r": self.unrank_post(a, c1, a.r, a.n),
                "frame": self.frame_post(a, c1, a.flatconfig, 0, a.n),
                "returns-None": res is None}

    def fresh_result(self, cx, a, case):
        self.publish(cx, a)
        return None

    def _inv(v):
        o = v.old
        c, c0 = v.flatconfig, o.flatconfig
        return {"r==sh": And(v.r == sh(o.r, v._it0), v.r >= 0),
                "it<=n": v._it0 <= o.n,
                "suffix": Implies(And(v.i < G, G < o.n), sel(c, G) == sh(o.r, o.n - 1 - G) % 2),
                "frame": Implies(Or(G <= v.i, G >= o.n), sel(c, G) == sel(c0, G))}

    loops = {0: Loop("for i in range(n - 1, -1, -1)", inv=_inv, facts=lambda v: def_sh(v.old.r, v._it0))}


@register
class RankToNosymm(Unrank2):
    target = f"{CC}::rank_to_flatconfig_nosymm"
    floor = 4

    def inputs(self, cx, case):
        return dict(r=cx.Int("r"), n=cx.Int("n"))

    def requires(self, a, case):
        return {"n>=0": a.n >= 0, "r>=0": a.r >= 0}

    def ensures(self, a, res, cx, case):
        ok = isinstance(res, Arr) and res.ndim == 1
        if not ok:
            return {"returns-vector": False}
        return {"length": res.shape[0] == a.n, "bits-of-r": self.unrank_post(a, res, a.r, a.n)}

    def fresh_result(self, cx, a, case):
        return self.intvec(cx, "cfg", a.n)


def native_search(name):
    """native counterexample search for a failed obligation of kernel `name`: the python text of the REAL kernel
    (py_func) is run on every input of a small domain (n <= 6) and compared with an independent reference
    (binary value / lexicographic position among the sector's strings / math.comb / itertools.product order).
    SMT models of invariant obligations describe a havoc'd loop state, not an input, hence a search."""
    import itertools as it
    import math

    import numpy as np
    from quimb.operator import configcore as K

    f = lambda nm: getattr(getattr(K, nm), "py_func", getattr(K, nm))  # noqa: E731
    u8 = lambda bits_: np.array(bits_, dtype=np.uint8)  # noqa: E731
    bad = lambda call, obs, exp: dict(call=call, observed=str(obs), expected=str(exp), reproduced=True)  # noqa: E731

    def guarded(call, thunk, exp, conv=lambda x: x):
        try:
            obs = conv(thunk())
        except Exception as e:  # noqa: BLE001
            return bad(call, f"{type(e).__name__}: {e}", exp)
        return None if obs == exp else bad(call, obs, exp)

    tolist = lambda a: [int(x) for x in a]  # noqa: E731

    def into(fn, n, *args):
        c = np.full(n, 7, dtype=np.uint8)
        r = f(fn)(c, *args)
        return (r, tolist(c))

    for n in range(0, 7):
        strings = list(it.product((0, 1), repeat=n))
        if name in ("flatconfig_to_rank_nosymm", "rank_into_flatconfig_nosymm", "rank_to_flatconfig_nosymm"):
            for r, bs in enumerate(strings):
                if name == "flatconfig_to_rank_nosymm":
                    x = guarded(f"{name}({list(bs)})", lambda: f(name)(u8(bs)), r, int)
                elif name == "rank_into_flatconfig_nosymm":
                    x = guarded(f"{name}(c, {r}, {n})", lambda: into(name, n, r, n), (None, list(bs)))
                else:
                    x = guarded(f"{name}({r}, {n})", lambda: tolist(f(name)(r, n)), list(bs))
                if x:
                    return x
        if name in ("flatconfig_to_rank_z2", "rank_into_flatconfig_z2", "rank_to_flatconfig_z2") and n >= 2:
            for p_ in (0, 1):
                sector = [bs for bs in strings if sum(bs) % 2 == p_]
                for r, bs in enumerate(sector):
                    if name == "flatconfig_to_rank_z2":
                        x = guarded(f"{name}({list(bs)})", lambda: f(name)(u8(bs)), r, int)
                    elif name == "rank_into_flatconfig_z2":
                        x = guarded(f"{name}(c, {r}, {n}, {p_})", lambda: into(name, n, r, n, p_), (None, list(bs)))
                    else:
                        x = guarded(f"{name}({r}, {n}, {p_})", lambda: tolist(f(name)(r, n, p_)), list(bs))
                    if x:
                        return x
        if name == "build_pascal_table":
            exp = [[math.comb(a, b) for b in range(n + 1)] for a in range(n + 1)]
            x = guarded(f"{name}({n})", lambda: [tolist(row) for row in f(name)(n)], exp)
            if x:
                return x
        pt = np.array([[math.comb(a, b) for b in range(n + 2)] for a in range(n + 2)], dtype=np.int64)
        if name in ("flatconfig_to_rank_u1_pascal", "rank_into_flatconfig_u1_pascal", "rank_to_flatconfig_u1_pascal"):
            for k in range(n + 1):
                sector = [bs for bs in strings if sum(bs) == k]
                for r, bs in enumerate(sector):
                    if name == "flatconfig_to_rank_u1_pascal":
                        x = guarded(f"{name}({list(bs)}, {n}, {k}, pascal)", lambda: f(name)(u8(bs), n, k, pt), r, int)
                    elif name == "rank_into_flatconfig_u1_pascal":
                        x = guarded(f"{name}(c, {r}, {n}, {k}, pascal)", lambda: into(name, n, r, n, k, pt), (None, list(bs)))
                    else:
                        x = guarded(f"{name}({r}, {n}, {k}, pascal)", lambda: tolist(f(name)(r, n, k, pt)), list(bs))
                    if x:
                        return x
        if name.endswith("u1u1_pascal"):
            for na in range(n + 1):
                nb = n - na
                for ka in range(na + 1):
                    for kb in range(nb + 1):
                        sector = [bs for bs in strings if sum(bs[:na]) == ka and sum(bs[na:]) == kb]
                        for r, bs in enumerate(sector):
                            if name == "flatconfig_to_rank_u1u1_pascal":
                                x = guarded(f"{name}({list(bs)}, {na}, {ka}, {nb}, {kb}, pascal)",
                                            lambda: f(name)(u8(bs), na, ka, nb, kb, pt), r, int)
                            elif name == "rank_into_flatconfig_u1u1_pascal":
                                x = guarded(f"{name}(c, {r}, {na}, {ka}, {nb}, {kb}, pascal)",
                                            lambda: into(name, n, r, na, ka, nb, kb, pt), (None, list(bs)))
                            else:
                                x = guarded(f"{name}({r}, {na}, {ka}, {nb}, {kb}, pascal)",
                                            lambda: tolist(f(name)(r, na, ka, nb, kb, pt)), list(bs))
                            if x:
                                return x
        if name in ("calculate_strides", "flatconfig_to_rank_mixed_radix_nosymm", "rank_into_flatconfig_mixed_radix_nosymm",
                    "rank_to_flatconfig_mixed_radix_nosymm") and n <= 4:
            for sizes in it.product((1, 2, 3), repeat=n):
                strides = [math.prod(sizes[j + 1:]) for j in range(n)]
                szs, sts = np.array(sizes, dtype=np.int64), np.array(strides, dtype=np.int64)
                if name == "calculate_strides":
                    x = guarded(f"{name}({list(sizes)})", lambda: tolist(f(name)(szs)), strides)
                    if x:
                        return x
                    continue
                for r, cfg in enumerate(it.product(*[range(s_) for s_ in sizes])):
                    if name == "flatconfig_to_rank_mixed_radix_nosymm":
                        x = guarded(f"{name}({list(cfg)}, {strides})", lambda: f(name)(u8(cfg), sts), r, int)
                    elif name == "rank_into_flatconfig_mixed_radix_nosymm":
                        x = guarded(f"{name}(c, {r}, {list(sizes)}, {strides})", lambda: into(name, n, r, szs, sts),
                                    (None, list(cfg)))
                    else:
                        x = guarded(f"{name}({r}, {list(sizes)}, {strides})", lambda: tolist(f(name)(r, szs, sts)), list(cfg))
                    if x:
                        return x
    return dict(note=f"no counterexample to the reference semantics of {name} among all inputs with n <= 6", reproduced=False)


def _kernel_replay(self, model):
    return native_search(self.target.split("::")[-1])


Kernel.replay = _kernel_replay


# ---------------------------------------------------------------------------------------------------------
# lemmas: nosymm ranking is a bijection [0, 2^n) <-> {0,1}^n            (inductions as base / step pairs)
# ---------------------------------------------------------------------------------------------------------
_c = z3.Const("c", ArrS)
_n, _i, _j, _k, _r0, _m, _p = z3.Ints("n i j k r0 m p")


def L(name):
    return lemmas.lemma(PID, name)


@L("pow2-62")
def lem_pow2_62():
    # ground evaluation of the definition
    return [pow2(0) == 1] + [pow2(k + 1) == 2 * pow2(k) for k in range(62)], pow2(62) == 2 ** 62


@L("pow2-positive:base")
def lem_pow2_pos_b():
    return def_pow2(_m), pow2(0) >= 1


@L("pow2-positive:step")
def lem_pow2_pos_s():
    return def_pow2(_m) + [_m >= 0, pow2(_m) >= 1], pow2(_m + 1) >= 1


@L("pow2-monotone:base")
def lem_pow2_mono_b():
    # M(i, N): pow2(i) <= pow2(N), induction on N from N = i
    return [], pow2(_i) <= pow2(_i)


@L("pow2-monotone:step")
def lem_pow2_mono_s():
    # uses pow2-positive at N
    return def_pow2(_n) + [0 <= _i, _i <= _n, pow2(_i) <= pow2(_n), pow2(_n) >= 1], pow2(_i) <= pow2(_n + 1)


@L("sh-bound:base")
def lem_sh_bound_b():
    # A(j): 0 <= sh(r0,j) < pow2(n-j)     for 0 <= r0 < pow2(n)
    return def_sh(_r0, _j) + [0 <= _r0, _r0 < pow2(_n)], And(0 <= sh(_r0, 0), sh(_r0, 0) < pow2(_n - 0))


@L("sh-bound:step")
def lem_sh_bound_s():
    return (def_sh(_r0, _j) + def_pow2(_n - _j - 1) +
            [0 <= _j, _j < _n, 0 <= sh(_r0, _j), sh(_r0, _j) < pow2(_n - _j)]), \
        And(0 <= sh(_r0, _j + 1), sh(_r0, _j + 1) < pow2(_n - (_j + 1)))


@L("sh-bound:exhausted")
def lem_sh_zero():
    # A(n) gives sh(r0,n) = 0: all bits of a rank below 2^n are consumed after n shifts
    return def_pow2(_m) + [0 <= sh(_r0, _n), sh(_r0, _n) < pow2(_n - _n)], sh(_r0, _n) == 0


@L("nosymm-rank-of-unrank:base")
def lem_ru_b():
    # P(i): val(c,i) == sh(r0,n-i)  for c the unranked array (c[j] = sh(r0,n-1-j) mod 2); base uses sh-bound:exhausted
    return def_val(_c, _i) + [sh(_r0, _n) == 0], val(_c, 0) == sh(_r0, _n - 0)


@L("nosymm-rank-of-unrank:step")
def lem_ru_s():
    return (def_val(_c, _i) + def_sh(_r0, _n - 1 - _i) +
            [0 <= _i, _i < _n, sel(_c, _i) == sh(_r0, _n - 1 - _i) % 2, val(_c, _i) == sh(_r0, _n - _i)]), \
        val(_c, _i + 1) == sh(_r0, _n - (_i + 1))


@L("nosymm-rank-of-unrank:conclusion")
def lem_ru_c():
    # P(n): rank(unrank(r0)) = r0 on [0, 2^n)
    return def_sh(_r0, _j) + [val(_c, _n) == sh(_r0, _n - _n)], val(_c, _n) == _r0


@L("nosymm-unrank-of-rank:base")
def lem_ur_b():
    # Q(i): sh(val(c,n), n-i) == val(c,i), downward induction from i = n
    return def_sh(val(_c, _n), _j), sh(val(_c, _n), _n - _n) == val(_c, _n)


@L("nosymm-unrank-of-rank:step")
def lem_ur_s():
    x = val(_c, _n)
    return (def_sh(x, _n - _i - 1) + def_val(_c, _i) +
            [0 <= _i, _i < _n, is_bit(sel(_c, _i)), sh(x, _n - (_i + 1)) == val(_c, _i + 1)]), \
        sh(x, _n - _i) == val(_c, _i)


@L("nosymm-unrank-of-rank:conclusion")
def lem_ur_c():
    # bit j written by unrank(rank(c)) is c[j]: from Q(j+1)
    x = val(_c, _n)
    return (def_val(_c, _j) + [0 <= _j, _j < _n, is_bit(sel(_c, _j)), val(_c, _j) >= 0,
                               sh(x, _n - (_j + 1)) == val(_c, _j + 1)]), sh(x, _n - 1 - _j) % 2 == sel(_c, _j)


@L("val-range:base")
def lem_vr_b():
    # D(i): 0 <= val(c,i) < pow2(i) for bit arrays: ranks lie in [0, 2^n)
    return def_val(_c, _i) + def_pow2(_i), And(0 <= val(_c, 0), val(_c, 0) < pow2(0))


@L("val-range:step")
def lem_vr_s():
    return (def_val(_c, _i) + def_pow2(_i) +
            [0 <= _i, is_bit(sel(_c, _i)), 0 <= val(_c, _i), val(_c, _i) < pow2(_i)]), \
        And(0 <= val(_c, _i + 1), val(_c, _i + 1) < pow2(_i + 1))


# ---------------------------------------------------------------------------------------------------------
# Z2 (parity p sector):  [0, 2^(n-1))  <->  { c in {0,1}^n : parity(c) = p }
# ---------------------------------------------------------------------------------------------------------


@register
class RankZ2(Kernel):
    """the rank ignores the last bit: r = val(c, n-1), 0 <= r < 2^(n-1)"""

    target = f"{CC}::flatconfig_to_rank_z2"
    floor = 8

    def inputs(self, cx, case):
        n = cx.Int("n")
        return dict(flatconfig=self.intvec(cx, "c", n))

    def requires(self, a, case):
        c = a.flatconfig
        n = c.shape[0]
        return {"n>=0": n >= 0, "n<=62": n <= 62, "bits": bits(c, 0, n)}

    @staticmethod
    def nb(n):
        return If(n >= 1, n - 1, 0)  # number of ranked bits (the degenerate n = 0 has none)

    def ensures(self, a, r, cx, case):
        c = a.flatconfig
        nb = self.nb(c.shape[0])
        return {"rank==val(n-1)": r == val(c.a, nb), "in-range": And(0 <= r, r < pow2(nb)),
                **self.unmodified(a, cx, "flatconfig")}

    def fresh_result(self, cx, a, case):
        return cx.Int("rank")

    loops = {0: Loop("for i in range(flatconfig.size - 1)",
                     inv=lambda v: {"horner": v.r == val(v.old.flatconfig.a, v.i),
                                    "range": And(0 <= v.r, v.r < pow2(v.i)),
                                    "i-range": And(0 <= v.i, v.i <= RankZ2.nb(v.old.flatconfig.shape[0]))},
                     facts=lambda v: def_val(v.old.flatconfig.a, v.i) + def_pow2(v.i) + pow2_bound(v.i + 1) +
                     [bits_at(v.old.flatconfig, 0, v.old.flatconfig.shape[0], v.i)])}


@register
class UnrankZ2(Unrank2):
    """c'[j] = bit (n-2-j) of r for j < n-1 (most significant first), c'[n-1] = parity(those bits) xor p.
    Requires n >= 2: `1 << (n - 2)` is a negative shift otherwise (python raises, numba is undefined)."""

    target = f"{CC}::rank_into_flatconfig_z2"
    floor = 14

    def inputs(self, cx, case):
        n = cx.Int("n")
        return dict(flatconfig=self.intvec(cx, "c", n), r=cx.Int("r"), n=n, p=cx.Int("p"))

    def requires(self, a, case):
        return {"n>=2": a.n >= 2, "n<=62": a.n <= 62, "shape": a.flatconfig.shape[0] == a.n, "r>=0": a.r >= 0,
                "p-bit": is_bit(a.p)}

    def ensures(self, a, res, cx, case):
        c1 = self.final(a, cx)
        return {"bits-of-r": self.unrank_post(a, c1, a.r, a.n - 1),
                "last-bit": sel(c1, a.n - 1) == (PB(a.r, a.n, a.n - 1) + a.p) % 2,
                "frame": self.frame_post(a, c1, a.flatconfig, 0, a.n),
                "returns-None": res is None}

    def fresh_result(self, cx, a, case):
        self.publish(cx, a)
        return None

    def bitop(self, cx, op, a, b, node):
        if op == "BitAnd" and is_z3(b) and not isinstance(b, bool):
            # ASSUMED ENCODING (and-with-a-power-of-two):  for r >= 0, e >= 0:   r & 2^e = 2^e if bit e of r is set
            # else 0, bit e of r being (r >> e) & 1 = sh(r,e) mod 2.   Side condition (proved): the mask IS 2^e
            # for the ghost exponent e = n-2-i of the current iteration.
            o = cx.old
            e = o.n - 2 - cx.env["i"]
            cx.oblige(f"enc@{node.lineno}:mask-is-pow2", "enc", And(Z(a) >= 0, e >= 0, Z(b) == pow2(e)), node.lineno)
            return If(sh(Z(a), e) % 2 == 1, Z(b), 0)
        return super().bitop(cx, op, a, b, node)

    def _inv(v):
        o = v.old
        c, c0 = v.flatconfig, o.flatconfig
        return {"mask": v.m == If(v.i <= o.n - 2, pow2(o.n - 2 - v.i), 0),
                "parity": And(v.prem == PB(o.r, o.n, v.i), is_bit(v.prem)),
                "i-range": And(0 <= v.i, v.i <= o.n - 1),
                "r-unchanged": v.r == o.r,
                "prefix": Implies(And(0 <= G, G < v.i), sel(c, G) == sh(o.r, o.n - 2 - G) % 2),
                "frame": Implies(Or(G < 0, G >= v.i), sel(c, G) == sel(c0, G))}

    def _facts(v):
        o = v.old
        e = o.n - 2 - v.i
        # definitions at the current index; pow2(e) >= 1: instance of lemma pow2-positive
        return def_PB(o.r, o.n, v.i) + def_pow2(e - 1) + [Implies(e >= 0, pow2(e) >= 1)]

    loops = {0: Loop("for i in range(n - 1)", inv=_inv, facts=_facts)}


@register
class RankToZ2(Unrank2):
    target = f"{CC}::rank_to_flatconfig_z2"
    floor = 4

    def inputs(self, cx, case):
        return dict(r=cx.Int("r"), n=cx.Int("n"), p=cx.Int("p"))

    def requires(self, a, case):
        return {"n>=2": a.n >= 2, "n<=62": a.n <= 62, "r>=0": a.r >= 0, "p-bit": is_bit(a.p)}

    def ensures(self, a, res, cx, case):
        if not (isinstance(res, Arr) and res.ndim == 1):
            return {"returns-vector": False}
        return {"length": res.shape[0] == a.n, "bits-of-r": self.unrank_post(a, res, a.r, a.n - 1),
                "last-bit": sel(res, a.n - 1) == (PB(a.r, a.n, a.n - 1) + a.p) % 2}

    def fresh_result(self, cx, a, case):
        return self.intvec(cx, "cfg", a.n)


# --- lemmas: z2 -------------------------------------------------------------------------------------------
# Let N = n-1 (ranked bits).  unrank writes c[j] = sh(r0, N-1-j) mod 2 (j < N) -- exactly the nosymm unranking of r0
# on N bits -- so rank(unrank(r0)) = val(c', N) = r0 on [0, 2^N) and the first N bits of unrank(rank(c)) are those
# of c by the nosymm lemmas at n := N.  What remains is the parity bit.


@L("z2-parity-spec:base")
def lem_z2p_b():
    # E(i): par(c,i) == PB(r0,n,i)  for c with c[j] = sh(r0,n-2-j) mod 2  (j < n-1)
    return def_par(_c, _i) + def_PB(_r0, _n, _i), par(_c, 0) == PB(_r0, _n, 0)


@L("z2-parity-spec:step")
def lem_z2p_s():
    return (def_par(_c, _i) + def_PB(_r0, _n, _i) +
            [0 <= _i, _i < _n - 1, sel(_c, _i) == sh(_r0, _n - 2 - _i) % 2, par(_c, _i) == PB(_r0, _n, _i)]), \
        par(_c, _i + 1) == PB(_r0, _n, _i + 1)


@L("z2-parity-bit:base")
def lem_z2bit_b():
    return def_par(_c, _i), is_bit(par(_c, 0))


@L("z2-parity-bit:step")
def lem_z2bit_s():
    return def_par(_c, _i) + [0 <= _i], is_bit(par(_c, _i + 1))


@L("z2-unranked-has-parity-p")
def lem_z2_sector():
    # the unranked string lies in the parity-p sector: par(c', n) == p        (uses E(n-1), parity-bit)
    return (def_par(_c, _n - 1) + [_n >= 2, is_bit(_p), is_bit(par(_c, _n - 1)),
                                   par(_c, _n - 1) == PB(_r0, _n, _n - 1),
                                   sel(_c, _n - 1) == (PB(_r0, _n, _n - 1) + _p) % 2]), par(_c, _n) == _p


@L("z2-last-bit-recovered")
def lem_z2_last():
    # for a parity-p bit string c, the last bit written by unrank(rank(c)) -- par(prefix) xor p -- is c[n-1]
    return (def_par(_c, _n - 1) + [_n >= 2, is_bit(_p), is_bit(par(_c, _n - 1)), is_bit(sel(_c, _n - 1)),
                                   par(_c, _n) == _p]), sel(_c, _n - 1) == (par(_c, _n - 1) + _p) % 2


# ---------------------------------------------------------------------------------------------------------
# U1 (weight k sector):  [0, C(n,k))  <->  { c in {0,1}^n : weight(c) = k }
# ---------------------------------------------------------------------------------------------------------


def C_zero_above(n, k):
    """instance of lemma C-zero-above-diagonal"""
    return Implies(And(0 <= n, n < k), C(n, k) == 0)


def pascal(pt, d1, d2):
    """the table predicate: pt[a,b] = C(a,b) on and below the diagonal, 0 above it   (0 <= a < d1, 0 <= b < d2)"""
    return IsPascal(pt.a if isinstance(pt, Arr) else pt, d1, d2)


def pascal_forall(pt, d1, d2):
    body = Implies(And(0 <= J, J < d1, 0 <= J2, J2 < d2), sel(pt, J, J2) == If(J2 <= J, C(J, J2), 0))
    return z3.ForAll([J, J2], body, patterns=[sel(pt, J, J2)])


def pascal_at(pt, d1, d2, i, j):
    """instance of the definition of IsPascal at cell (i,j)"""
    return Implies(And(pascal(pt, d1, d2), 0 <= i, i < d1, 0 <= j, j < d2), sel(pt, i, j) == If(j <= i, C(i, j), 0))


@register
class BuildPascalTable(Kernel):
    """pt has shape (nmax+1, nmax+1), pt[n,k] = C(n,k) for 0 <= k <= n <= nmax and 0 above the diagonal"""

    target = f"{CC}::build_pascal_table"
    floor = 12

    def inputs(self, cx, case):
        return dict(nmax=cx.Int("nmax"))

    def requires(self, a, case):
        return {"nmax>=0": a.nmax >= 0}

    def ensures(self, a, res, cx, case):
        if not (isinstance(res, Arr) and res.ndim == 2):
            return {"returns-matrix": False}
        d = a.nmax + 1
        # proved in the unfolded (quantified) form; call sites get the predicate (definition of IsPascal)
        proving = cx.contract is self
        return {"shape": And(res.shape[0] == d, res.shape[1] == d),
                "pascal": pascal_forall(res, d, d) if proving else pascal(res, d, d)}

    def fresh_result(self, cx, a, case):
        d = a.nmax + 1
        return Arr(cx.Array("pt", IntS, IntS, IntS), (d, d))

    @staticmethod
    def rows(v, n_done, partial=None):
        """rows < n_done are final, row `n` (when partial = k) is filled for columns < k, everything else is 0"""
        d = v.old.nmax + 1
        cell = sel(v.pt, J, J2)
        final = If(J2 <= J, C(J, J2), 0)
        if partial is None:
            want = If(J < n_done, final, 0)
        else:
            want = If(J < n_done, final, If(And(J == n_done, J2 < partial), final, 0))
        return z3.ForAll([J, J2], Implies(And(0 <= J, J < d, 0 <= J2, J2 < d), cell == want), patterns=[cell])

    def _outer(v):
        return {"rows": BuildPascalTable.rows(v, v.n), "n-range": And(0 <= v.n, v.n <= v.old.nmax + 1),
                "d": v.d == v.old.nmax + 1}

    def _inner(v):
        return {"rows": BuildPascalTable.rows(v, v.n, v.k), "k-range": And(1 <= v.k, v.k <= v.n + 1),
                "n-range": And(0 <= v.n, v.n <= v.old.nmax), "d": v.d == v.old.nmax + 1}

    def _facts(v):
        # C(n,0) = 1;  Pascal at (n-1,k-1);  C(n-1,k) = 0 above the diagonal is read from the table (zeros), and
        # C(n,n) = C(n-1,n-1) + C(n-1,n) needs C(n-1,n) = 0: instance of lemma C-zero-above-diagonal
        n, k = v.n, v.get("k", 1)
        return def_C(n, 0) + def_C(n - 1, k - 1) + [Implies(And(n >= 1, k > n - 1), C(n - 1, k) == 0)]

    loops = {0: Loop("for n in range(d)", inv=_outer, facts=_facts),
             1: Loop("for k in range(1, n + 1)", inv=_inner, facts=_facts)}


class U1(Unrank2):
    """shared: the Pascal table parameter"""

    def table(self, cx):
        d1, d2 = cx.Int("d1"), cx.Int("d2")
        return Arr(cx.Array("pt", IntS, IntS, IntS), (d1, d2))

    def on_read(self, cx, node, base, idx):
        pt = cx.old.get("pt")
        if isinstance(pt, Arr) and base.a.eq(pt.a) and len(idx) == 2:
            cx.assume(pascal_at(pt, pt.shape[0], pt.shape[1], I(idx[0]), I(idx[1])))

    def table_requires(self, pt, n, k):
        # "The Pascal triangle table of shape containing at least (n, k)": rows 0..n-1 and columns 0..k are read
        return {"pt-shape": And(pt.shape[0] >= n, pt.shape[1] >= k + 1), "pt-pascal": pascal(pt, pt.shape[0], pt.shape[1])}


@register
class RankU1(U1):
    """r = R(c,n,k,n) (sum over the set bits i of C(n-1-i, remaining weight)); requires a weight-k bit string"""

    target = f"{CC}::flatconfig_to_rank_u1_pascal"
    floor = 8

    def inputs(self, cx, case):
        n = cx.Int("n")
        return dict(flatconfig=self.intvec(cx, "c", n), n=n, k=cx.Int("k"), pt=self.table(cx))

    def requires(self, a, case):
        c = a.flatconfig
        return {"n>=0": a.n >= 0, "shape": c.shape[0] == a.n, "k>=0": a.k >= 0, "bits": bits(c, 0, a.n),
                "weight==k": KR(c.a, a.k, a.n) == 0, **self.table_requires(a.pt, a.n, a.k)}

    def ensures(self, a, r, cx, case):
        return {"rank==R": r == Rk(a.flatconfig.a, a.n, a.k, a.n), **self.unmodified(a, cx, "flatconfig", "pt")}

    def fresh_result(self, cx, a, case):
        return cx.Int("rank")

    def _inv(v):
        o = v.old
        c = o.flatconfig.a
        return {"rank": v.r == Rk(c, o.n, o.k, v._it0), "weight": v.krem == KR(c, o.k, v._it0),
                "j": v.j == o.n - v._it0, "it<=n": v._it0 <= o.n}

    def _facts(v):
        o = v.old
        c = o.flatconfig.a
        i = v._it0
        # definitions at i; remaining weight stays within [0,k]: instances of lemmas KR-lower / KR-upper
        # (bit string of total weight k)
        return def_R(c, o.n, o.k, i) + [Implies(And(0 <= i, i <= o.n), And(0 <= KR(c, o.k, i), KR(c, o.k, i) <= o.k)),
                                        C_zero_above(o.n - 1 - i, KR(c, o.k, i)), bits_at(c, 0, o.n, i)]

    loops = {0: Loop("for (i, xi) in enumerate(flatconfig)", inv=_inv, facts=_facts)}


@register
class UnrankU1(U1):
    """greedy unranking: c'[j] = UB(r,n,k,j) (0 <= j < n) where UR/UK is the remaining rank / weight recurrence.
    Requires 0 <= r < C(n,k) (otherwise the remaining weight can leave [0,k] and pt is indexed out of range)."""

    target = f"{CC}::rank_into_flatconfig_u1_pascal"
    floor = 16

    def inputs(self, cx, case):
        n = cx.Int("n")
        return dict(flatconfig=self.intvec(cx, "c", n), r=cx.Int("r"), n=n, k=cx.Int("k"), pt=self.table(cx))

    def requires(self, a, case):
        return {"n>=0": a.n >= 0, "shape": a.flatconfig.shape[0] == a.n, "k>=0": a.k >= 0,
                "rank-in-sector": And(0 <= a.r, a.r < C(a.n, a.k)), **self.table_requires(a.pt, a.n, a.k)}

    def u1_post(self, a, c1):
        self._c1 = c1
        return self.at_all(a, lambda j: Implies(And(0 <= j, j < a.n),
                                                sel(c1, j) == If(UBit(a.r, a.n, a.k, j), 1, 0)))

    def ensures(self, a, res, cx, case):
        c1 = self.final(a, cx)
        return {"greedy-bits": self.u1_post(a, c1), "frame": self.frame_post(a, c1, a.flatconfig, 0, a.n),
                "returns-None": res is None, **self.unmodified(a, cx, "pt")}

    def fresh_result(self, cx, a, case):
        self.publish(cx, a)
        return None

    def _inv(v):
        o = v.old
        c, c0 = v.flatconfig, o.flatconfig
        return {"rank": v.r == UR(o.r, o.n, o.k, v.i), "weight": v.krem == UK(o.r, o.n, o.k, v.i),
                "block": And(0 <= v.r, v.r < C(o.n - v.i, v.krem), 0 <= v.krem, v.krem <= o.k),
                "j": v.j == o.n - v.i, "i-range": And(0 <= v.i, v.i <= o.n),
                "prefix": Implies(And(0 <= G, G < v.i), sel(c, G) == If(UBit(o.r, o.n, o.k, G), 1, 0)),
                "frame": Implies(Or(G < 0, G >= v.i), sel(c, G) == sel(c0, G))}

    def _facts(v):
        o = v.old
        m = UK(o.r, o.n, o.k, v.i)
        jj = o.n - 1 - v.i
        # definitions at i;  C(jj, m): Pascal at (jj, m-1), C(jj,0) = 1;  the table holds 0 above the diagonal and
        # so does C: instance of lemma C-zero-above-diagonal
        return def_U(o.r, o.n, o.k, v.i) + def_C(jj, m - 1) + def_C(jj + 1, 0) + [C_zero_above(jj, m)]

    loops = {0: Loop("for i in range(n)", inv=_inv, facts=_facts)}


@register
class RankToU1(U1):
    target = f"{CC}::rank_to_flatconfig_u1_pascal"
    floor = 4

    def inputs(self, cx, case):
        n = cx.Int("n")
        return dict(r=cx.Int("r"), n=n, k=cx.Int("k"), pt=self.table(cx))

    def requires(self, a, case):
        return {"n>=0": a.n >= 0, "k>=0": a.k >= 0, "rank-in-sector": And(0 <= a.r, a.r < C(a.n, a.k)),
                **self.table_requires(a.pt, a.n, a.k)}

    def ensures(self, a, res, cx, case):
        if not (isinstance(res, Arr) and res.ndim == 1):
            return {"returns-vector": False}
        return {"length": res.shape[0] == a.n, "greedy-bits": UnrankU1.u1_post(self, a, res)}

    def fresh_result(self, cx, a, case):
        return self.intvec(cx, "cfg", a.n)


# --- lemmas: binomials ---------------------------------------------------------------------------------------


@L("C-zero-above-diagonal:base")
def lem_cz_b():
    # Z(n): for all k > n: C(n,k) = 0
    return def_C(0, _k) + [_k > 0], C(0, _k) == 0


@L("C-zero-above-diagonal:step")
def lem_cz_s():
    return def_C(_n, _k - 1) + [_n >= 0, _k > _n + 1, C(_n, _k - 1) == 0, C(_n, _k) == 0], C(_n + 1, _k) == 0


@L("C-nonneg:base")
def lem_cn_b():
    # N(n): for all k >= 0: C(n,k) >= 0
    return def_C(0, _k) + [_k >= 0], C(0, _k) >= 0


@L("C-nonneg:step")
def lem_cn_s():
    return (def_C(_n, _k - 1) + def_C(_n + 1, 0) +
            [_n >= 0, _k >= 0, Implies(_k >= 1, C(_n, _k - 1) >= 0), C(_n, _k) >= 0]), C(_n + 1, _k) >= 0


# --- lemmas: u1 ----------------------------------------------------------------------------------------------
_R = lambda i: Rk(_c, _n, _k, i)  # noqa: E731
_KR = lambda i: KR(_c, _k, i)  # noqa: E731
_UR = lambda i: UR(_r0, _n, _k, i)  # noqa: E731
_UK = lambda i: UK(_r0, _n, _k, i)  # noqa: E731


@L("KR-upper:base")
def lem_kru_b():
    return def_R(_c, _n, _k, _i), _KR(0) <= _k


@L("KR-upper:step")
def lem_kru_s():
    return def_R(_c, _n, _k, _i) + [0 <= _i, is_bit(sel(_c, _i)), _KR(_i) <= _k], _KR(_i + 1) <= _k


@L("KR-lower:base")
def lem_krl_b():
    # for a bit string the remaining weight never increases: KR(i) >= KR(n) for i <= n (downward induction)
    return [], _KR(_n) >= _KR(_n)


@L("KR-lower:step")
def lem_krl_s():
    return def_R(_c, _n, _k, _i) + [0 <= _i, _i < _n, is_bit(sel(_c, _i)), _KR(_i + 1) >= _KR(_n)], _KR(_i) >= _KR(_n)


def _block(i):
    return And(0 <= _UR(i), _UR(i) < C(_n - i, _UK(i)), 0 <= _UK(i), _UK(i) <= _k)


@L("u1-unrank-block:base")
def lem_ub_b():
    # B(i): 0 <= UR(i) < C(n-i, UK(i)), 0 <= UK(i) <= k      for 0 <= r0 < C(n,k)
    return def_U(_r0, _n, _k, _i) + [_k >= 0, 0 <= _r0, _r0 < C(_n, _k)], _block(0)


@L("u1-unrank-block:step")
def lem_ub_s():
    jj = _n - 1 - _i
    return (def_U(_r0, _n, _k, _i) + def_C(jj, _UK(_i) - 1) + def_C(jj + 1, 0) + [0 <= _i, _i < _n, _block(_i)]), \
        _block(_i + 1)


@L("u1-unrank-block:exhausted")
def lem_ub_c():
    # B(n): the remaining rank and the remaining weight are both 0
    return def_C(0, _UK(_n)) + [_block(_n)], And(_UR(_n) == 0, _UK(_n) == 0)


def _unranked(i):
    return sel(_c, i) == If(UBit(_r0, _n, _k, i), 1, 0)


@L("u1-rank-of-unrank:base")
def lem_u1ru_b():
    # P(i): R(c,i) + UR(i) = r0  and  KR(c,i) = UK(i)      for c the greedily unranked array
    return def_R(_c, _n, _k, _i) + def_U(_r0, _n, _k, _i), And(_R(0) + _UR(0) == _r0, _KR(0) == _UK(0))


@L("u1-rank-of-unrank:step")
def lem_u1ru_s():
    return (def_R(_c, _n, _k, _i) + def_U(_r0, _n, _k, _i) +
            [0 <= _i, _i < _n, _unranked(_i), _R(_i) + _UR(_i) == _r0, _KR(_i) == _UK(_i)]), \
        And(_R(_i + 1) + _UR(_i + 1) == _r0, _KR(_i + 1) == _UK(_i + 1))


@L("u1-rank-of-unrank:conclusion")
def lem_u1ru_c():
    # P(n) with block:exhausted: rank(unrank(r0)) = r0 and the unranked string has weight exactly k
    return [_R(_n) + _UR(_n) == _r0, _KR(_n) == _UK(_n), _UR(_n) == 0, _UK(_n) == 0], And(_R(_n) == _r0, _KR(_n) == 0)


def _tail(i):
    return And(0 <= _R(_n) - _R(i), _R(_n) - _R(i) < C(_n - i, _KR(i)))


@L("u1-tail-bound:base")
def lem_u1t_b():
    # T(i): 0 <= R(n) - R(i) < C(n-i, KR(i))     for bit strings of weight k (downward induction from i = n)
    return def_C(0, 0) + [_KR(_n) == 0], _tail(_n)


@L("u1-tail-bound:step")
def lem_u1t_s():
    jj = _n - 1 - _i
    m = _KR(_i)
    return (def_R(_c, _n, _k, _i) + def_C(jj, m - 1) + def_C(jj + 1, 0) +
            [0 <= _i, _i < _n, is_bit(sel(_c, _i)), _KR(_i + 1) >= 0,  # KR-lower with weight k
             C(jj, m) >= 0, Implies(m >= 1, C(jj, m - 1) >= 0),  # C-nonneg
             _tail(_i + 1)]), _tail(_i)


@L("u1-rank-in-sector")
def lem_u1_range():
    # T(0): ranks of weight-k bit strings lie in [0, C(n,k))
    return def_R(_c, _n, _k, _i) + [_tail(0)], And(0 <= _R(_n), _R(_n) < C(_n, _k))


@L("u1-unrank-of-rank:base")
def lem_u1ur_b():
    # Q(i): UR(r0,i) = r0 - R(c,i) and UK(r0,i) = KR(c,i)      for r0 = R(c,n), c a weight-k bit string
    return (def_R(_c, _n, _k, _i) + def_U(_r0, _n, _k, _i) + [_r0 == _R(_n)]), \
        And(_UR(0) == _r0 - _R(0), _UK(0) == _KR(0))


@L("u1-unrank-of-rank:step")
def lem_u1ur_s():
    # gives both the bit written at i (= c[i]) and Q(i+1); uses T(i+1)
    return (def_R(_c, _n, _k, _i) + def_U(_r0, _n, _k, _i) +
            [0 <= _i, _i < _n, _r0 == _R(_n), is_bit(sel(_c, _i)), _tail(_i + 1),
             _UR(_i) == _r0 - _R(_i), _UK(_i) == _KR(_i)]), \
        And(_unranked(_i), _UR(_i + 1) == _r0 - _R(_i + 1), _UK(_i + 1) == _KR(_i + 1))


# ---------------------------------------------------------------------------------------------------------
# mixed radix (no symmetry, site dimensions sizes[i] >= 1):   [0, prod sizes)  <->  prod_i [0, sizes[i])
# ---------------------------------------------------------------------------------------------------------


def positive(a, n):
    return forall(lambda j: Implies(And(0 <= j, j < n), sel(a, j) >= 1), lambda j: sel(a, j))


@register
class CalculateStrides(Kernel):
    """strides[i] = ST(sizes,n,i) = prod_{j>i} sizes[j]   (strides[n-1] = 1)"""

    target = f"{CC}::calculate_strides"
    floor = 8

    def inputs(self, cx, case):
        n = cx.Int("n")
        return dict(sizes=self.intvec(cx, "sizes", n))

    def requires(self, a, case):
        return {"n>=0": a.sizes.shape[0] >= 0}

    def ensures(self, a, res, cx, case):
        if not (isinstance(res, Arr) and res.ndim == 1):
            return {"returns-vector": False}
        n = a.sizes.shape[0]
        return {"length": res.shape[0] == n,
                "strides": forall(lambda j: Implies(And(0 <= j, j < n), sel(res, j) == ST(a.sizes.a, n, j)),
                                  lambda j: sel(res, j)), **self.unmodified(a, cx, "sizes")}

    def fresh_result(self, cx, a, case):
        return self.intvec(cx, "strides", a.sizes.shape[0])

    def _inv(v):
        o = v.old
        n = o.sizes.shape[0]
        st = v.strides
        return {"n": v.n == n, "i-range": And(v.i <= n - 2, Or(-1 <= v.i, n == 0)),
                "done": forall(lambda j: Implies(And(v.i < j, 0 <= j, j < n), sel(st, j) == ST(o.sizes.a, n, j)),
                               lambda j: sel(st, j)),
                "todo": forall(lambda j: Implies(And(0 <= j, j <= v.i), sel(st, j) == 1), lambda j: sel(st, j))}

    loops = {0: Loop("for i in range(n - 2, -1, -1)", inv=_inv,
                     facts=lambda v: def_ST(v.old.sizes.a, v.old.sizes.shape[0], v.i))}


@register
class RankMixedRadix(Kernel):
    """r = S(c,strides,n) = sum_i c[i]*strides[i]"""

    target = f"{CC}::flatconfig_to_rank_mixed_radix_nosymm"
    floor = 5

    def inputs(self, cx, case):
        n = cx.Int("n")
        return dict(flatconfig=self.intvec(cx, "c", n), strides=self.intvec(cx, "strides", n))

    def requires(self, a, case):
        n = a.flatconfig.shape[0]
        return {"n>=0": n >= 0, "shape": a.strides.shape[0] == n}

    def ensures(self, a, r, cx, case):
        return {"rank==S": r == Sm(a.flatconfig.a, a.strides.a, a.flatconfig.shape[0]),
                **self.unmodified(a, cx, "flatconfig", "strides")}

    def fresh_result(self, cx, a, case):
        return cx.Int("rank")

    loops = {0: Loop("for i in range(flatconfig.size)",
                     inv=lambda v: {"sum": v.r == Sm(v.old.flatconfig.a, v.old.strides.a, v.i),
                                    "i-range": And(0 <= v.i, v.i <= v.old.flatconfig.shape[0])},
                     facts=lambda v: def_S(v.old.flatconfig.a, v.old.strides.a, v.i))}


@register
class UnrankMixedRadix(Unrank2):
    """c'[j] = (r div strides[j]) mod sizes[j]  -- a digit in [0, sizes[j]) -- for 0 <= j < n, frame"""

    target = f"{CC}::rank_into_flatconfig_mixed_radix_nosymm"
    floor = 8

    def inputs(self, cx, case):
        n = cx.Int("n")
        return dict(flatconfig=self.intvec(cx, "c", n), r=cx.Int("r"), sizes=self.intvec(cx, "sizes", n),
                    strides=self.intvec(cx, "strides", n))

    def requires(self, a, case):
        n = a.sizes.shape[0]
        return {"n>=0": n >= 0, "shape": And(a.flatconfig.shape[0] == n, a.strides.shape[0] == n), "r>=0": a.r >= 0,
                "sizes>=1": positive(a.sizes, n), "strides>=1": positive(a.strides, n)}

    def digits(self, a, c1):
        n = a.sizes.shape[0]
        self._c1 = c1
        return self.at_all(a, lambda j: Implies(
            And(0 <= j, j < n),
            And(sel(c1, j) == (a.r / sel(a.strides, j)) % sel(a.sizes, j), 0 <= sel(c1, j), sel(c1, j) < sel(a.sizes, j))))

    def ensures(self, a, res, cx, case):
        c1 = self.final(a, cx)
        return {"digits": self.digits(a, c1), "frame": self.frame_post(a, c1, a.flatconfig, 0, a.sizes.shape[0]),
                "returns-None": res is None, **self.unmodified(a, cx, "sizes", "strides")}

    def fresh_result(self, cx, a, case):
        self.publish(cx, a)
        return None

    def _inv(v):
        o = v.old
        c, c0 = v.flatconfig, o.flatconfig
        n = o.sizes.shape[0]
        dg = (o.r / sel(o.strides, G)) % sel(o.sizes, G)
        return {"i-range": And(0 <= v.i, v.i <= n),
                "prefix": Implies(And(0 <= G, G < v.i), And(sel(c, G) == dg, 0 <= sel(c, G), sel(c, G) < sel(o.sizes, G))),
                "frame": Implies(Or(G < 0, G >= v.i), sel(c, G) == sel(c0, G))}

    loops = {0: Loop("for i in range(len(sizes))", inv=_inv)}


@register
class RankToMixedRadix(Unrank2):
    target = f"{CC}::rank_to_flatconfig_mixed_radix_nosymm"
    floor = 4

    def inputs(self, cx, case):
        n = cx.Int("n")
        return dict(r=cx.Int("r"), sizes=self.intvec(cx, "sizes", n), strides=self.intvec(cx, "strides", n))

    def requires(self, a, case):
        n = a.sizes.shape[0]
        return {"n>=0": n >= 0, "shape": a.strides.shape[0] == n, "r>=0": a.r >= 0,
                "sizes>=1": positive(a.sizes, n), "strides>=1": positive(a.strides, n)}

    def ensures(self, a, res, cx, case):
        if not (isinstance(res, Arr) and res.ndim == 1):
            return {"returns-vector": False}
        return {"length": res.shape[0] == a.sizes.shape[0], "digits": UnrankMixedRadix.digits(self, a, res)}

    def fresh_result(self, cx, a, case):
        return self.intvec(cx, "cfg", a.sizes.shape[0])


# --- lemmas: mixed radix (nonlinear: products of strides and sizes; z3's nonlinear arithmetic, no hints needed) ------
Hm = z3.Function("H", ArrS, ArrS, IntS, IntS)  # Horner prefix value  H(c,sz,0) = c[0], H(c,sz,i+1) = H(c,sz,i)*sz[i+1] + c[i+1]
_sz, _st = z3.Const("sz", ArrS), z3.Const("st", ArrS)
_t = lambda i: ST(_sz, _n, i)  # noqa: E731
_S = lambda i: Sm(_c, _st, i)  # noqa: E731
_a, _b = z3.Ints("a b")


def def_H(c, sz, i):
    return [Hm(c, sz, 0) == sel(c, 0), Implies(i >= 0, Hm(c, sz, i + 1) == Hm(c, sz, i) * sel(sz, i + 1) + sel(c, i + 1))]


def _digit(i):
    """the digit written by unrank at i (strides = ST)"""
    return sel(_c, i) == (_r0 / _t(i)) % sel(_sz, i)


@L("mr-strides-positive:base")
def lem_stp_b():
    # strides of positive sizes are positive (downward induction from n-1)
    return def_ST(_sz, _n, _i) + [_n >= 1], _t(_n - 1) >= 1


@L("mr-strides-positive:step")
def lem_stp_s():
    return def_ST(_sz, _n, _i) + [0 <= _i, _i < _n - 1, sel(_sz, _i + 1) >= 1, _t(_i + 1) >= 1], _t(_i) >= 1


@L("mr-nested-division")
def lem_nested_div():
    return [_a >= 1, _b >= 1, _r0 >= 0], (_r0 / _a) / _b == _r0 / (_a * _b)


@L("mr-rank-of-unrank:base")
def lem_mr_ru_b():
    # F(i): S(c,st,i+1) == (r div t(i)) * t(i)   for c the unranked digits, st[i] = t(i) = ST(sz,n,i), 0 <= r < t(0)*sz[0]
    return (def_S(_c, _st, 0) + [_n >= 1, sel(_st, 0) == _t(0), _t(0) >= 1, sel(_sz, 0) >= 1, 0 <= _r0,
                                 _r0 < _t(0) * sel(_sz, 0), _digit(0)]), _S(1) == (_r0 / _t(0)) * _t(0)


@L("mr-rank-of-unrank:step")
def lem_mr_ru_s():
    # uses mr-nested-division at (t(i+1), sz[i+1]) and the stride recurrence
    T1, s = _t(_i + 1), sel(_sz, _i + 1)
    return (def_S(_c, _st, _i + 1) + def_ST(_sz, _n, _i) +
            [0 <= _i, _i < _n - 1, sel(_st, _i + 1) == T1, T1 >= 1, s >= 1, 0 <= _r0, _digit(_i + 1),
             (_r0 / T1) / s == _r0 / (T1 * s), _S(_i + 1) == (_r0 / _t(_i)) * _t(_i)]), \
        _S(_i + 2) == (_r0 / T1) * T1


@L("mr-rank-of-unrank:conclusion")
def lem_mr_ru_c():
    return def_ST(_sz, _n, _i) + [_n >= 1, _S(_n) == (_r0 / _t(_n - 1)) * _t(_n - 1)], _S(_n) == _r0


def _digits_ok(i):
    return And(0 <= sel(_c, i), sel(_c, i) < sel(_sz, i))


@L("mr-horner:base")
def lem_mr_h_b():
    # G(i): S(c,st,i+1) == H(c,sz,i) * t(i)      for any digit array, st[i] = t(i)
    return def_S(_c, _st, 0) + def_H(_c, _sz, _i) + [sel(_st, 0) == _t(0)], _S(1) == Hm(_c, _sz, 0) * _t(0)


@L("mr-horner:step")
def lem_mr_h_s():
    return (def_S(_c, _st, _i + 1) + def_H(_c, _sz, _i) + def_ST(_sz, _n, _i) +
            [0 <= _i, _i < _n - 1, sel(_st, _i + 1) == _t(_i + 1), _S(_i + 1) == Hm(_c, _sz, _i) * _t(_i)]), \
        _S(_i + 2) == Hm(_c, _sz, _i + 1) * _t(_i + 1)


def _tailmr(i):
    return And(0 <= _S(_n) - _S(i + 1), _S(_n) - _S(i + 1) < _t(i))


@L("mr-tail-bound:base")
def lem_mr_t_b():
    # TL(i): 0 <= S(n) - S(i+1) < t(i)   for digits 0 <= c[j] < sz[j]   (downward induction from i = n-1)
    return def_ST(_sz, _n, _i) + [_n >= 1], _tailmr(_n - 1)


@L("mr-tail-bound:step")
def lem_mr_t_s():
    return (def_S(_c, _st, _i + 1) + def_ST(_sz, _n, _i) +
            [0 <= _i, _i < _n - 1, sel(_st, _i + 1) == _t(_i + 1), _t(_i + 1) >= 1, _digits_ok(_i + 1), _tailmr(_i + 1)]), \
        _tailmr(_i)


_h, _hp, _tt, _tl, _ss, _cc, _d = z3.Ints("h hp t tl s cc d")


@L("mr-quotient-unique")
def lem_mr_qu():
    # r = h*t + tail with 0 <= tail < t  =>  r div t = h
    return [_tt >= 1, _r0 == _h * _tt + _tl, 0 <= _tl, _tl < _tt], _r0 / _tt == _h


@L("mr-mul-sign-hints")
def lem_mr_sign():
    return [_ss >= 1], And(Implies(_d >= 1, _d * _ss >= _ss), Implies(_d <= -1, _d * _ss <= -_ss))


@L("mr-last-digit")
def lem_mr_ld():
    # h = hp*s + c with 0 <= c < s  =>  h mod s = c        (hints: mr-mul-sign-hints at d = h div s - hp)
    return [_ss >= 1, _h == _hp * _ss + _cc, 0 <= _cc, _cc < _ss, _d == _h / _ss - _hp, _d * _ss == (_h / _ss) * _ss - _hp * _ss,
            Implies(_d >= 1, _d * _ss >= _ss), Implies(_d <= -1, _d * _ss <= -_ss)], _h % _ss == _cc


@L("mr-unrank-of-rank")
def lem_mr_ur():
    # r = S(n) = H(i)*t(i) + tail, 0 <= tail < t(i)  =>  r div t(i) = H(i) (mr-quotient-unique), and H(i) mod sz[i] = c[i]
    # (mr-last-digit with the Horner recurrence; H(0) = c[0] < sz[0]): digit i of unrank(rank(c)) is c[i]
    h = Hm(_c, _sz, _i)
    return ([0 <= _i, _i < _n, _r0 == _S(_n), _S(_n) == h * _t(_i) + (_S(_n) - _S(_i + 1)),
             _r0 / _t(_i) == h,  # mr-quotient-unique at (t(i), h, tail)
             h % sel(_sz, _i) == sel(_c, _i)]), (_r0 / _t(_i)) % sel(_sz, _i) == sel(_c, _i)


@L("mr-unrank-of-rank:digit0")
def lem_mr_ur0():
    return def_H(_c, _sz, _i) + [sel(_sz, 0) >= 1, _digits_ok(0)], Hm(_c, _sz, 0) % sel(_sz, 0) == sel(_c, 0)


@L("mr-rank-in-range")
def lem_mr_range():
    # 0 <= S(n) < t(0)*sz[0] = prod sizes       (G(0), TL(0))
    return ([_n >= 1, _t(0) >= 1, _digits_ok(0), _S(1) == Hm(_c, _sz, 0) * _t(0), Hm(_c, _sz, 0) == sel(_c, 0), _tailmr(0)]), \
        And(0 <= _S(_n), _S(_n) < _t(0) * sel(_sz, 0))


# ---------------------------------------------------------------------------------------------------------
# U1 x U1:  [0, C(na,ka)*C(nb,kb))  <->  weight-ka strings on the first na sites  x  weight-kb on the last nb
# View model: flatconfig[:na] is the same array with length na; flatconfig[na:] is shift(c, na) with
# shift(c,off)[j] = c[j+off] (definitional axiom), length n-na; a callee's writes into a view are written
# through to the base array (`__writeback__`).
# ---------------------------------------------------------------------------------------------------------


class U1U1(U1):
    nonlinear_hooks = True  # engine: products / quotients of symbolic terms go through __nlmul__ / __nldivmod__

    def table_requires2(self, a):
        pt = a.pt
        mx = If(a.na >= a.nb, a.na, a.nb)
        mk = If(a.ka >= a.kb, a.ka, a.kb)
        # "The Pascal triangle table of shape containing at least max(na, nb)" (build_pascal_table(max(na, nb)))
        return {"pt-shape": And(pt.shape[0] >= mx + 1, pt.shape[1] >= mk + 1),
                "pt-pascal": pascal(pt, pt.shape[0], pt.shape[1])}

    def sector_requires(self, a):
        return {"na,nb>=0": And(a.na >= 0, a.nb >= 0), "0<=ka<=na": And(0 <= a.ka, a.ka <= a.na),
                "0<=kb<=nb": And(0 <= a.kb, a.kb <= a.nb)}

    def instances(self, cx):
        # indices at which the posts of the u1 callees are used: the skolem index in either section
        return [G, G - cx.old.na]

    def call(self, cx, name, args, kwargs, node):
        if name == "__nlmul__":
            return mulU(args[0], args[1])
        if name == "__nldivmod__":
            x, d = args
            for f in def_divmod(x, d):
                cx.assume(f)
            return divU(x, d), modU(x, d)
        if name == "__getslice__":
            base, lo, hi, st = args
            if not (isinstance(base, Arr) and base.ndim == 1 and st is None):
                return NotImplemented
            n = base.shape[0]
            if lo is None and hi is not None:
                cx.oblige(f"slice@{node.lineno}:0<=stop<=len", "safety", And(0 <= Z(hi), Z(hi) <= n), node.lineno)
                # instance of lemma bits-subrange
                cx.assume(Implies(And(bits(base, 0, n), 0 <= Z(hi), Z(hi) <= n), bits(base, 0, Z(hi))))
                return Arr(base.a, (hi,))
            if hi is None and lo is not None:
                cx.oblige(f"slice@{node.lineno}:0<=start<=len", "safety", And(0 <= Z(lo), Z(lo) <= n), node.lineno)
                view = Arr(shift(base.a, Z(lo)), (n - lo,))
                for j in self.instances(cx):  # definition of the view, at the indices of interest
                    cx.assume(def_shift(base.a, Z(lo), j))
                # instance of lemma bits-shift
                cx.assume(Implies(And(bits(base, 0, n), 0 <= Z(lo), Z(lo) <= n), bits(view, 0, n - lo)))
                return view
            return NotImplemented
        if name == "__writeback__":
            argnode, new, oldview = args
            import ast as _ast

            if not (isinstance(argnode, _ast.Subscript) and isinstance(argnode.value, _ast.Name)
                    and isinstance(argnode.slice, _ast.Slice)):
                return NotImplemented
            bname = argnode.value.id
            base = cx.env[bname]
            lo = cx.ev(argnode.slice.lower) if argnode.slice.lower else None
            if lo is None:
                cx.env[bname] = Arr(new.a, base.shape)  # same storage: the callee's frame covers the rest
            else:
                # write-through of the view [lo:]: base'[j] = view'[j-lo] for j >= lo, else base[j]; used at the
                # indices of interest only (instances of the definition)
                nb_ = Arr(cx.Array(f"{bname}'wb", IntS, IntS), base.shape)
                for j in self.instances(cx)[:1]:
                    cx.assume(sel(nb_, j) == If(j >= lo, sel(new, j - lo), sel(base, j)))
                cx.env[bname] = nb_
            return None
        return super().call(cx, name, args, kwargs, node)


@register
class RankU1U1(U1U1):
    """r = R(c[:na]) * C(nb,kb) + R(c[na:])"""

    target = f"{CC}::flatconfig_to_rank_u1u1_pascal"
    floor = 8

    def inputs(self, cx, case):
        na, nb = cx.Int("na"), cx.Int("nb")
        return dict(flatconfig=self.intvec(cx, "c", na + nb), na=na, ka=cx.Int("ka"), nb=nb, kb=cx.Int("kb"),
                    pt=self.table(cx))

    def requires(self, a, case):
        c = a.flatconfig
        return {**self.sector_requires(a), "shape": c.shape[0] == a.na + a.nb, "bits": bits(c, 0, a.na + a.nb),
                "weight-a==ka": KR(c.a, a.ka, a.na) == 0, "weight-b==kb": KR(shift(c.a, a.na), a.kb, a.nb) == 0,
                **self.table_requires2(a)}

    def ensures(self, a, r, cx, case):
        c = a.flatconfig.a
        return {"rank==Ra*Db+Rb": r == mulU(Rk(c, a.na, a.ka, a.na), C(a.nb, a.kb)) + Rk(shift(c, a.na), a.nb, a.kb, a.nb),
                **self.unmodified(a, cx, "flatconfig", "pt")}

    def fresh_result(self, cx, a, case):
        return cx.Int("rank")


@register
class UnrankU1U1(U1U1):
    """c'[:na] = u1-unrank(r div Db), c'[na:] = u1-unrank(r mod Db), Db = C(nb,kb); requires 0 <= r < C(na,ka)*Db"""

    target = f"{CC}::rank_into_flatconfig_u1u1_pascal"
    floor = 12

    def inputs(self, cx, case):
        na, nb = cx.Int("na"), cx.Int("nb")
        return dict(flatconfig=self.intvec(cx, "c", na + nb), r=cx.Int("r"), na=na, ka=cx.Int("ka"), nb=nb,
                    kb=cx.Int("kb"), pt=self.table(cx))

    def requires(self, a, case):
        return {**self.sector_requires(a), "shape": a.flatconfig.shape[0] == a.na + a.nb,
                "rank-in-sector": And(0 <= a.r, a.r < mulU(C(a.na, a.ka), C(a.nb, a.kb))), **self.table_requires2(a)}

    def u1u1_post(self, a, c1):
        Db = C(a.nb, a.kb)
        ra, rb = divU(a.r, Db), modU(a.r, Db)
        return self.at_all(a, lambda j: And(
            Implies(And(0 <= j, j < a.na), sel(c1, j) == If(UBit(ra, a.na, a.ka, j), 1, 0)),
            Implies(And(a.na <= j, j < a.na + a.nb), sel(c1, j) == If(UBit(rb, a.nb, a.kb, j - a.na), 1, 0))))

    def ensures(self, a, res, cx, case):
        c1 = self.final(a, cx)
        return {"greedy-bits-both-sections": self.u1u1_post(a, c1),
                "frame": self.frame_post(a, c1, a.flatconfig, 0, a.na + a.nb), "returns-None": res is None,
                **self.unmodified(a, cx, "pt")}

    def fresh_result(self, cx, a, case):
        self.publish(cx, a)
        return None

    def on_read(self, cx, node, base, idx):
        # reading Db = pt[nb, kb]: from here on the sector sizes are known to be positive and the quotient in range:
        # instances of lemmas C-nonneg, u1u1-sector-nonempty and u1u1-quotient-below
        super().on_read(cx, node, base, idx)
        o = cx.old
        Db, Ca = C(o.nb, o.kb), C(o.na, o.ka)
        cx.assume(And(Db >= 0, Ca >= 0))
        cx.assume(Implies(And(Db >= 0, Ca >= 0, 0 <= o.r, o.r < mulU(Ca, Db)), And(Db >= 1, Ca >= 1)))
        cx.assume(Implies(And(Db >= 1, 0 <= o.r, o.r < mulU(Ca, Db)), And(0 <= divU(o.r, Db), divU(o.r, Db) < Ca)))


@register
class RankToU1U1(U1U1):
    target = f"{CC}::rank_to_flatconfig_u1u1_pascal"
    floor = 4

    def inputs(self, cx, case):
        return dict(r=cx.Int("r"), na=cx.Int("na"), ka=cx.Int("ka"), nb=cx.Int("nb"), kb=cx.Int("kb"), pt=self.table(cx))

    def instances(self, cx):
        return [G]

    def requires(self, a, case):
        return {**self.sector_requires(a), "rank-in-sector": And(0 <= a.r, a.r < mulU(C(a.na, a.ka), C(a.nb, a.kb))),
                **self.table_requires2(a)}

    def ensures(self, a, res, cx, case):
        if not (isinstance(res, Arr) and res.ndim == 1):
            return {"returns-vector": False}
        return {"length": res.shape[0] == a.na + a.nb, "greedy-bits-both-sections": UnrankU1U1.u1u1_post(self, a, res)}

    def fresh_result(self, cx, a, case):
        return self.intvec(cx, "cfg", a.na + a.nb)


# --- lemmas: views (definitions of IsBits and of shift unfolded) -------------------------------------------------
_lo, _hi, _lo2, _hi2, _off = z3.Ints("lo hi lo2 hi2 off")


@L("bits-subrange")
def lem_bits_sub():
    return [IsBits(_c, _lo, _hi) == bits_forall(_c, _lo, _hi), IsBits(_c, _lo2, _hi2) == bits_forall(_c, _lo2, _hi2),
            _lo <= _lo2, _hi2 <= _hi, IsBits(_c, _lo, _hi)], IsBits(_c, _lo2, _hi2)


@L("bits-shift")
def lem_bits_shift():
    v = shift(_c, _off)
    return [IsBits(_c, 0, _n) == bits_forall(_c, 0, _n), IsBits(v, 0, _m) == bits_forall(v, 0, _m),
            def_shift_forall(_c, _off), 0 <= _off, _off + _m <= _n, IsBits(_c, 0, _n)], IsBits(v, 0, _m)


# --- lemmas: u1u1 composition (C16 digits-unique style); the definitions of mul / div / mod enter here ------------
_D, _Ca, _ra, _rb, _q = z3.Ints("D Ca ra rb q")


@L("u1u1-sector-nonempty")
def lem_nonempty():
    return def_mul(_Ca, _D) + [_Ca >= 0, _D >= 0, 0 <= _r0, _r0 < mulU(_Ca, _D)], And(_Ca >= 1, _D >= 1)


@L("u1u1-quotient-below")
def lem_q_below():
    # 0 <= r < Ca*D, D >= 1  =>  0 <= r div D < Ca
    q = divU(_r0, _D)
    return (def_mul(_Ca, _D) + def_mul(_D, q) + def_divmod(_r0, _D) +
            [_D >= 1, 0 <= _r0, _r0 < mulU(_Ca, _D), (_Ca - q) * _D == _Ca * _D - _D * q, (-1 - q) * _D == -_D - _D * q]), \
        And(0 <= q, q < _Ca)


@L("u1u1-rank-of-unrank")
def lem_u1u1_ru():
    # ra = r div D and rb = r mod D are recovered by the two u1 ranks (u1-rank-of-unrank), so ra*D + rb = r
    return (def_divmod(_r0, _D) + def_mul(_D, divU(_r0, _D)) + def_mul(divU(_r0, _D), _D) +
            [_D >= 1, _ra == divU(_r0, _D), _rb == modU(_r0, _D)]), mulU(_ra, _D) + _rb == _r0


@L("u1u1-unrank-of-rank")
def lem_u1u1_ur():
    # digits are unique: (ra*D + rb) div D = ra and mod D = rb for 0 <= rb < D; the u1 lemmas then recover each section
    x = mulU(_ra, _D) + _rb
    q = divU(x, _D)
    return (def_divmod(x, _D) + def_mul(_ra, _D) + def_mul(_D, q) +
            [_D >= 1, 0 <= _rb, _rb < _D, (_ra - q) * _D == _ra * _D - _D * q]), And(q == _ra, modU(x, _D) == _rb)


@L("u1u1-rank-in-sector")
def lem_u1u1_range():
    # 0 <= ra < Ca, 0 <= rb < D  =>  0 <= ra*D + rb < Ca*D : ranks lie in [0, C(na,ka)*C(nb,kb))
    return (def_mul(_ra, _D) + def_mul(_Ca, _D) +
            [_D >= 1, 0 <= _ra, _ra < _Ca, 0 <= _rb, _rb < _D, (_Ca - 1 - _ra) * _D == _Ca * _D - _D - _ra * _D,
             (_Ca - 1 - _ra) * _D >= 0, _ra * _D >= 0]), And(0 <= mulU(_ra, _D) + _rb, mulU(_ra, _D) + _rb < mulU(_Ca, _D))


@L("u1u1-product-sign-hint")
def lem_prod_sign():
    return [_ra >= 0, _D >= 0], _ra * _D >= 0


# ---------------------------------------------------------------------------------------------------------
# _check_next_coupled_term: index arithmetic over the stacked term / operator arrays, frame of the coupled config
# ---------------------------------------------------------------------------------------------------------
SO = z3.Function("SO", ArrS, IntS, IntS, IntS)  # SO(sizes_op, a, k) = sum_{d<k} sizes_op[a+d]
Touched = z3.Function("Touched", ArrS, IntS, IntS, IntS, z3.BoolSort())  # some regs[a+d], d < k, equals g
TermOK = z3.Function("TermOK", ArrS, ArrS, IntS, IntS, IntS, z3.BoolSort())
# TermOK(sizes_op, regs, a, size_term, n) :<=> forall ia. a <= ia < a+size_term => sizes_op[ia] in {1,2} /\ 0 <= regs[ia] < n
# (every operator of the table has one or two entries and acts on a register of the configuration); used by instances


def def_SO(so, a, k):
    return [SO(so, a, 0) == 0, Implies(k >= 0, SO(so, a, k + 1) == SO(so, a, k) + sel(so, a + k))]


def def_Touched(regs, a, g, k):
    return [Not(Touched(regs, a, g, 0)),
            Implies(k >= 0, Touched(regs, a, g, k + 1) == Or(Touched(regs, a, g, k), sel(regs, a + k) == g))]


def termok_at(o, ia):
    return Implies(And(TermOK(o.sizes_op.a, o.regs.a, o.a, o.size_term, o.n), o.a <= ia, ia < o.a + o.size_term),
                   And(Or(sel(o.sizes_op, ia) == 1, sel(o.sizes_op, ia) == 2), 0 <= sel(o.regs, ia), sel(o.regs, ia) < o.n))


@register
class CheckNextCoupledTerm(Kernel):
    """a' = a + size_term, b' = b + sum of sizes_op[a..a'), every subscript in bounds, and the coupled configuration bj
    differs from bi at most on the term's registers regs[a..a')  (what it holds there / hij: bounded drivers)"""

    target = f"{CC}::_check_next_coupled_term"
    floor = 20

    def inputs(self, cx, case):
        n, NA, NB = cx.Int("n"), cx.Int("NA"), cx.Int("NB")
        from vf.pyvc import V

        return dict(a=cx.Int("a"), b=cx.Int("b"), n=n, bi=self.intvec(cx, "bi", n), bj=self.intvec(cx, "bj", n),
                    size_term=cx.Int("size_term"), sizes_op=self.intvec(cx, "sizes_op", NA), regs=self.intvec(cx, "regs", NA),
                    xis=self.intvec(cx, "xis", NB), xjs=self.intvec(cx, "xjs", NB),
                    cijs=Arr(cx.Array("cijs", IntS, V), (NB,)))

    def requires(self, a, case):
        NA, NB = a.sizes_op.shape[0], a.xis.shape[0]
        return {"n>=0": a.n >= 0, "config-bits": bits(a.bi, 0, a.n), "a,b>=0": And(a.a >= 0, a.b >= 0),
                "size_term>=0": a.size_term >= 0, "term-in-stack": a.a + a.size_term <= NA,
                "term-ok": TermOK(a.sizes_op.a, a.regs.a, a.a, a.size_term, a.n),
                "entries-in-stack": a.b + SO(a.sizes_op.a, a.a, a.size_term) <= NB}

    def ensures(self, a, res, cx, case):
        if not (isinstance(res, tuple) and len(res) == 4):
            return {"returns-4-tuple": False}
        a2, b2, valid, hij = res
        bj = cx.env["bj"]
        return {"a-advances-by-size_term": a2 == a.a + a.size_term,
                "b-advances-by-sum-of-sizes_op": b2 == a.b + SO(a.sizes_op.a, a.a, a.size_term),
                "frame": Implies(And(0 <= G, G < a.n, Not(Touched(a.regs.a, a.a, G, a.size_term))), sel(bj, G) == sel(a.bi, G)),
                "nothing-outside-config": Implies(Or(G < 0, G >= a.n), sel(bj, G) == sel(a.bj, G)),
                **self.unmodified(a, cx, "bi", "sizes_op", "regs", "xis", "xjs", "cijs")}

    def on_read(self, cx, node, base, idx):
        o = cx.old
        if base.a.eq(o.sizes_op.a) or base.a.eq(o.regs.a):
            cx.assume(termok_at(o, I(idx[0])))
        if base.a.eq(o.bi.a):
            cx.assume(bits_at(o.bi, 0, o.n, I(idx[0])))

    def _copy_inv(v):
        o = v.old
        return {"q-range": And(0 <= v.q, v.q <= o.n),
                "copied": Implies(And(0 <= G, G < v.q), sel(v.bj, G) == sel(o.bi, G)),
                "rest": Implies(Or(G < 0, G >= v.q), sel(v.bj, G) == sel(o.bj, G))}

    def _term_inv(v):
        o = v.old
        so = o.sizes_op.a
        return {"da-range": And(0 <= v.da, v.da <= o.size_term),
                "b": And(v.b == o.b + SO(so, o.a, v.da), v.b >= o.b), "a-unchanged": v.a == o.a,
                "frame": Implies(And(0 <= G, G < o.n, Not(Touched(o.regs.a, o.a, G, v.da))), sel(v.bj, G) == sel(o.bi, G)),
                "outside": Implies(Or(G < 0, G >= o.n), sel(v.bj, G) == sel(o.bj, G))}

    def _term_facts(v):
        o = v.old
        so = o.sizes_op.a
        # definitions at da; SO is monotone for non-negative sizes: instance of lemma SO-monotone at da+1 <= size_term
        return (def_SO(so, o.a, v.da) + def_Touched(o.regs.a, o.a, G, v.da) +
                [Implies(And(TermOK(so, o.regs.a, o.a, o.size_term, o.n), 0 <= v.da + 1, v.da + 1 <= o.size_term),
                         SO(so, o.a, v.da + 1) <= SO(so, o.a, o.size_term))])

    @property
    def loops(self):
        from vf.pyvc import V

        return {0: Loop("for q in range(n)", inv=CheckNextCoupledTerm._copy_inv),
                1: Loop("for da in range(size_term)", inv=CheckNextCoupledTerm._term_inv,
                        facts=CheckNextCoupledTerm._term_facts,
                        retype={"hij": lambda cx: cx.Val("hij"), "valid": lambda cx: cx.Bool("valid")})}


@L("SO-monotone:base")
def lem_so_b():
    so = z3.Const("so", ArrS)
    return [], SO(so, _a, _i) <= SO(so, _a, _i)


@L("SO-monotone:step")
def lem_so_s():
    # M(K): SO(a,i) <= SO(a,K) for i <= K, sizes >= 1 (TermOK instance at a+K)
    so = z3.Const("so", ArrS)
    return def_SO(so, _a, _k) + [0 <= _i, _i <= _k, sel(so, _a + _k) >= 1, SO(so, _a, _i) <= SO(so, _a, _k)], \
        SO(so, _a, _i) <= SO(so, _a, _k + 1)


# =========================================================================================================
# Part 2 -- fdx: finite-domain exhaustive obligations on the operator tables of quimb/operator/builder.py
# (the REAL functions are executed on every element of their complete finite domain; the post-condition is
#  evaluated exactly against 2x2 matrices written down here from textbook conventions, not taken from quimb)
# =========================================================================================================


def textbook_mats():
    """single-site operators in the basis |0> = empty / spin up = (1,0)^T, |1> = occupied / spin down = (0,1)^T.
    Paulis as usual; s* = sigma*/2; '+' creates (|1><0|), '-' annihilates (|0><1|); n = |1><1|; sn = n - 1/2;
    h = 1 - n; ZX ('real Y') = sigma_z sigma_x = i sigma_y."""
    import numpy as np

    X = np.array([[0, 1], [1, 0]], dtype=complex)
    Y = np.array([[0, -1j], [1j, 0]], dtype=complex)
    Zm = np.array([[1, 0], [0, -1]], dtype=complex)
    Id = np.eye(2, dtype=complex)
    N = np.array([[0, 0], [0, 1]], dtype=complex)
    return {"I": Id, "x": X, "y": Y, "z": Zm, "ⴵ": Zm @ X, "sx": X / 2, "sy": Y / 2, "sz": Zm / 2,
            "+": np.array([[0, 0], [1, 0]], dtype=complex), "-": np.array([[0, 1], [0, 0]], dtype=complex),
            "n": N, "sn": N - Id / 2, "h": Id - N}


def _ob(fn, label, ok, t0, model=None, detail=None, unknown=False):
    from vf.framework import ObResult

    return ObResult(id=f"{BD}::{fn}::{label}", kind="fdx", status="unknown" if unknown else ("discharged" if ok else "failed"),
                    backend="exhaustive", solver_s=time.time() - t0, function=f"{BD}::{fn}", model=None if ok else model,
                    detail=detail, engine="fdx")


def _cstr(z):
    z = complex(z)
    return repr(z.real) if z.imag == 0 else repr(z)


FDX_COEFFS = (1.0, 0.75 - 0.5j)  # simplify_single_site_ops is linear in coeff: one real and one complex representative


def provider_simplify(tier):
    """simplify_single_site_ops(coeff, ops) for EVERY sequence of 1..3 (thorough: 4) names of _OPMAP:
         null-iff-product-vanishes[len=L] : the result is the documented null result (0, None) iff prod mat(ops_i) = 0
         product-preserved[len=L]         : otherwise op is a name of the table and coeff' * mat(op) = coeff * prod mat(ops_i)
    one obligation per sequence length (known finding on the unchanged tree for L >= 2: inverted coefficient ratio)."""
    import numpy as np
    from quimb.operator import builder as B

    M = textbook_mats()
    names = list(B._OPMAP)
    out = []
    t0 = time.time()
    out.append(_ob("simplify_single_site_ops", "vocabulary-is-the-13-textbook-names", sorted(names) == sorted(M), t0,
                   model=dict(table=names, textbook=sorted(M))))
    if sorted(names) != sorted(M):
        return out
    fn = getattr(B.simplify_single_site_ops, "__wrapped__", B.simplify_single_site_ops)  # body without the lru_cache
    maxlen = 4 if tier == "thorough" else 3
    for L_ in range(1, maxlen + 1):
        t0 = time.time()
        bad_null, bad_prod, nseq = [], [], 0
        for ops in itertools.product(names, repeat=L_):
            prod = M[ops[0]]
            for o in ops[1:]:
                prod = prod @ M[o]
            vanishes = not np.any(np.abs(prod) > 1e-12)
            for coeff in FDX_COEFFS:
                nseq += 1
                call = f"simplify_single_site_ops({coeff!r}, {ops!r})"
                args = dict(coeff=repr(coeff), ops=list(ops))
                try:
                    c2, op = fn(coeff, ops)
                except Exception as e:  # noqa: BLE001
                    bad_prod.append(dict(call=call, raised=f"{type(e).__name__}: {e}", **args))
                    continue
                is_null = op is None
                if is_null != vanishes or (is_null and c2 != 0):
                    bad_null.append(dict(call=call, returned=[_cstr(c2) if c2 is not None else None, op],
                                         product_vanishes=bool(vanishes), **args))
                    continue
                if is_null:
                    continue
                if op not in M:
                    bad_prod.append(dict(call=call, returned=[_cstr(c2), op], reason="operator name not in the table", **args))
                    continue
                lhs, rhs = c2 * M[op], coeff * prod
                if not np.allclose(lhs, rhs, rtol=0, atol=1e-12):
                    # the scalar lam with  coeff*prod = lam * mat(op)  (what coeff' should have been)
                    k = int(np.argmax(np.abs(M[op])))
                    lam = rhs.flat[k] / M[op].flat[k]
                    prop = np.allclose(lam * M[op], rhs, rtol=0, atol=1e-12)
                    bad_prod.append(dict(call=call, returned=[_cstr(c2), op],
                                         expected=[_cstr(lam), op] if prop else "product not proportional to the returned op",
                                         **args))
        dom = f"{len(names)}^{L_} sequences x {len(FDX_COEFFS)} coefficients = {nseq} calls"
        out.append(_ob("simplify_single_site_ops", f"null-iff-product-vanishes[len={L_}]", not bad_null, t0,
                       model=dict(domain=dom, violations=len(bad_null), counterexample=bad_null[:1], more=bad_null[1:6])))
        out.append(_ob("simplify_single_site_ops", f"product-preserved[len={L_}]", not bad_prod, t0,
                       model=dict(domain=dom, violations=len(bad_prod), counterexample=bad_prod[:1], more=bad_prod[1:8])))
    return out


@register
class SimplifyFdxReplay(Contract):
    """not an E1 contract: carries the native replay of a failed fdx obligation on simplify_single_site_ops
    (the framework looks replay() up by function name)"""

    target = f"{BD}::simplify_single_site_ops"
    property_ids = (PID,)

    def inputs(self, cx, case):
        raise Unsupported("simplify_single_site_ops is checked by finite-domain exhaustive execution (provider_simplify), not by E1")

    def replay(self, model):
        import numpy as np
        from quimb.operator import builder as B

        ce = (model.get("counterexample") or [None])[0]
        if not ce or "ops" not in ce:
            return dict(note="no counterexample in the model", reproduced=False)
        coeff, ops = complex(ce["coeff"].strip("()")), tuple(ce["ops"])
        coeff = coeff.real if coeff.imag == 0 else coeff
        M = textbook_mats()
        prod = M[ops[0]]
        for o in ops[1:]:
            prod = prod @ M[o]
        fn = getattr(B.simplify_single_site_ops, "__wrapped__", B.simplify_single_site_ops)
        try:
            c2, op = fn(coeff, ops)
        except Exception as e:  # noqa: BLE001
            return dict(call=ce["call"], observed=f"{type(e).__name__}: {e}", reproduced=True)
        if op is None:
            ok = not np.any(np.abs(prod) > 1e-12) and c2 == 0
            return dict(call=ce["call"], observed=[str(c2), None], product=str(prod.tolist()), reproduced=not ok)
        ok = op in M and np.allclose(c2 * M[op], coeff * prod, rtol=0, atol=1e-12)
        return dict(call=ce["call"], observed=[_cstr(c2), op], observed_matrix=str((c2 * M[op]).tolist()) if op in M else None,
                    reference_matrix=str((coeff * prod).tolist()), reproduced=not ok)


def provider_pauli_decomp(tier):
    """get_pauli_decomp(op, use_zx): sum_b c_b * mat(b) == mat(op), components only from the Pauli basis
    (I, x, y, z; with use_zx: I, x, ZX, z), for every operator name and both use_zx values"""
    import numpy as np
    from quimb.operator import builder as B

    M = textbook_mats()
    out = []
    for op in B._OPMAP:
        for use_zx in (False, True):
            t0 = time.time()
            call = f"get_pauli_decomp({op!r}, use_zx={use_zx})"
            try:
                terms = list(getattr(B.get_pauli_decomp, "__wrapped__", B.get_pauli_decomp)(op, 1e-12, use_zx))
                basis = ("I", "x", "ⴵ", "z") if use_zx else ("I", "x", "y", "z")
                names_ok = all(b in basis for _, b in terms) and len({b for _, b in terms}) == len(terms)
                tot = sum((c * M[b] for c, b in terms if b in M), np.zeros((2, 2), dtype=complex))
                ok = names_ok and op in M and np.allclose(tot, M[op], rtol=0, atol=1e-12)
                model = dict(call=call, returned=[[_cstr(c), b] for c, b in terms], basis_ok=names_ok,
                             sum=str(tot.tolist()), expected=str(M.get(op, np.zeros(0)).tolist()))
            except Exception as e:  # noqa: BLE001
                ok, model = False, dict(call=call, raised=f"{type(e).__name__}: {e}")
            out.append(_ob("get_pauli_decomp", f"decomposition-sums-to-operator[op={op},use_zx={use_zx}]", ok, t0, model=model))
    return out


def provider_opmap(tier):
    """_OPMAP rows {xi: (xj, cij)}:  get_mat(op)[xj, xi] == cij and every other entry 0; the matrix is the textbook one;
    row order: two-entry rows list input 0 then 1, one-entry rows have their input bit as key -- required by
    _check_next_coupled_term, which reads a two-entry operator at ib = b + xi and a one-entry operator by comparing
    xi == xis[b]; checked on the table and on the flat arrays the REAL build_coupling_numba emits for each op"""
    import numpy as np
    from quimb.operator import builder as B

    M = textbook_mats()
    out = []
    for op, row in B._OPMAP.items():
        t0 = time.time()
        gm = getattr(B.get_mat, "__wrapped__", B.get_mat)
        try:
            A = np.array(gm(op), dtype=complex)
            exp = np.zeros((2, 2), dtype=complex)
            for xi, (xj, cij) in row.items():
                exp[xj, xi] = cij
            ok = A.shape == (2, 2) and np.array_equal(A, exp)
            out.append(_ob("get_mat", f"matrix-is-table-row[op={op}]", ok, t0,
                           model=dict(call=f"get_mat({op!r})", returned=str(A.tolist()), table_row=str(row))))
            ok = op in M and np.allclose(A, M[op], rtol=0, atol=0)
            out.append(_ob("get_mat", f"matrix-is-textbook[op={op}]", ok, t0,
                           model=dict(call=f"get_mat({op!r})", returned=str(A.tolist()),
                                      textbook=str(M.get(op, np.zeros(0)).tolist()))))
        except Exception as e:  # noqa: BLE001
            out.append(_ob("get_mat", f"matrix-is-table-row[op={op}]", False, t0,
                           model=dict(call=f"get_mat({op!r})", raised=f"{type(e).__name__}: {e}")))
        keys = list(row)
        ok = (keys == [0, 1] or (len(keys) == 1 and keys[0] in (0, 1))) and all(xj in (0, 1) for xj, _ in row.values())
        out.append(_ob("_OPMAP", f"row-order-input-0-then-1[op={op}]", ok, t0, model=dict(op=op, row=str(row), keys=keys)))
        # the flat arrays really handed to the kernels
        t0 = time.time()
        call = f"build_coupling_numba({{(({op!r}, 0),): 1.0}}, identity, dtype=complex128)"
        try:
            sizes_term, regs, sizes_op, xis, xjs, cijs = B.build_coupling_numba({((op, 0),): 1.0}, lambda s: s, np.complex128)
            so = int(sizes_op[0])
            ok = list(sizes_term) == [1] and list(regs) == [0] and len(sizes_op) == 1 and so == len(xis) == len(xjs) == len(cijs)
            # semantics of _check_next_coupled_term on these arrays = action of the textbook matrix on |x>
            for x in (0, 1):
                if not ok:
                    break
                if so == 1:
                    hit = int(xis[0]) == x
                    col = np.zeros(2, dtype=complex)
                    if hit:
                        col[int(xjs[0])] = cijs[0]
                else:
                    ib = x  # b + xi with b = 0
                    ok = ok and so == 2 and int(xis[ib]) == x
                    col = np.zeros(2, dtype=complex)
                    col[int(xjs[ib])] = cijs[ib]
                ok = ok and np.array_equal(col, M[op][:, x])
            out.append(_ob("build_coupling_numba", f"entries-indexed-by-input-bit[op={op}]", ok, t0,
                           model=dict(call=call, sizes_op=[int(s) for s in sizes_op], xis=[int(v) for v in xis],
                                      xjs=[int(v) for v in xjs], cijs=[_cstr(v) for v in cijs],
                                      textbook=str(M[op].tolist()))))
        except Exception as e:  # noqa: BLE001
            out.append(_ob("build_coupling_numba", f"entries-indexed-by-input-bit[op={op}]", False, t0,
                           model=dict(call=call, raised=f"{type(e).__name__}: {e}")))
    return out


def _jw_expected(term, site_to_reg, reg_to_site):
    """spec: every '+'/'-' at register r is preceded, in term order, by exactly one 'z' on each register < r
    (increasing registers), every original operator is kept in order, nothing else is inserted; a term without
    '+'/'-' is unchanged"""
    new = []
    for op, site in term:
        if op in ("+", "-"):
            new.extend(("z", reg_to_site(q)) for q in range(site_to_reg(site)))
        new.append((op, site))
    return tuple(new)


def provider_jordan_wigner(tier):
    """jordan_wigner_transform on every single-operator and every two-operator term over the 13 names on <= 4
    registers (identity labelling and a permuted non-integer labelling), plus the empty (all-identity) term"""
    from quimb.operator import builder as B

    names = list(B._OPMAP)
    nreg = 4
    labellings = {"identity": (None, None),
                  "permuted": ((lambda s: {"a": 2, "b": 0, "c": 3, "d": 1}[s]), (lambda q: {2: "a", 0: "b", 3: "c", 1: "d"}[q]))}
    out = []
    for lname, (s2r, r2s) in labellings.items():
        sites = list(range(nreg)) if s2r is None else ["a", "b", "c", "d"]
        f_s2r = s2r or (lambda s: s)
        f_r2s = r2s or (lambda q: q)
        singles = [((o, s),) for o in names for s in sites]
        pairs = [((o1, s1), (o2, s2)) for o1 in names for s1 in sites for o2 in names for s2 in sites]
        for kind, terms in (("single-terms", [()] + singles), ("pair-terms", pairs)):
            t0 = time.time()
            bad = []
            for k, term in enumerate(terms):
                coeff = 0.5 + k  # distinct coefficients: a swapped / dropped coefficient is visible
                call = f"jordan_wigner_transform({{{term!r}: {coeff!r}}}, labelling={lname})"
                try:
                    res = B.jordan_wigner_transform({term: coeff}, s2r, r2s)
                except Exception as e:  # noqa: BLE001
                    bad.append(dict(call=call, raised=f"{type(e).__name__}: {e}"))
                    continue
                exp = {_jw_expected(term, f_s2r, f_r2s): coeff}
                if res != exp:
                    bad.append(dict(call=call, returned=str(res), expected=str(exp)))
            # all terms at once (dict in, dict out): the images are pairwise distinct, so nothing may merge
            try:
                allin = {t: 0.5 + k for k, t in enumerate(terms)}
                res = B.jordan_wigner_transform(allin, s2r, r2s)
                exp = {_jw_expected(t, f_s2r, f_r2s): c for t, c in allin.items()}
                if res != exp or list(res) != list(exp):
                    bad.append(dict(call=f"jordan_wigner_transform(<all {len(terms)} {kind} at once>, labelling={lname})",
                                    differing=[str(t) for t in exp if res.get(t) != exp[t]][:5]))
            except Exception as e:  # noqa: BLE001
                bad.append(dict(call=f"jordan_wigner_transform(<all {kind} at once>)", raised=f"{type(e).__name__}: {e}"))
            out.append(_ob("jordan_wigner_transform", f"z-strings-below-every-ladder-operator[{kind},{lname}]", not bad, t0,
                           model=dict(domain=f"{len(terms)} terms on {nreg} registers", violations=len(bad),
                                      counterexample=bad[:1], more=bad[1:5])))
    return out


def provider_fdx(tier):
    """all finite-domain exhaustive obligations of C19"""
    out = []
    for p in (provider_opmap, provider_pauli_decomp, provider_jordan_wigner, provider_simplify):
        out.extend(p(tier))
    return out
