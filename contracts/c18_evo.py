"""C18 -- quimb/evo.py: support table of ``Evolution.__init__`` and the time algebra of the update methods.

Abstract domain.  Python objects whose *kind* matters (ket | density operator; dense | sparse | LinearOperator |
time-dependent callable Hamiltonian; presolved pair) are values ``Q(kind, z)`` with an opaque denotation ``z : V``.
The dynamics is an uninterpreted one-parameter group acting on denotations (H fixed):

    Uact(tau, psi)   = exp(-i tau H) psi                       (kets)
    Uconj(tau, rho)  = exp(-i tau H) rho exp(+i tau H)         (density operators, the von Neumann flow)
    Uleft(tau, rho)  = exp(-i tau H) rho                       (one-sided action on an operator: NOT the flow)
    Flow(tau, y)     = flow map of the installed ODE right-hand side on the ravelled state

with the group law  G(a, G(b, x)) = G(a + b, x),  G(0, x) = x  (instances are assumed where needed, labelled
``def-group-law``).  Class invariant of an Evolution object ``I(evo)``:  state == G(time - t0, p0)  where (time, state)
are the fields the installed update method maintains (``_t``/``_pt``, or ``_stepper.t``/``_stepper.y`` for 'integrate').

Leaf contracts (assumed, listed as TRUSTED in contracts/index.py, checked by the fdx provider below against
scipy.linalg.expm on tiny systems and by the C18 bounded drivers):
  expm_multiply(c*H, v) = exp(c H) v;   spectral theorem  V diag(explt(l, tau)) V^dag = exp(-i tau H) for (l, V) = eigh(H);
  complex_ode.integrate(t) moves (t, y) along the flow of its right-hand side;   qu()/qarray()/toarray() change the
  representation, not the denotation;   functools.lru_cache(1) wrapper denotes the wrapped function.
"""

import time as _time

import z3

from vf.pyvc import (And, Arr, Contract, If, Implies, Loop, NS, Not, Or, PyRaise, R, Ref, Unsupported, V, Z, is_z3,
                     register, REGISTRY)

F = "quimb/evo.py"
EVO = f"{F}::Evolution"
Re = z3.RealSort()

Uact = z3.Function("Uact", Re, V, V)
Uconj = z3.Function("Uconj", Re, V, V)
Uleft = z3.Function("Uleft", Re, V, V)
Flow = z3.Function("Flow", Re, V, V)


def uf(name, *args, sort=V):
    zs = [Z(a) for a in args]
    return z3.Function(name, *[z.sort() for z in zs], sort)(*zs)


class Q:
    """abstract python object of a known kind with an opaque denotation z : V"""

    def __init__(self, kind, z, **info):
        self.kind, self.z, self.info = kind, z, info

    def __repr__(self):
        return f"Q({self.kind}:{self.z})"


class Imag:
    """purely imaginary scalar  i*coef  (coef a real term)"""

    def __init__(self, coef):
        self.coef = coef


STATES = ("ket", "dop")
MATRIX = ("dense", "sparse")
M_EXPM, M_SKET, M_SDOP, M_INT = ("_update_to_expm_ket", "_update_to_solved_ket", "_update_to_solved_dop",
                                 "_update_to_integrate")

# what each evolution-equation builder integrates (from their docstrings): (state kind, open system?, time dependent?)
EQ_SEM = {
    "schrodinger_eq_ket": ("ket", False, False), "schrodinger_eq_ket_timedep": ("ket", False, True),
    "schrodinger_eq_dop": ("dop", False, False), "schrodinger_eq_dop_vectorized": ("dop", False, False),
    "schrodinger_eq_dop_timedep": ("dop", False, True),
    "lindblad_eq": ("dop", True, False), "lindblad_eq_vectorized": ("dop", True, False),
}


def covers(method, state, hamkind):
    """the *own* precondition of each update method, as a predicate on (state kind, Hamiltonian kind):
    this is the `supports(m, ...)` of DESIGN B.6; the update-method contracts below require exactly this"""
    if method == M_EXPM:       # expm_multiply(c*H, v) acts from the left; a density operator gets a second, adjoint pass
        return state in ("ket", "dop") and hamkind in MATRIX
    if method == M_SKET:       # pe0 is a vector in the eigenbasis
        return state == "ket" and hamkind in MATRIX + ("pair",)
    if method == M_SDOP:       # pe0 is an operator in the eigenbasis, evolved two-sidedly
        return state == "dop" and hamkind in MATRIX + ("pair",)
    if method == M_INT:        # any state; needs only the action of H (or H(t))
        return hamkind in MATRIX + ("linop", "timedep")
    return False


def G_of(state):
    return Uact if state == "ket" else Uconj


def mark_case(cx, case):
    """make the case name visible in solver models (a constant named 'case|<name>'), so that replay(model) can
    rebuild the concrete combination"""
    cx.assume(z3.Int("case|" + case.name) == 0)


def case_of_model(model):
    for k in model or {}:
        if k.startswith("case|"):
            return dict(kv.split("=", 1) for kv in k[5:].split(","))
    return {}


def _native_objects(d, state, hk, seed=18):
    import numpy as np
    import scipy.sparse.linalg as spla

    import quimb as qu

    rng = np.random.default_rng(seed)
    A = rng.normal(size=(d, d)) + 1j * rng.normal(size=(d, d))
    Hn = (A + A.conj().T) / 2
    psi = rng.normal(size=(d, 1)) + 1j * rng.normal(size=(d, 1))
    psi /= np.linalg.norm(psi)
    rho = 0.6 * psi @ psi.conj().T + 0.4 * np.eye(d) / d
    evals, evecs = np.linalg.eigh(Hn)
    ham = {"dense": lambda: qu.qu(Hn), "sparse": lambda: qu.qu(Hn, sparse=True),
           "tuple": lambda: (evals.copy(), qu.qu(evecs)), "list": lambda: [evals.copy(), qu.qu(evecs)],
           "linop": lambda: spla.aslinearoperator(Hn), "timedep": lambda: (lambda t: qu.qu(Hn))}[hk]()
    p0 = qu.qu(psi) if state == "ket" else qu.qu(rho)
    return Hn, (psi if state == "ket" else rho), p0, ham


class EvoContract(Contract):
    """shared modelling of quimb/evo.py: abstract values, leaf functions, method dispatch"""

    property_ids = ("C18",)
    drops = "decorators (functools.lru_cache wrapper denotes the wrapped function; @property), docstrings"
    safety = True

    # ---------------------------------------------------------------- helpers
    def evo(self, cx, **fields):
        return cx.new_obj("Evo", **fields)

    def state(self, cx, kind, name="p0", d=None):
        return Q(kind, cx.Val(name), d=d)

    def ham(self, cx, kind, d=None, name="H"):
        if kind in ("tuple", "list"):
            pair = (Q("evals", cx.Val("evals")), Q("evecs", cx.Val("evecs")))
            return pair if kind == "tuple" else list(pair)
        return Q(kind, cx.Val(name), d=d)

    @staticmethod
    def hamkind(h):
        if isinstance(h, (tuple, list)):
            return "pair"
        return h.kind if isinstance(h, Q) else "?"

    def event(self, cx, *what):
        cx.events.append(tuple(what))

    # ---------------------------------------------------------------- attribute hook
    def attr(self, cx, base, attr, node):
        if base is None:
            if attr in EQ_SEM:
                return ("eqfn", attr)
            return NotImplemented
        if isinstance(base, Q):
            if attr == "shape":
                d = base.info.get("d")
                if d is None:
                    raise Unsupported("shape of an object of unknown dimension")
                return (d, 1) if base.kind == "ket" else (d, d)
            return NotImplemented
        if isinstance(base, Ref) and base.kind == "Evo":
            if attr.startswith("_update_to_"):
                return ("method", attr)
            if attr in ("t", "pt"):
                return cx.call_contract(REGISTRY[f"{EVO}.{attr}"], [], {}, node, recv=base)
            if attr.startswith("_") or attr in ("pe0", "t0", "expm_backend", "expm_opts"):
                # an instance attribute that has not been set on this object: python raises AttributeError
                raise PyRaise("AttributeError", getattr(node, "lineno", 0))
        return NotImplemented

    # ---------------------------------------------------------------- call hook
    def call(self, cx, name, args, kwargs, node):
        line = getattr(node, "lineno", 0)
        if name == "__isinstance__":
            v, text = args
            if text == "CALLABLE_TIME_INDEP_CLASSES":
                return isinstance(v, Q) and v.kind in ("linop", "lazy")
            if text == "LinearOperator":
                return isinstance(v, Q) and v.kind == "linop"
            if text == "(tuple, list)":
                return isinstance(v, (tuple, list))
            if text == "dict":
                return isinstance(v, dict)
            raise Unsupported(f"isinstance(..., {text})")
        if name == "callable":
            v = args[0]
            return (isinstance(v, Q) and v.kind in ("linop", "lazy", "timedep", "fn", "t23")) or \
                (isinstance(v, tuple) and v and v[0] in ("def", "lambda"))
        if name == "hasattr":
            obj, nm = args
            if isinstance(obj, Ref):
                return nm in cx.fields(obj)
            raise Unsupported("hasattr on a non-object")
        if name in ("qu", "qarray"):
            return args[0]
        if name == "isop":
            return args[0].kind == "dop"
        if name == "issparse":
            return args[0].kind == "sparse"
        if name == "np.asarray" and len(args) == 1 and isinstance(args[0], Q):
            return args[0]  # [leaf] the same matrix as a plain array
        if name == "ensure_dict":
            return {} if args[0] is None else args[0]
        if name == "eigh":
            x = args[0]
            return (Q("evals", uf("eigvals", x.z)), Q("evecs", uf("eigvecs", x.z)))
        if name == "dag":
            x = args[0]
            z = x.z

            def app(t, nm):
                return z3.is_app(t) and t.decl().name() == nm

            # [trusted algebraic identity of the left action]  (U (U rho)^dag)^dag = U rho U^dag : the two-sided evolution of
            # a density operator written with two left actions (method 'expm')
            if x.kind == "dop" and app(z, "Uleft") and app(z.arg(1), "dag") and app(z.arg(1).arg(0), "Uleft") \
                    and z.arg(0).eq(z.arg(1).arg(0).arg(0)):
                return Q("dop", Uconj(z.arg(0), z.arg(1).arg(0).arg(1)), d=x.info.get("d"))
            if x.kind == "dop":  # the adjoint of a d x d operator is a d x d operator
                return Q("dop", uf("dag", z), d=x.info.get("d"))
            return Q("arr", uf("dag", z))
        if name == "dot":
            return Q("arr", uf("dot", args[0].z, args[1].z))
        if name == "explt":
            return Q("lt", uf("explt", args[0].z, R(args[1])))
        if name in ("ldmul", "rdmul"):
            return Q("arr", uf(name, args[0].z, args[1].z))
        if name == "expm_multiply":
            mat, vec = args[0], args[1]
            if isinstance(mat, Q) and mat.kind == "scaled" and mat.info["base"].kind in MATRIX:
                tau = -mat.info["coef"]  # exp(i*coef*H) = exp(-i*tau*H)
                if mat.info["base"].z.eq(cx.ghost["H"]):
                    g = Uact if vec.kind == "ket" else Uleft  # acts from the left only [leaf]
                    return Q(vec.kind, g(R(tau), vec.z), d=vec.info.get("d"))
            return Q(vec.kind, uf("expm_multiply", mat.z, vec.z))
        if name in ("norm", "norm_fro_approx"):
            return uf(name, args[0].z, sort=Re)
        if name == "Try2Then3Args":
            return Q("t23", cx.Val("t23"), fn=args[0])
        if name == "continuous_progbar":
            return Q("pbar", cx.Val("pbar"))
        if name == "progbar":
            return args[0]  # tqdm wrapper: iterates the same items in the same order [leaf]
        if name == "complex_ode":
            return cx.new_obj("stepper", rhs=args[0], t=None, y=None, integrator=None, solout=None, calls=[])
        if name == "__binop__":
            op, a, b = args
            if op == "Sub" and isinstance(b, complex) and not is_z3(a) and a == 0:
                return -b  # unary minus on a complex constant
            if op == "Mult":
                if isinstance(a, complex) and a.real == 0 and (is_z3(b) or isinstance(b, (int, float))):
                    return Imag(a.imag * R(b) if is_z3(b) else a.imag * b)
                if isinstance(a, Imag) and isinstance(b, Q):
                    return Q("scaled", uf("scale_i", R(a.coef), b.z), base=b, coef=a.coef)
            if op == "MatMult" and isinstance(a, Q) and isinstance(b, Q):
                return Q("arr", uf("matmul", a.z, b.z))
            return NotImplemented
        if name == "__unpack__":
            val, n = args
            if isinstance(val, Q) and val.kind in MATRIX and n == 2:
                # iterating a matrix yields its rows: unpacking into two names succeeds exactly when it has two rows
                if cx.decide(val.info["d"] == 2, line):
                    return (Q("row", uf("row", val.z, z3.IntVal(0))), Q("row", uf("row", val.z, z3.IntVal(1))))
                raise PyRaise("ValueError", line)
            raise PyRaise("TypeError", line)
        # ---- calls through a local name bound to a function-like value
        if name.isidentifier() and name in cx.env:
            f = cx.env[name]
            r = self.call_value(cx, f, args, kwargs, node)
            if r is not NotImplemented:
                return r
        # ---- methods
        if name.startswith("."):
            recv, rest, m = args[0], args[1:], name[1:]
            if isinstance(recv, Q):
                if m == "toarray":
                    return Q("dense" if recv.kind == "sparse" else recv.kind, recv.z, **recv.info)
                if m == "reshape":
                    if len(rest) == 1 and rest[0] == -1:
                        return Q("flat", uf("ravel", recv.z))
                    if len(rest) == 2 and rest[1] == -1:
                        return Q("arr", uf("unravel", recv.z, rest[0]))
                    raise Unsupported("reshape form")
                if m == "conj":
                    return Q(recv.kind, uf("conj", recv.z))
                if recv.kind == "pbar" and m in ("cupdate", "close", "set_description"):
                    return None
                return NotImplemented
            if isinstance(recv, Ref) and recv.kind == "stepper":
                f = cx.fields(recv)
                if m == "set_integrator":
                    f["integrator"] = (rest[0], kwargs.get("nsteps"), kwargs.get("first_step"))
                    f["calls"].append("set_integrator")
                    return recv
                if m == "set_solout":
                    f["solout"] = rest[0]
                    f["calls"].append("set_solout")
                    return None
                if m == "set_initial_value":
                    f["y"], f["t"] = rest[0], rest[1]
                    f["calls"].append("set_initial_value")
                    return recv
                if m == "integrate":
                    # [leaf] scipy complex_ode: moves (t, y) to the requested time along the flow of the rhs
                    t = rest[0]
                    f["y"] = Q("flat", Flow(R(t) - R(f["t"]), f["y"].z))
                    f["t"] = t
                    return f["y"]
                return NotImplemented
            if isinstance(recv, Ref) and recv.kind == "Evo":
                f = cx.fields(recv)
                if m in ("_setup_callback", "_setup_solved_ham", "_start_integrator"):
                    return cx.call_contract(REGISTRY[f"{EVO}.{m}"], rest, kwargs, node, recv=recv)
                if m == "_update_method":
                    um = f["_update_method"]
                    if not (isinstance(um, tuple) and um[0] == "method"):
                        raise Unsupported("unknown update method value")
                    self.event(cx, "update", um[1], rest[0])
                    return cx.call_contract(REGISTRY[f"{EVO}.{um[1]}"], rest, kwargs, node, recv=recv)
                if m in f:
                    return self.call_value(cx, f[m], rest, kwargs, node)
        return NotImplemented

    def call_value(self, cx, f, args, kwargs, node):
        """call a function-like abstract value"""
        if isinstance(f, tuple) and f and f[0] == "def":
            return cx.call_closure(f, args, kwargs)
        if isinstance(f, tuple) and f and f[0] == "eqfn":
            return Q("rhs", cx.Val("rhs"), eq=f[1], ham=args[0])
        if isinstance(f, Q) and f.kind == "fn":
            # an opaque user callback: record the call, result is a function of the callee and the arguments
            self.event(cx, "call", f, tuple(args))
            return Q("res", uf("res_" + str(f.z), *[z3.IntVal(0)]), of=f, args=tuple(args))
        if isinstance(f, Q) and f.kind == "t23":
            # [leaf] Try2Then3Args(fn)(t, p, H) calls fn(t, p) or fn(t, p, H) -- same (t, p) either way
            return self.call_value(cx, f.info["fn"], args, kwargs, node)
        if isinstance(f, Q) and f.kind == "timedep":
            return Q(f.info.get("returns", "dense"), uf("ham_at", f.z, R(args[0])), d=f.info.get("d"))
        return NotImplemented


# ======================================================================================================
# dispatch table of the evolution equations
# ======================================================================================================


@register
class CalcEvoEq(EvoContract):
    """the equation builder chosen for (isdop, issparse, isopen, timedep) integrates that kind of system"""

    target = f"{F}::_calc_evo_eq"
    floor = 16

    def cases(self):
        return [NS(name=f"isdop={int(a)},sparse={int(b)},open={int(c)},timedep={int(d)}", k=(a, b, c, d))
                for a in (False, True) for b in (False, True) for c in (False, True) for d in (False, True)]

    def inputs(self, cx, case):
        a, b, c, d = case.k
        return dict(isdop=a, issparse=b, isopen=c, timedep=d)

    @staticmethod
    def undefined(a):
        return bool(a.isopen and (not a.isdop or a.timedep))  # no Lindblad equation for kets / time-dependent H

    def ensures(self, a, r, cx, case):
        ok = isinstance(r, tuple) and len(r) == 2 and r[0] == "eqfn" and r[1] in EQ_SEM
        d = {"returns-equation-builder": ok, "combination-defined": not self.undefined(a)}
        if ok:
            d["equation-matches-system"] = EQ_SEM[r[1]] == ("dop" if a.isdop else "ket", bool(a.isopen), bool(a.timedep))
        return d

    def ensures_raise(self, a, exc, cx, case):
        return {"raises-only-when-undefined": exc == "KeyError" and self.undefined(a)}

    def apply(self, cx, a, node, case=None):
        if self.undefined(a):
            raise PyRaise("KeyError", node.lineno)
        want = ("dop" if a.isdop else "ket", bool(a.isopen), bool(a.timedep))
        # any builder with the proved semantics; the sparse flag only selects between equivalent formulations
        names = [n for n, s in EQ_SEM.items() if s == want]
        pick = [n for n in names if ("vectorized" in n) == bool(a.issparse and not a.timedep and a.isdop)] or names
        return ("eqfn", pick[0])


# ======================================================================================================
# properties t / pt
# ======================================================================================================


def evo_fields(cx, um, state, d=None, with_stepper=None, cb=None, extra=None):
    """an Evolution object satisfying the class invariant for the installed update method `um`"""
    d = d if d is not None else cx.Int("d")
    p0 = Q(state, cx.Val("p0"), d=d)
    t0, tnow = cx.Real("t0"), cx.Real("tnow")
    H = Q("dense", cx.Val("H"), d=d)
    cx.ghost["H"] = H.z
    cx.ghost["p0"], cx.ghost["t0"], cx.ghost["state"] = p0, t0, state
    f = dict(_p0=p0, t0=t0, _isdop=(state == "dop"), _d=d, _progbar=False, _update_method=("method", um),
             _step_callback=cb, _int_step_callback=None, _g_nyield=0)
    if um == M_INT:
        y = Q("flat", cx.Val("y"))
        st = cx.new_obj("stepper", rhs=None, t=tnow, y=y, integrator=None, solout=None, calls=[])
        f.update(_method="integrate", _stepper=st, _t=t0, _ham=H)
        cx.ghost["y0"] = Q("flat", cx.Val("y0"))
    else:
        pt = Q(state, cx.Val("pt"), d=d)
        f.update(_t=tnow, _pt=pt)
        if um == M_EXPM:
            f.update(_method="expm", _ham=H, expm_backend="AUTO", expm_opts={})
        else:
            evals, evecs = Q("evals", cx.Val("evals")), Q("evecs", cx.Val("evecs"))
            f.update(_method="solve", _ham=(evals, evecs), pe0=Q("arr", cx.Val("pe0")))
    f.update(extra or {})
    return f


def time_state(cx, ref):
    """(time, state denotation) maintained by the installed update method"""
    f = cx.fields(ref)
    if f["_update_method"][1] == M_INT:
        st = cx.fields(f["_stepper"])
        return st["t"], st["y"].z
    return f["_t"], f["_pt"].z


def inv_I(cx, ref):
    """I(evo): state == G(time - t0, initial)"""
    f = cx.fields(ref)
    t, s = time_state(cx, ref)
    if f["_update_method"][1] == M_INT:
        return s == Flow(R(t) - R(f["t0"]), cx.ghost["y0"].z)
    return s == G_of(cx.ghost["state"])(R(t) - R(f["t0"]), f["_p0"].z)


def pe0_def(cx, ref):
    f = cx.fields(ref)
    evals, evecs = f["_ham"]
    if cx.ghost["state"] == "dop":
        return f["pe0"].z == uf("dot", uf("dag", evecs.z), uf("dot", f["_p0"].z, evecs.z))
    return f["pe0"].z == uf("dot", uf("dag", evecs.z), f["_p0"].z)


def spectral_instance(cx, ref, tau):
    """[leaf] spectral theorem for the solved system, instantiated at tau:
       V (diag(explt(l,tau)) (V^dag psi))                       = exp(-i tau H) psi
       V ((diag(explt) (V^dag rho V) diag(conj explt)) V^dag)   = exp(-i tau H) rho exp(+i tau H)"""
    f = cx.fields(ref)
    evals, evecs = f["_ham"]
    lt = uf("explt", evals.z, R(tau))
    p0 = f["_p0"].z
    if cx.ghost["state"] == "dop":
        pe0 = uf("dot", uf("dag", evecs.z), uf("dot", p0, evecs.z))
        lhs = uf("matmul", evecs.z, uf("matmul", uf("rdmul", uf("ldmul", lt, pe0), uf("conj", lt)), uf("dag", evecs.z)))
        return lhs == Uconj(R(tau), p0)
    pe0 = uf("dot", uf("dag", evecs.z), p0)
    return uf("matmul", evecs.z, uf("ldmul", lt, pe0)) == Uact(R(tau), p0)


class PropBase(EvoContract):
    floor = 1
    UMS = ((M_EXPM, "ket"), (M_EXPM, "dop"), (M_SKET, "ket"), (M_SDOP, "dop"), (M_INT, "ket"), (M_INT, "dop"))

    def cases(self):
        return [NS(name=f"installed={um},state={s}", um=um, state=s) for um, s in self.UMS]

    def inputs(self, cx, case):
        return dict(self=self.evo(cx, **evo_fields(cx, case.um, case.state)))

    def requires(self, a, case):
        # class invariant established by __init__ (proved there): the `_method` string says 'integrate' exactly when
        # the integrating update method is installed
        return {}

    def spec(self, cx, ref):
        raise NotImplementedError

    def apply(self, cx, a, node, case=None):
        f = cx.fields(a.self)
        cx.oblige(f"call-pre@{node.lineno}:{self.target.split('.')[-1]}:method-string-matches-installed-method", "call-pre",
                  (f["_method"] == "integrate") == (f["_update_method"][1] == M_INT), node.lineno)
        return self.spec(cx, a.self)


@register
class PropT(PropBase):
    """`t` reads the time field the installed update method maintains"""

    target = f"{EVO}.t"

    def spec(self, cx, ref):
        return time_state(cx, ref)[0]

    def ensures(self, a, r, cx, case):
        return {"reads-time-of-installed-method": Z(R(r)) == Z(R(self.spec(cx, a.self))) if r is not None else False}


@register
class PropPt(PropBase):
    """`pt` reads the state the installed update method maintains (un-ravelled for 'integrate')"""

    target = f"{EVO}.pt"

    def spec(self, cx, ref):
        f = cx.fields(ref)
        if f["_update_method"][1] == M_INT:
            return Q("arr", uf("unravel", cx.fields(f["_stepper"])["y"].z, f["_d"]))
        return f["_pt"]

    def ensures(self, a, r, cx, case):
        return {"reads-state-of-installed-method": isinstance(r, Q) and r.z.eq(self.spec(cx, a.self).z)}


# ======================================================================================================
# update methods: time algebra
# ======================================================================================================


class UpdateBase(EvoContract):
    floor = 4
    um = None
    states = ()

    def cases(self):
        return [NS(name=f"state={s},callback={cb}", state=s, cb=cb) for s in self.states for cb in ("none", "fn")]

    def inputs(self, cx, case):
        cb = None if case.cb == "none" else Q("fn", cx.Val("compute"))
        ref = self.evo(cx, **evo_fields(cx, self.um, case.state, cb=cb))
        cx.ghost["t_entry"] = time_state(cx, ref)[0]
        cx.ghost["self"] = ref
        t = cx.Real("t")
        for c in self.pre(cx, ref, t).values():
            cx.assume(c)
        return dict(self=ref, t=t)

    # preconditions that talk about the heap (asserted at call sites by apply)
    def pre(self, cx, ref, t):
        f = cx.fields(ref)
        d = {"own-precondition-covers-state-and-hamiltonian":
             covers(self.um, cx.ghost["state"], EvoContract.hamkind(f["_ham"])),
             "I(evo)": inv_I(cx, ref)}
        return d

    def group_law(self, cx, ref, t):
        """def-group-law instance:  G(t - time, G(time - t0, p0)) == G(t - t0, p0)"""
        f = cx.fields(ref)
        tn = cx.ghost.get("t_entry")
        tn = tn if tn is not None else time_state(cx, ref)[0]
        g = Flow if self.um == M_INT else G_of(cx.ghost["state"])
        x0 = cx.ghost["y0"].z if self.um == M_INT else f["_p0"].z
        a, b = R(t) - R(tn), R(tn) - R(f["t0"])
        return g(a, g(b, x0)) == g(a + b, x0)

    def requires(self, a, case):
        return {}

    def post(self, cx, ref, t, pre_fields):
        f = cx.fields(ref)
        tt, s = time_state(cx, ref)
        g = Flow if self.um == M_INT else G_of(cx.ghost["state"])
        x0 = cx.ghost["y0"].z if self.um == M_INT else f["_p0"].z
        d = {"time-is-requested-time": Z(R(tt)) == Z(R(t)),
             "state==U(t-t0)p0": s == g(R(t) - R(f["t0"]), x0),
             "frame:t0": Z(R(f["t0"])) == Z(R(pre_fields["t0"]))}
        d["frame:p0"] = f["_p0"] is pre_fields["_p0"]
        d["frame:ham"] = f["_ham"] is pre_fields["_ham"]
        d["frame:installed-method"] = f["_update_method"] == pre_fields["_update_method"] and \
            f["_method"] == pre_fields["_method"]
        return d

    def ensures(self, a, r, cx, case):
        ref = a.self
        cx.assume(self.group_law(cx, ref, a.t))
        d = self.post(cx, ref, a.t, cx.pre(ref))
        f = cx.fields(ref)
        cb = f["_step_callback"]
        calls = [e for e in cx.events if e[0] == "call"]
        if self.um != M_INT:
            if cb is None:
                d["no-callback-no-call"] = len(calls) == 0
            else:
                ok = len(calls) == 1 and calls[0][1] is cb and len(calls[0][2]) == 3
                d["callback-called-once"] = ok
                if ok:
                    t_, p_, h_ = calls[0][2]
                    # the compute callback sees the reported (t, pt) -- the values the properties t / pt return afterwards
                    d["callback-gets-(t,pt,ham)"] = And(Z(R(t_)) == Z(R(a.t)), isinstance(p_, Q) and p_.z.eq(f["_pt"].z),
                                                        h_ is f["_ham"])
        return d

    def apply(self, cx, a, node, case=None):
        ref = a.self
        nm = self.target.split(".")[-1]
        for lab, c in self.pre(cx, ref, a.t).items():
            cx.oblige(f"call-pre@{node.lineno}:{nm}:{lab}", "call-pre", c, node.lineno)
        cx.ghost["t_entry"] = None
        gl = self.group_law(cx, ref, a.t)
        f = cx.fields(ref)
        g = Flow if self.um == M_INT else G_of(cx.ghost["state"])
        if self.um == M_INT:
            st = cx.fields(f["_stepper"])
            st["y"] = Q("flat", Flow(R(a.t) - R(f["t0"]), cx.ghost["y0"].z))
            st["t"] = a.t
        else:
            f["_pt"] = Q(cx.ghost["state"], g(R(a.t) - R(f["t0"]), f["_p0"].z), d=f["_p0"].info.get("d"))
            f["_t"] = a.t
        cx.assume(gl)
        return None


@register
class UpdateExpmKet(UpdateBase):
    """incremental: multiplies the current state by exp(-i (t - self.t) H), then sets the time to t"""

    target = f"{EVO}.{M_EXPM}"
    um = M_EXPM
    states = ("ket", "dop")


@register
class UpdateSolvedKet(UpdateBase):
    """absolute: pt = V diag(explt(l, t - t0)) pe0   (any order of times)"""

    target = f"{EVO}.{M_SKET}"
    um = M_SKET
    states = ("ket",)

    def pre(self, cx, ref, t):
        d = super().pre(cx, ref, t)
        d["pe0==dag(evecs)@p0"] = pe0_def(cx, ref)
        return d

    def ensures(self, a, r, cx, case):
        cx.assume(spectral_instance(cx, a.self, R(a.t) - R(cx.fields(a.self)["t0"])))
        return super().ensures(a, r, cx, case)


@register
class UpdateSolvedDop(UpdateSolvedKet):
    """absolute and two-sided: pt = V (diag(lt) pe0 diag(conj lt)) V^dag"""

    target = f"{EVO}.{M_SDOP}"
    um = M_SDOP
    states = ("dop",)


@register
class UpdateIntegrate(UpdateBase):
    target = f"{EVO}.{M_INT}"
    um = M_INT
    states = ("ket", "dop")
    floor = 3

    def cases(self):
        return [NS(name=f"state={s}", state=s, cb="none") for s in self.states]


# ======================================================================================================
# update_to / at_times
# ======================================================================================================


ALL_UMS = ((M_EXPM, "ket"), (M_EXPM, "dop"), (M_SKET, "ket"), (M_SDOP, "dop"), (M_INT, "ket"), (M_INT, "dop"))


def um_pre(cx, ref):
    """class invariant needed to call the installed update method: its own precondition"""
    um = cx.fields(ref)["_update_method"][1]
    con = REGISTRY[f"{EVO}.{um}"]
    return con.pre(cx, ref, None)


@register
class UpdateTo(EvoContract):
    """dispatches exactly once to the installed update method with the requested time"""

    target = f"{EVO}.update_to"
    floor = 10

    def cases(self):
        out = []
        for um, s in ALL_UMS:
            for pb in (False, True):
                for icb in ("none", "fn"):
                    if um != M_INT and icb == "fn":
                        continue
                    out.append(NS(name=f"installed={um},state={s},progbar={pb},int_callback={icb}", um=um, state=s, pb=pb,
                                  icb=icb))
        return out

    def inputs(self, cx, case):
        icb = None if case.icb == "none" else Q("fn", cx.Val("int_step_callback"))
        ref = self.evo(cx, **evo_fields(cx, case.um, case.state,
                                        extra=dict(_progbar=case.pb, _int_step_callback=icb)))
        cx.ghost["t_entry"] = time_state(cx, ref)[0]
        for c in um_pre(cx, ref).values():
            cx.assume(c)
        return dict(self=ref, t=cx.Real("t"))

    def ensures(self, a, r, cx, case):
        ref = a.self
        f = cx.fields(ref)
        ups = [e for e in cx.events if e[0] == "update"]
        ok = len(ups) == 1 and ups[0][1] == case.um
        d = {"installed-method-called-exactly-once": ok}
        if ok:
            d["with-the-requested-time"] = Z(R(ups[0][2])) == Z(R(a.t))
        tt, s = time_state(cx, ref)
        g = Flow if case.um == M_INT else G_of(case.state)
        x0 = cx.ghost["y0"].z if case.um == M_INT else f["_p0"].z
        d["time-is-requested-time"] = Z(R(tt)) == Z(R(a.t))
        d["state==U(t-t0)p0"] = s == g(R(a.t) - R(f["t0"]), x0)
        if case.um == M_INT and case.pb:
            so = cx.fields(f["_stepper"])["solout"]
            isdef = isinstance(so, tuple) and so and so[0] == "def"
            d["progress-solout-installed"] = isdef
            if isdef:
                # behaviour of the installed solout: forwards (t, y, ham) to the integration callback and returns
                # its verdict (int_stop can still terminate the integration)
                n0 = len(cx.events)
                tq, yq = cx.Real("tq"), Q("flat", cx.Val("yq"))
                res = cx.call_closure(so, [tq, yq])
                calls = [e for e in cx.events[n0:] if e[0] == "call"]
                if case.icb == "none":
                    d["solout-no-callback"] = len(calls) == 0 and res is None
                else:
                    okc = len(calls) == 1 and calls[0][1] is f["_int_step_callback"] and len(calls[0][2]) == 3
                    d["solout-forwards-once"] = okc
                    if okc:
                        t_, y_, h_ = calls[0][2]
                        d["solout-forwards-(t,y,ham)"] = And(Z(R(t_)) == tq, y_ is yq, h_ is f["_ham"])
                        d["solout-returns-stop-verdict"] = isinstance(res, Q) and res.info.get("of") is f["_int_step_callback"]
        return d


@register
class AtTimes(EvoContract):
    """visits every requested time in order: the j-th yielded state is the state at time ts[j]; one yield per time"""

    target = f"{EVO}.at_times"
    floor = 10

    def cases(self):
        return [NS(name=f"installed={um},state={s},progbar={pb}", um=um, state=s, pb=pb)
                for um, s in ALL_UMS for pb in (False, True)]

    def inputs(self, cx, case):
        ref = self.evo(cx, **evo_fields(cx, case.um, case.state, extra=dict(_progbar=case.pb)))
        cx.ghost["t_entry"] = None
        cx.ghost["self"] = ref
        for c in um_pre(cx, ref).values():
            cx.assume(c)
        n = cx.Int("n")
        cx.ghost["n"] = n
        ts = Arr(cx.Array("ts", z3.IntSort(), Re), (n,))
        cx.ghost["ts"] = ts
        return dict(self=ref, ts=ts)

    def requires(self, a, case):
        return {"n>=0": a.ts.shape[0] >= 0}

    def havoc_heap(self, cx):
        ref = cx.ghost["self"]
        f = cx.fields(ref)
        f["_g_nyield"] = cx.Int("nyield")
        if f["_update_method"][1] == M_INT:
            st = cx.fields(f["_stepper"])
            st["t"], st["y"] = cx.Real("st_t"), Q("flat", cx.Val("st_y"))
        else:
            f["_t"], f["_pt"] = cx.Real("_t"), Q(f["_pt"].kind, cx.Val("_pt"), d=f["_pt"].info.get("d"))

    def inv(self, v):
        cx = v.cx
        ref = cx.ghost["self"]
        f = cx.fields(ref)
        j = v._it0
        tt, _ = time_state(cx, ref)
        ts = cx.ghost["ts"]
        d = {"one-yield-per-visited-time": Z(f["_g_nyield"]) == Z(j), "j<=len(ts)": Z(j) <= cx.ghost["n"],
             "I(evo)": inv_I(cx, ref)}
        if not (isinstance(j, int) and j == 0):
            d["time-is-last-requested"] = Implies(Z(j) > 0, Z(R(tt)) == ts.get([Z(j) - 1]))
        return d

    def on_yield(self, cx, value, node):
        ref = cx.ghost["self"]
        f = cx.fields(ref)
        j = cx.env["_it0"]
        ts = cx.ghost["ts"]
        g = Flow if f["_update_method"][1] == M_INT else G_of(cx.ghost["state"])
        if f["_update_method"][1] == M_INT:
            want = uf("unravel", Flow(ts.get([Z(j)]) - R(f["t0"]), cx.ghost["y0"].z), f["_d"])
        else:
            want = g(ts.get([Z(j)]) - R(f["t0"]), f["_p0"].z)
        cx.oblige(f"yield@{node.lineno}:state-at-requested-time-ts[j]", "post",
                  value.z == want if isinstance(value, Q) else False, node.lineno)
        cx.oblige(f"yield@{node.lineno}:j-th-yield-in-iteration-j", "post", Z(f["_g_nyield"]) == Z(j), node.lineno)
        f["_g_nyield"] = f["_g_nyield"] + 1
        return None

    def ensures(self, a, r, cx, case):
        f = cx.fields(a.self)
        return {"yields==len(ts)": Z(f["_g_nyield"]) == a.ts.shape[0], "I(evo)": inv_I(cx, a.self)}

    @property
    def loops(self):
        return {0: Loop("for t in ts", self.inv)}


# ======================================================================================================
# constructor helpers
# ======================================================================================================


@register
class SetupSolvedHam(EvoContract):
    """the stored system is an eigendecomposition (evals, evecs) of the Hamiltonian (the given pair, or eigh of the
    matrix), pe0 is the initial state in that eigenbasis, and the update method for the state kind is installed"""

    target = f"{EVO}._setup_solved_ham"
    floor = 6

    def cases(self):
        out = []
        for hk in ("tuple", "list", "dense", "sparse"):
            for s in STATES:
                for m in (("solve", "integrate", "expm", "bogus") if hk in ("tuple", "list") else ("solve",)):
                    out.append(NS(name=f"ham={hk},state={s},method={m}", hk=hk, state=s, m=m))
        return out

    def inputs(self, cx, case):
        d = cx.Int("d")
        cx.assume(d >= 1)
        p0 = Q(case.state, cx.Val("p0"), d=d)
        ham = self.ham(cx, case.hk, d=d)
        cx.ghost["ham0"] = ham
        cx.ghost["H"] = None
        mark_case(cx, case)
        return dict(self=self.evo(cx, _ham=ham, _isdop=case.state == "dop", _p0=p0, _method=case.m))

    def replay(self, model):
        """native replay: the real constructor on a d x d Hamiltonian of the model's dimension; the stored system
        must be the eigendecomposition (compared with numpy.linalg.eigh through the evolution it produces)"""
        import numpy as np
        import scipy.linalg as sla

        from quimb.evo import Evolution

        c = case_of_model(model)
        d = int(model.get("d", 2))
        state, hk = c.get("state", "ket"), c.get("ham", "dense")
        Hn, s0, p0, ham = _native_objects(d, state, hk)
        call = f"Evolution(<{state} d={d}>, <{hk} {d}x{d}>, method='solve', t0=0.3).update_to(0.75)"
        try:
            evo = Evolution(p0, ham, method="solve", t0=0.3)
            pair = isinstance(evo._ham, tuple) and np.ndim(evo._ham[0]) == 1 and np.shape(evo._ham[1]) == (d, d)
            evo.update_to(0.75)
            U = sla.expm(-1j * Hn * 0.45)
            ref = U @ s0 if state == "ket" else U @ s0 @ U.conj().T
            err = float(np.abs(np.asarray(evo.pt) - ref).max())
            return dict(call=call, observed=dict(stored_system_is_pair=bool(pair), max_abs_error_vs_expm=err),
                        reproduced=(not pair) or err > 1e-9)
        except Exception as e:
            return dict(call=call, observed=f"{type(e).__name__}: {str(e)[:200]}",
                        note="the 2-row matrix was unpacked as (evals, evecs)", reproduced=True)

    @staticmethod
    def spec(cx, f, ham0):
        """(evals.z, evecs.z) the stored pair must denote"""
        if isinstance(ham0, (tuple, list)):
            return ham0[0].z, ham0[1].z
        return uf("eigvals", ham0.z), uf("eigvecs", ham0.z)

    def ensures(self, a, r, cx, case):
        f = cx.fields(a.self)
        ham0 = cx.ghost["ham0"]
        h = f["_ham"]
        pair = isinstance(h, (tuple, list)) and len(h) == 2 and all(isinstance(x, Q) for x in h)
        d = {"stored-system-is-a-pair(evals,evecs)": pair}
        if pair:
            ev, vc = self.spec(cx, f, ham0)
            d["stored-system-is-eigendecomposition-of-ham"] = And(h[0].z == ev, h[1].z == vc)
            isdop = case.state == "dop"
            pe0 = f.get("pe0")
            want = uf("dot", uf("dag", vc), uf("dot", f["_p0"].z, vc)) if isdop else uf("dot", uf("dag", vc), f["_p0"].z)
            d["pe0-is-p0-in-eigenbasis"] = isinstance(pe0, Q) and Z(pe0.z == want)
        d["installs-solved-method-for-state-kind"] = f.get("_update_method") == ("method", M_SDOP if case.state == "dop" else M_SKET)
        d["method-string-is-solve"] = f.get("_method") == "solve"
        d["pt-is-p0"] = f.get("_pt") is f["_p0"]
        return d

    def apply(self, cx, a, node, case=None):
        f = cx.fields(a.self)
        ham0 = f["_ham"]
        hk = EvoContract.hamkind(ham0)
        cx.oblige(f"call-pre@{node.lineno}:_setup_solved_ham:ham-is-pair-or-(matrix-and-method-solve)", "call-pre",
                  hk == "pair" or (hk in MATRIX and f.get("_method") == "solve"), node.lineno)
        ev, vc = self.spec(cx, f, ham0)
        isdop = f["_isdop"]
        f["_ham"] = (Q("evals", ev), Q("evecs", vc))
        f["pe0"] = Q("arr", uf("dot", uf("dag", vc), uf("dot", f["_p0"].z, vc)) if isdop
                     else uf("dot", uf("dag", vc), f["_p0"].z))
        f["_update_method"] = ("method", M_SDOP if isdop else M_SKET)
        f["_method"] = "solve"
        f["_pt"] = f["_p0"]
        return None


@register
class StartIntegrator(EvoContract):
    """the stepper integrates the equation for (state kind, time dependence) of THIS Hamiltonian from (p0, t0)"""

    target = f"{EVO}._start_integrator"
    floor = 8

    def cases(self):
        out = []
        for hk in ("dense", "sparse", "linop", "timedep", "timedep-sparse"):
            for s in STATES:
                for small in (False, True):
                    for icb in ("none", "fn"):
                        out.append(NS(name=f"ham={hk},state={s},small_step={small},int_callback={icb}", hk=hk, state=s,
                                      small=small, icb=icb))
        return out

    def inputs(self, cx, case):
        d = cx.Int("d")
        cx.assume(d >= 1)
        p0 = Q(case.state, cx.Val("p0"), d=d)
        if case.hk.startswith("timedep"):
            ham = Q("timedep", cx.Val("Hfun"), d=d, returns="sparse" if case.hk.endswith("sparse") else "dense")
        else:
            ham = self.ham(cx, case.hk, d=d)
        icb = None if case.icb == "none" else Q("fn", cx.Val("int_step_callback"))
        ref = self.evo(cx, _isdop=case.state == "dop", _timedep=case.hk.startswith("timedep"), _p0=p0, t0=cx.Real("t0"),
                       _int_step_callback=icb, _d=d, _method="integrate")
        cx.ghost["H"] = None
        return dict(self=ref, ham=ham, small_step=case.small)

    def ensures(self, a, r, cx, case):
        f = cx.fields(a.self)
        st = f.get("_stepper")
        ok = isinstance(st, Ref) and st.kind == "stepper"
        d = {"stepper-created": ok}
        if not ok:
            return d
        s = cx.fields(st)
        rhs = s["rhs"]
        okr = isinstance(rhs, Q) and rhs.kind == "rhs"
        d["rhs-is-an-evolution-equation"] = okr
        if okr:
            d["equation-matches-(state,closed,timedep)"] = EQ_SEM[rhs.info["eq"]] == (case.state, False,
                                                                                       case.hk.startswith("timedep"))
            d["equation-built-from-the-given-hamiltonian"] = rhs.info["ham"] is a.ham
        d["initial-value-is-(ravel(p0),t0)"] = isinstance(s["y"], Q) and s["y"].z.eq(uf("ravel", f["_p0"].z)) and \
            is_z3(s["t"]) and s["t"].eq(f["t0"])
        d["integrator-order-by-small_step"] = isinstance(s["integrator"], tuple) and \
            s["integrator"][0] == ("dopri5" if case.small else "dop853") and s["integrator"][1] == 0
        d["configured-before-initial-value"] = s["calls"][-1:] == ["set_initial_value"] and "set_integrator" in s["calls"]
        d["installs-integrate-method"] = f.get("_update_method") == ("method", M_INT)
        so = s["solout"]
        if case.icb == "none":
            d["no-solout-without-callback"] = so is None
        else:
            isdef = isinstance(so, tuple) and so and so[0] == "def"
            d["solout-installed"] = isdef
            if isdef:
                hm = Q("dense", cx.Val("ham_later"))
                f["_ham"] = hm  # the closure reads self._ham when called (set by __init__ after this helper returns)
                n0 = len(cx.events)
                tq, yq = cx.Real("tq"), Q("flat", cx.Val("yq"))
                res = cx.call_closure(so, [tq, yq])
                calls = [e for e in cx.events[n0:] if e[0] == "call"]
                okc = len(calls) == 1 and calls[0][1] is f["_int_step_callback"] and len(calls[0][2]) == 3
                d["solout-forwards-once"] = okc
                if okc:
                    t_, y_, h_ = calls[0][2]
                    d["solout-forwards-(t,y,ham)"] = And(Z(R(t_)) == tq, y_ is yq, h_ is hm)
                    d["solout-returns-stop-verdict"] = isinstance(res, Q) and res.info.get("of") is f["_int_step_callback"]
        return d

    def apply(self, cx, a, node, case=None):
        f = cx.fields(a.self)
        hk = EvoContract.hamkind(a.ham)
        cx.oblige(f"call-pre@{node.lineno}:_start_integrator:hamiltonian-kind-integrable", "call-pre",
                  covers(M_INT, "dop" if f["_isdop"] else "ket", hk), node.lineno)
        cx.oblige(f"call-pre@{node.lineno}:_start_integrator:timedep-flag-matches-hamiltonian", "call-pre",
                  f["_timedep"] == (hk == "timedep"), node.lineno)
        want = ("dop" if f["_isdop"] else "ket", False, bool(f["_timedep"]))
        eq = [n for n, s in EQ_SEM.items() if s == want][0]
        rhs = Q("rhs", cx.Val("rhs"), eq=eq, ham=a.ham)
        st = cx.new_obj("stepper", rhs=rhs, t=f["t0"], y=Q("flat", uf("ravel", f["_p0"].z)), integrator=None,
                        solout=None if f["_int_step_callback"] is None else ("forward", f["_int_step_callback"]),
                        calls=["set_integrator", "set_initial_value"])
        f["_stepper"] = st
        f["_update_method"] = ("method", M_INT)
        return None


@register
class SetupCallback(EvoContract):
    """compute callbacks: every compute function is called exactly once per step with the (t, pt, ham) handed to
    the step callback; the integration callback hands them qarray(y.reshape(d, -1)) -- the expression the `pt`
    property reports -- so all three methods route the same (t, pt)"""

    target = f"{EVO}._setup_callback"
    floor = 6

    def cases(self):
        return [NS(name=f"compute={ck},int_stop={ik},progbar={pb}", ck=ck, ik=ik, pb=pb)
                for ck in ("none", "fn", "dict") for ik in ("none", "fn") for pb in (False, True)]

    def inputs(self, cx, case):
        fa, fb = Q("fn", cx.Val("fa")), Q("fn", cx.Val("fb"))
        fn = {"none": None, "fn": fa, "dict": {"a": fa, "b": fb}}[case.ck]
        stop = None if case.ik == "none" else Q("fn", cx.Val("int_stop"))
        cx.ghost["H"] = None
        return dict(self=self.evo(cx, _d=cx.Int("d"), _progbar=case.pb), fn=fn, int_stop=stop)

    def ensures(self, a, r, cx, case):
        f = cx.fields(a.self)
        sc, ic = f.get("_step_callback", "missing"), f.get("_int_step_callback", "missing")
        fns = [] if a.fn is None else (list(a.fn.values()) if isinstance(a.fn, dict) else [a.fn])
        d = {"step-callback-iff-compute": (sc is None) == (a.fn is None) and sc != "missing",
             "int-callback-iff-anything-to-do": (ic is None) == (a.fn is None and a.int_stop is None and not case.pb)
             and ic != "missing"}
        if a.fn is not None:
            res = f.get("_results")
            d["results-container-shape"] = (isinstance(res, dict) and set(res) == set(a.fn) and all(v == [] for v in res.values())) \
                if isinstance(a.fn, dict) else res == []
        tq, pq, hq = cx.Real("tq"), Q("ket", cx.Val("pq")), Q("dense", cx.Val("hq"))
        if isinstance(sc, tuple) and sc[0] == "def":
            n0 = len(cx.events)
            cx.call_closure(sc, [tq, pq, hq])
            calls = [e for e in cx.events[n0:] if e[0] == "call"]
            d["step: every-compute-fn-once-in-order"] = [c[1] for c in calls] == fns
            d["step: compute-gets-(t,pt,ham)"] = all(len(c[2]) == 3 and c[2][0] is tq and c[2][1] is pq and c[2][2] is hq
                                                     for c in calls)
            res = f["_results"]
            if isinstance(a.fn, dict):
                d["step: results-appended-per-key"] = all(
                    len(res[k]) == 1 and isinstance(res[k][0], Q) and res[k][0].info.get("of") is a.fn[k] for k in a.fn)
                for k in res:
                    res[k].clear()
            else:
                d["step: result-appended"] = len(res) == 1 and isinstance(res[0], Q) and res[0].info.get("of") is a.fn
                res.clear()
        if isinstance(ic, tuple) and ic[0] == "def":
            n0 = len(cx.events)
            yq = Q("flat", cx.Val("yq"))
            out = cx.call_closure(ic, [tq, yq, hq])
            calls = [e for e in cx.events[n0:] if e[0] == "call"]
            want = fns + ([a.int_stop] if a.int_stop is not None else [])
            d["int: compute-fns-then-int_stop-once-in-order"] = [c[1] for c in calls] == want
            pt_expr = uf("unravel", yq.z, f["_d"])  # what the `pt` property reports for 'integrate'
            d["int: callbacks-get-(t, pt-as-reported, ham)"] = all(
                len(c[2]) == 3 and c[2][0] is tq and isinstance(c[2][1], Q) and c[2][1].z.eq(pt_expr) and c[2][2] is hq
                for c in calls)
            if a.int_stop is not None:
                d["int: returns-int_stop-verdict"] = isinstance(out, Q) and out.info.get("of") is a.int_stop
            else:
                d["int: returns-None"] = out is None
        return d

    def apply(self, cx, a, node, case=None):
        f = cx.fields(a.self)
        # abstract effect (proved above): the two callback fields are set; their behaviour is summarised by markers
        f["_step_callback"] = None if a.fn is None else Q("fn", cx.Val("step_callback"), compute=a.fn)
        f["_int_step_callback"] = None if (a.fn is None and a.int_stop is None and not f["_progbar"]) else \
            Q("fn", cx.Val("int_step_callback"), compute=a.fn, int_stop=a.int_stop)
        if a.fn is not None:
            f["_results"] = {k: [] for k in a.fn} if isinstance(a.fn, dict) else []
        self.event(cx, "setup_callback", a.fn, a.int_stop)
        return None


# ======================================================================================================
# the constructor: support table
# ======================================================================================================

METHODS = ("solve", "integrate", "expm", "bogus")
HAMKINDS = ("dense", "sparse", "tuple", "list", "linop", "timedep")


def same(x, y):
    """syntactic identity of two stored values (z3 terms / python numbers / abstract objects)"""
    if is_z3(x) and is_z3(y):
        return x.eq(y)
    if isinstance(x, Q) and isinstance(y, Q):
        return x.z.eq(y.z)
    if is_z3(x) or is_z3(y) or isinstance(x, Q) or isinstance(y, Q):
        return False
    return x is y or (type(x) is type(y) and x == y)


def documented_support(method, state, hk, int_stop):
    """combinations the class documents as working (must NOT raise)"""
    if int_stop and method != "integrate":
        return False
    if method == "solve":
        return hk in ("dense", "sparse", "tuple", "list")
    if method == "integrate":
        return hk in ("dense", "sparse", "linop", "timedep")
    if method == "expm":
        return hk in ("dense", "sparse") and state == "ket"
    return False


@register
class Init(EvoContract):
    """support table: for every (method, state kind, Hamiltonian kind) the constructor either raises or installs an
    update method whose own precondition covers the combination, with time/state fields initialised (I(evo) at t0)"""

    target = f"{EVO}.__init__"
    floor = 200

    def cases(self):
        out = []
        for m in METHODS:
            for s in STATES:
                for hk in HAMKINDS:
                    for stop in ("none", "fn"):
                        out.append(NS(name=f"method={m},state={s},ham={hk},int_stop={stop}", m=m, state=s, hk=hk, stop=stop))
        return out

    def inputs(self, cx, case):
        d = cx.Int("d")
        cx.assume(d >= 1)
        p0 = Q(case.state, cx.Val("p0"), d=d)
        ham = self.ham(cx, case.hk, d=d)
        cx.ghost["H"] = ham.z if isinstance(ham, Q) else None
        cx.ghost["ham0"] = ham
        stop = None if case.stop == "none" else Q("fn", cx.Val("int_stop"))
        compute = Q("fn", cx.Val("compute"))
        mark_case(cx, case)
        return dict(self=self.evo(cx), p0=p0, ham=ham, t0=cx.Real("t0"), compute=compute, int_stop=stop,
                    method=case.m if case.m != "bogus" else "bogus", int_small_step=False, expm_backend="AUTO",
                    expm_opts=None, progbar=False)

    def call(self, cx, name, args, kwargs, node):
        if name == "__def__" and args[0] == "ham":
            # @functools.lru_cache(1) def ham(t): Ht = noncacheing_ham(t); make_immutable(Ht); return Ht
            # [leaf] the caching wrapper denotes the wrapped time-dependent Hamiltonian
            inner = cx.env["noncacheing_ham"]
            return Q("timedep", inner.z, **inner.info)
        return super().call(cx, name, args, kwargs, node)

    def replay(self, model):
        """native replay of a failed support-table obligation: the real constructor on the combination named by the
        model's case marker (d = 3); reproduced when it is accepted although the installed method does not cover it
        (checked against scipy.linalg.expm), or when an accepted int_stop is never consulted"""
        import numpy as np
        import scipy.linalg as sla

        from quimb.evo import Evolution

        c = case_of_model(model)
        if not c:
            return dict(reproduced=False, note="no case marker in the model")
        d = 3
        Hn, s0, p0, ham = _native_objects(d, c["state"], c["ham"])
        seen = []
        kw = {}
        if c.get("int_stop") == "fn":
            kw["int_stop"] = lambda t, p: seen.append(t) or 0
        call = f"Evolution(<{c['state']} d=3>, <{c['ham']}>, method={c['method']!r}, t0=0.3" + \
            (", int_stop=<fn>" if kw else "") + ").update_to(0.75)"
        try:
            evo = Evolution(p0, ham, method=c["method"], t0=0.3, **kw)
        except Exception as e:
            return dict(call=call, observed=f"raises {type(e).__name__}: {str(e)[:120]}", reproduced=False)
        um = evo._update_method.__name__
        cov = covers(um, c["state"], "pair" if c["ham"] in ("tuple", "list") else c["ham"])
        evo.update_to(0.75)
        U = sla.expm(-1j * Hn * 0.45)
        ref = U @ s0 if c["state"] == "ket" else U @ s0 @ U.conj().T
        got = np.asarray(evo.pt).reshape(ref.shape)
        err = float(np.abs(got - ref).max())
        one_sided = float(np.abs(got - U @ s0).max())
        ignored = bool(kw) and not seen
        return dict(call=call, observed=dict(installed=um, own_precondition_covers=cov, max_abs_error_vs_expm=err,
                                             error_vs_one_sided_product=one_sided, int_stop_calls=len(seen)),
                    reproduced=bool((not cov and err > 1e-9) or ignored))

    def ensures_raise(self, a, exc, cx, case):
        return {"raises-only-for-undocumented-combination":
                exc in ("ValueError", "TypeError") and not documented_support(case.m, case.state, case.hk, case.stop == "fn")}

    def ensures(self, a, r, cx, case):
        f = cx.fields(a.self)
        um = f.get("_update_method")
        ok = isinstance(um, tuple) and um[0] == "method"
        d = {"installs-an-update-method": ok}
        if not ok:
            return d
        m = um[1]
        hk = EvoContract.hamkind(cx.ghost["ham0"])
        # --- THE support-table clause (DESIGN B.6): the installed method's own precondition covers the combination
        d["installed-method-covers-(state,hamiltonian)"] = covers(m, case.state, hk)
        # (note, not an obligation -- C18 does not mention int_stop and the evolution itself is right: with the default
        # method='integrate' and a presolved (evals, evecs) Hamiltonian an int_stop passes the constructor's guard, the
        # solved method is installed and the stopping condition is never consulted)
        # --- class invariant used by the t / pt properties
        d["method-string-integrate-iff-integrating"] = (f.get("_method") == "integrate") == (m == M_INT)
        # --- time / state initialised: I(evo) at t0
        d["time-initialised"] = same(f.get("_t"), a.t0) and same(f.get("t0"), a.t0)
        d["p0-stored"] = f.get("_p0") is a.p0 and f.get("_isdop") == (case.state == "dop") and \
            same(f.get("_d"), a.p0.info["d"])
        if m != M_INT:
            d["state-initialised-to-p0"] = f.get("_pt") is a.p0
        else:
            st = cx.fields(f["_stepper"])
            d["stepper-starts-at-(p0,t0)"] = same(st["t"], a.t0) and same(st["y"], Q("flat", uf("ravel", a.p0.z)))
            d["stepper-equation-for-this-hamiltonian"] = same(st["rhs"].info["ham"], cx.ghost["ham0"]) and \
                EQ_SEM[st["rhs"].info["eq"]] == (case.state, False, hk == "timedep")
        if m == M_EXPM:
            d["expm-fields"] = f.get("_ham") is a.ham and f.get("expm_backend") == a.expm_backend and f.get("expm_opts") == {}
        if m in (M_SKET, M_SDOP):
            h = f.get("_ham")
            d["solved-system-stored"] = isinstance(h, tuple) and len(h) == 2
        if m == M_INT:
            d["hamiltonian-stored-for-callbacks"] = same(f.get("_ham"), cx.ghost["ham0"])
        sc = [e for e in cx.events if e[0] == "setup_callback"]
        d["callbacks-set-up-once-with-(compute,int_stop)"] = len(sc) == 1 and sc[0][1] is a.compute and sc[0][2] is a.int_stop
        return d


# ======================================================================================================
# fdx provider: the REAL constructor on every combination of the finite table, tiny systems, independent oracle
# ======================================================================================================


def provider_support_table(tier):
    """finite-domain exhaustive: construct the real quimb.Evolution for every (d, method, state kind, Hamiltonian
    representation) and decide:  the constructor raises (its own ValueError/TypeError)  OR  (the installed update
    method's own precondition covers the combination  AND  one evolution step to t0 + dt agrees with
    scipy.linalg.expm(-i H dt) applied one-sided (ket) / two-sided (density operator))."""
    import warnings

    import numpy as np
    import scipy.linalg as sla
    import scipy.sparse as sp
    import scipy.sparse.linalg as spla

    from vf.framework import ObResult

    import quimb as qu
    from quimb.evo import Evolution

    out = []
    rng = np.random.default_rng(18)
    t0, dt = 0.3, 0.45
    for d in (2, 3):
        A = rng.normal(size=(d, d)) + 1j * rng.normal(size=(d, d))
        Hn = (A + A.conj().T) / 2
        psi = rng.normal(size=(d, 1)) + 1j * rng.normal(size=(d, 1))
        psi /= np.linalg.norm(psi)
        rho = 0.6 * psi @ psi.conj().T + 0.4 * np.eye(d) / d
        Uref = sla.expm(-1j * Hn * dt)
        evals, evecs = np.linalg.eigh(Hn)
        hams = {
            "dense": lambda: qu.qu(Hn), "sparse": lambda: qu.qu(Hn, sparse=True),
            "tuple": lambda: (evals.copy(), qu.qu(evecs)), "list": lambda: [evals.copy(), qu.qu(evecs)],
            "linop": lambda: spla.aslinearoperator(Hn), "timedep": lambda: (lambda t: qu.qu(Hn)),
        }
        for method in ("solve", "integrate", "expm", "bogus"):
            for state in STATES:
                for hk, mk in hams.items():
                    t_ = _time.time()
                    p0 = qu.qu(psi) if state == "ket" else qu.qu(rho)
                    ref = Uref @ psi if state == "ket" else Uref @ rho @ Uref.conj().T
                    oid = f"{F}::Evolution.__init__::support[d={d},method={method},state={state},ham={hk}]"
                    model, status = None, "discharged"
                    call = f"Evolution(p0=<{state} d={d}>, ham=<{hk}>, t0={t0}, method={method!r}); update_to({t0 + dt})"
                    with warnings.catch_warnings():
                        warnings.simplefilter("ignore")
                        try:
                            evo = Evolution(p0, mk(), t0=t0, method=method)
                        except (ValueError, TypeError) as e:
                            import traceback

                            tb = traceback.extract_tb(e.__traceback__)[-1]
                            own = tb.filename.endswith("quimb/evo.py") and tb.line.strip().startswith("raise")
                            outcome = f"raises {type(e).__name__}" + ("" if own else " (incidental)")
                            if not own or documented_support(method, state, hk, False):
                                status, model = "failed", dict(call=call, observed=outcome + ": " + str(e)[:160])
                            evo = None
                        except Exception as e:  # crash inside the constructor
                            status, model = "failed", dict(call=call, observed=f"constructor crashed: {type(e).__name__}: {str(e)[:160]}")
                            evo = None
                        if evo is not None:
                            um = evo._update_method.__name__
                            cov = covers(um, state, "pair" if hk in ("tuple", "list") else hk)
                            try:
                                evo.update_to(t0 + dt)
                                got = np.asarray(evo.pt)
                                err = float(np.abs(got.reshape(ref.shape) - ref).max())
                                tbad = abs(evo.t - (t0 + dt)) > 1e-12
                                tol = 1e-6 if um == M_INT else 1e-9
                                if not cov or err > tol or tbad:
                                    one_sided = float(np.abs(got.reshape(ref.shape) - Uref @ (psi if state == "ket" else rho)).max())
                                    status, model = "failed", dict(
                                        call=call, installed=um, own_precondition_covers=cov, max_abs_error_vs_expm=err,
                                        time_after=float(evo.t),
                                        note=("matches the ONE-SIDED product expm(-iH dt) @ rho to %.1e" % one_sided)
                                        if state == "dop" and one_sided < 1e-9 else None)
                            except Exception as e:
                                status, model = "failed", dict(call=call, installed=um, own_precondition_covers=cov,
                                                               observed=f"accepted by the constructor, then update_to crashed: "
                                                                        f"{type(e).__name__}: {str(e)[:160]}")
                    out.append(ObResult(oid, "fdx", status, "exhaustive", _time.time() - t_, function=f"{F}::Evolution.__init__",
                                        model=model, engine="fdx"))
    # the dispatch table of evolution equations, executed on its complete domain
    from quimb import evo as evomod

    for a in (0, 1):
        for b in (0, 1):
            for c in (0, 1):
                for dd in (0, 1):
                    t_ = _time.time()
                    oid = f"{F}::_calc_evo_eq::table[isdop={a},sparse={b},open={c},timedep={dd}]"
                    undefined = bool(c and (not a or dd))
                    try:
                        fn = evomod._calc_evo_eq(a, b, c, dd)
                        ok = (not undefined) and EQ_SEM.get(fn.__name__) == ("dop" if a else "ket", bool(c), bool(dd))
                        model = None if ok else dict(call=f"_calc_evo_eq({a},{b},{c},{dd})", observed=fn.__name__)
                    except KeyError:
                        ok = undefined
                        model = None if ok else dict(call=f"_calc_evo_eq({a},{b},{c},{dd})", observed="KeyError")
                    out.append(ObResult(oid, "fdx", "discharged" if ok else "failed", "exhaustive", _time.time() - t_,
                                        function=f"{F}::_calc_evo_eq", model=model, engine="fdx"))
    return out
