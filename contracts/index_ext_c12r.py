from contracts.index import entry_extend

entry_extend(
    "C12", modules=["contracts.c12_rot"],
    PROVIDERS=["contracts.c12_rot.provider_rotators"],
    TRUSTED=["Rotator2D / Rotator3D: python class / property semantics, functools.cached_property caches per instance; the "
             "recording lattice distinguishes its axes by pairwise different ranges, tag functions and predicates "
             "(parametricity: the rotators only pass these through)"],
    ASSUMPTIONS=["rotators: complete discrete domain = every side x ranges given | None x each range ascending | descending x "
                 "every periodicity pattern (x stepsize 1 | 2 in 2D); the integer values of the ranges are representatives "
                 "(the body only sorts them and adds / halves them)"],
    BOUNDED_FOR={"Rotator2D": ["contract_boundary (2D)", "contract_boundary_from_{xmin,xmax,ymin,ymax}"],
                 "Rotator3D": ["contract_boundary (3D)"]},
    EXPLANATION="fdx (contracts/c12_rot.py): the rotated view every boundary core works in is one consistent relabelling of the "
                "lattice axes from every side: ranges, row / column / site tags, periodicity predicates (asked of the same "
                "lattice axis, at the right coordinates) and wrap-around steps all refer to the same axis bijection, the "
                "swept axis is the one named by from_which, the sweep starts at the named side.")
