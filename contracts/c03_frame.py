"""C03 -- E4 frame (effect) analysis: "the plain spelling never mutates its receiver".

A modular effect analysis over the ``ast`` of the REAL classes / functions of ``quimb/tensor`` (re-read from the source
tree on every run; ``VERIF_REPO`` overrides ``/repo``) plus a reflection pass (``inspect`` over the live classes' MRO)
for the pairing of the ``name`` / ``name_`` spellings.  Nothing here copies or paraphrases a function body.

Abstract domain (per local name, flow sensitive, joined at merges)::

    OTHER            not the receiver (fresh object, copy, unrelated value)
    SAFE{q,...}      the original receiver object only if one of the listed conditions holds (q = a boolean flag
                     parameter such as ``inplace``; also ``x is not None`` style atoms), otherwise a copy -- this is
                     what ``X = self if inplace else self.copy()`` evaluates to
    ORIG             (possibly) the original receiver whatever the flag
    depth 0/1/2/3    the object itself / a part reached directly through attributes, subscripts, iteration (shares
                     storage) / a value that came out of a fresh container or a call and may be a part / a fresh
                     container, view or helper object holding parts

plus path facts (``if inplace:``, ``if not inplace: return``, ``while``, and/or/not, ``x is None``).  A *mutation event*
is an attribute / subscript / augmented assignment, ``del``, ``setattr``, a container mutator call on a part, or a call
whose callee summary says it modifies the parameter the value is bound to (receiver, positional, keyword, through a
bound-method reference, a lambda, a closure, a class-qualified call, ``super()``, a module-level dispatch table).
For every (function, parameter) reached, a summary {pure-on-receiver, modifies-receiver, modifies-receiver-iff-<flag>}
(+ the same restricted to writes that reach parts, + the abstract return value, per tuple position) is DERIVED by
fixpoint over the call graph; the declared leaf summaries of the design are joined in, and that each declared leaf is
also derived as a mutator is itself an obligation (``::leaf-summary-consistent``, O4).

Obligations
  * one per function with an ``inplace`` parameter, ``file::Class.method::frame-<rule>`` with rule in {idiom,
    delegates, guarded, constructs-new, neither}: no certain mutation event on a value that may be the original when
    ``inplace`` is false (O1 the idiom / a delegation ``inplace=inplace`` / a test implying the flag dominates every
    mutating use; O2 nothing writes to the original name, its aliases, parts or views afterwards; O4 every call site
    agrees with the callee's summary).  failed => ``model`` = the offending statement (file, line, source).
    unknown => pattern not recognised / flag value not decidable -- never a violation.
  * ``file::alias-pairing[Class.name_]`` (O3, reflection): ``name_`` is a partialmethod(f, inplace=True) of exactly the
    function (and presets) the SAME class resolves ``name`` to.
  * ``quimb/tensor::inplace-census``: counts per rule, fixpoint rounds, number of summaries / call sites, and the list
    of everything that was assumed pure because it could not be resolved.
"""
from __future__ import annotations

import ast
import json
import os
import re
import subprocess
import sys
import time
import warnings

try:
    from vf.framework import ObResult
except Exception:  # pragma: no cover  (reflection subprocess does not need it)
    ObResult = None

PKG = "quimb/tensor"
ANCHORED = ("quimb/tensor/tensor_core.py", "quimb/tensor/tn1d/core.py", "quimb/tensor/tn2d/core.py",
            "quimb/tensor/tn3d/core.py", "quimb/tensor/tnag/core.py")

OTHER, SAFE, ORIG = 0, 1, 2
FLAG_RE = re.compile(r"^(inplace(_\w+)?|virtual)$")

# ---------------------------------------------------------------------------------------------- declared leaves
# effect of the method on ITS receiver (join-ed with the derived summary; consistency is obligation O4).
DECLARED_MODIFIES = {
    "modify", "_set_data", "add_tensor", "pop_tensor", "_pop_tensor", "add_tag", "drop_tags", "retag_", "reindex_",
    "set_params", "apply_to_arrays", "add", "delete", "add_tensor_network", "_add_tid", "_remove_tid",
    "__setitem__", "__delitem__", "multiply_", "__iand__", "__ior__", "__ixor__", "__imul__", "__itruediv__",
    "__iadd__", "__isub__", "_link_tags", "_unlink_tags", "_link_inds", "_unlink_inds", "_link_tags_inds",
    "_apply_function", "apply_to_arrays_",
}
# trusted: returns an object that shares no state through which the receiver can be observed to change
DECLARED_FRESH = {"copy", "deepcopy", "__copy__", "__deepcopy__"}
# declared: weak back-references from a tensor to the networks that hold it -- registry only, not observable state
UNOBSERVABLE_FIELDS = {"_owners"}
# declared: return a *view* -- a new network / tuple holding the receiver's own tensor objects -- unless called with
# virtual=False (joined with the derived return value)
DECLARED_VIEWS = {"select", "select_any", "select_all", "select_tensors", "select_neighbors", "select_local",
                  "_select_tids", "_select_without_tids", "_select_local_tids", "tensors", "arrays"}
# declared typing fact: these attributes hold immutable values (float / int / str / tuple): aliasing them is harmless
IMMUTABLE_ATTRS = {"exponent", "inds", "shape", "dtype", "ndim", "size", "nsites", "num_tensors", "num_indices", "L",
                   "Lx", "Ly", "Lz", "cyclic", "site_ind_id", "site_tag_id", "upper_ind_id", "lower_ind_id",
                   "_site_ind_id", "_site_tag_id", "_upper_ind_id", "_lower_ind_id", "left_inds", "backend",
                   "x_tag_id", "y_tag_id", "z_tag_id", "_NDIMS", "__class__", "__name__"}
SHARED_CONTAINER_FIELDS = {"tensor_map", "tensors", "ind_map", "tag_map"}
CONTAINER_MUTATORS = {"append", "add", "pop", "update", "clear", "discard", "remove", "setdefault", "extend", "insert",
                      "popitem", "sort", "reverse", "fill", "appendleft", "popleft", "popright", "difference_update",
                      "intersection_update", "symmetric_difference_update", "move_to_end", "resize", "itemset",
                      "setflags", "put"}
CONTAINER_ADDERS = {"append", "add", "extend", "insert", "update", "setdefault", "appendleft"}
ACCESSORS = {"values", "items", "keys", "get", "pop", "popitem", "popleft", "popright", "setdefault", "__getitem__",
             "__iter__"}
PASS_THROUGH = {"list", "tuple", "set", "frozenset", "oset", "dict", "sorted", "reversed", "enumerate", "zip", "iter",
                "next", "filter", "map", "chain", "concat", "unique", "OrderedDict", "defaultdict", "deque"}
PASS_ELEMENT = {"next", "max", "min", "first", "getattr"}  # return an element / attribute of their argument


class Val:
    __slots__ = ("lvl", "flags", "depth")

    def __init__(self, lvl=OTHER, flags=frozenset(), depth=0):
        self.lvl, self.flags, self.depth = lvl, (flags if lvl == SAFE else frozenset()), (depth if lvl else 0)

    def key(self):
        return (self.lvl, tuple(sorted(self.flags)), self.depth)

    def __eq__(self, o):
        return self.key() == o.key()

    def __hash__(self):
        return hash(self.key())

    def part(self, d=1):
        if self.lvl == OTHER:
            return self
        return Val(self.lvl, self.flags, d)

    def elem(self):
        """an element / attribute of this value"""
        if self.lvl == OTHER:
            return self
        return Val(self.lvl, self.flags, 1 if self.depth <= 1 else 2)

    def __repr__(self):
        return {OTHER: "OTHER", SAFE: "SAFE{%s}" % ",".join(sorted(self.flags)), ORIG: "ORIG"}[self.lvl] + \
            ("" if not self.lvl else "/d%d" % self.depth)


OTHERV = Val()


def join(a, b):
    if a.lvl == OTHER:
        return b
    if b.lvl == OTHER:
        return a
    if a.lvl != b.lvl:
        hi = a if a.lvl > b.lvl else b
        return Val(hi.lvl, hi.flags, min(a.depth, b.depth))
    return Val(a.lvl, a.flags | b.flags, min(a.depth, b.depth))


def joinall(vs):
    out = OTHERV
    for v in vs:
        out = join(out, v)
    return out


def lit(key, pol):
    return key if pol else "not (" + key + ")"


def lit_value(l, facts):
    if l.startswith("not ("):
        v = facts.get(l[5:-1])
        return None if v is None else (not v)
    return facts.get(l)


def refine(v, facts, disj):
    """value of a stored abstract value under the path facts (atom -> bool) / an active disjunction of literals"""
    if v.lvl == ORIG:
        tq = sorted(q for q, b in facts.items() if b and FLAG_RE.match(q))
        if tq:
            return Val(SAFE, frozenset(["inplace" if "inplace" in tq else tq[0]]), v.depth)
        if disj and any(FLAG_RE.match(l) for l in disj):
            rest = frozenset(l for l in disj if lit_value(l, facts) is not False)
            if rest and not any(lit_value(l, facts) is True and not FLAG_RE.match(l) for l in rest):
                return Val(SAFE, rest, v.depth)
        return v
    if v.lvl == SAFE:
        if any(lit_value(l, facts) is True and not FLAG_RE.match(l) for l in v.flags):
            return Val(ORIG, depth=v.depth)      # a non-flag alternative is known to hold: it is the original
        rest = frozenset(l for l in v.flags if lit_value(l, facts) is not False)
        if not rest:
            return OTHERV
        if rest != v.flags:
            return Val(SAFE, rest, v.depth)
    return v


class State:
    __slots__ = ("env", "facts", "kwf", "disj")

    def __init__(self, env=None, facts=None, kwf=None, disj=None):
        self.env, self.facts, self.kwf, self.disj = env or {}, facts or {}, kwf or {}, disj

    def copy(self):
        return State(dict(self.env), dict(self.facts), {k: dict(v) for k, v in self.kwf.items()}, self.disj)

    def normalised_env(self):
        """under a path fact q=True an ORIG value is 'the original only if q' by definition"""
        if not self.facts and not self.disj:
            return self.env
        return {k: refine(v, self.facts, self.disj) for k, v in self.env.items()}

    def invalidate(self, name):
        """`name` is rebound: conditions that mention it no longer describe the stored values"""
        rx = re.compile(r"\b%s\b" % re.escape(name))
        hit = [k for k in self.facts if rx.search(k)]
        if self.disj and any(rx.search(l) for l in self.disj):
            self.env = self.normalised_env()
            self.disj = None
        if hit:
            self.env = self.normalised_env()
            for k in hit:
                del self.facts[k]
        for k, v in list(self.env.items()):
            if v.lvl == SAFE and any(rx.search(l) for l in v.flags):
                self.env[k] = Val(ORIG, depth=v.depth)


def join_states(states):
    states = [s for s in states if s is not None]
    if not states:
        return None
    if len(states) == 1:
        return states[0]
    envs = [s.normalised_env() for s in states]
    keys = set().union(*[e.keys() for e in envs])
    env = {k: joinall(e.get(k, OTHERV) for e in envs) for k in keys}
    facts = dict(states[0].facts)
    for s in states[1:]:
        facts = {q: b for q, b in facts.items() if s.facts.get(q) is b}
    kwf = {}
    for s in states:
        for d, m in s.kwf.items():
            for k, fv in m.items():
                cur = kwf.setdefault(d, {})
                cur[k] = fv if k not in cur or cur[k] == fv else ("U",)
    return State(env, facts, kwf)


# ---------------------------------------------------------------------------------------------- program tables
class FuncInfo:
    def __init__(self, node, mod, cls, qual):
        self.node, self.mod, self.cls, self.qual, self.name = node, mod, cls, qual, node.name
        a = node.args
        self.params = [x.arg for x in a.posonlyargs + a.args]
        self.vararg = a.vararg.arg if a.vararg else None
        self.kwonly = [x.arg for x in a.kwonlyargs]
        self.kwarg = a.kwarg.arg if a.kwarg else None
        pos = a.posonlyargs + a.args
        self.defaults = dict(zip([x.arg for x in pos][len(pos) - len(a.defaults):], a.defaults))
        self.defaults.update({k.arg: v for k, v in zip(a.kwonlyargs, a.kw_defaults) if v is not None})
        decs = {ast.unparse(d).split("(")[0].split(".")[-1] for d in node.decorator_list}
        self.kind = "function" if cls is None else "method"
        if cls is not None and "classmethod" in decs:
            self.kind = "classmethod"
        elif cls is not None and "staticmethod" in decs:
            self.kind = "staticmethod"
        self.is_property = bool(decs & {"property", "cached_property", "setter"})
        self.allparams = self.params + self.kwonly
        self.flagparams = [p for p in self.allparams if FLAG_RE.match(p)]
        self.vflags = {}   # flags this function only forwards through its **kwargs: name -> default at the callee
        self.fid = f"{mod.rel}::{qual}"

    @property
    def recv_param(self):
        if self.kind == "method":
            return self.params[0] if self.params else None
        if self.kind == "classmethod":
            return self.params[1] if len(self.params) > 1 else None
        return self.params[0] if self.params else self.vararg


class ClassInfo:
    def __init__(self, node, mod):
        self.node, self.mod, self.name = node, mod, node.name
        self.bases = [ast.unparse(b).split(".")[-1] for b in node.bases]
        self.methods = {}   # name -> FuncInfo
        self.aliases = {}   # name -> (target expr source name, presets {kw: ast.expr})
        self.fid = f"{mod.rel}::{node.name}"


class ModuleInfo:
    def __init__(self, rel, src):
        self.rel, self.src, self.lines = rel, src, src.splitlines()
        with warnings.catch_warnings():
            warnings.simplefilter("ignore")
            self.tree = ast.parse(src)
        self.funcs, self.classes, self.imports, self.modaliases = {}, {}, {}, {}
        self.funcalias = {}   # module-level  name = functools.partial(f, ...)  ->  (f, presets)
        self.dispatch = {}    # module-level  NAME = {"key": function, ...}     ->  [function names]

    def line(self, n):
        return self.lines[n - 1].strip() if 0 < n <= len(self.lines) else ""


def _alias_of(value):
    """class-level ``x = f`` / ``x_ = functools.partialmethod(f, k=v)`` -> (target name, presets) or None"""
    if isinstance(value, ast.Name):
        return value.id, {}
    if isinstance(value, ast.Call) and ast.unparse(value.func) in ("functools.partialmethod", "partialmethod",
                                                                   "functools.partial", "partial") and value.args:
        tgt = value.args[0]
        if isinstance(tgt, ast.Name):
            return tgt.id, {k.arg: k.value for k in value.keywords if k.arg}
        if isinstance(tgt, ast.Attribute):
            return tgt.attr, {k.arg: k.value for k in value.keywords if k.arg}
    return None


class Program:
    def __init__(self, root):
        self.root = root
        self.mods = {}
        base = os.path.join(root, PKG)
        for dp, dn, fns in sorted(os.walk(base)):
            dn.sort()
            for fn in sorted(fns):
                if fn.endswith(".py"):
                    p = os.path.join(dp, fn)
                    rel = os.path.relpath(p, root)
                    with open(p) as f:
                        self.mods[rel] = ModuleInfo(rel, f.read())
        self.classes = {}     # name -> [ClassInfo]
        self.funcs_by_name = {}
        for m in self.mods.values():
            self._index(m)
        self.subclasses = {}
        for cs in self.classes.values():
            for c in cs:
                for b in c.bases:
                    self.subclasses.setdefault(b, []).append(c)
        self.methods_by_name = {}
        for cs in self.classes.values():
            for c in cs:
                for n in list(c.methods) + list(c.aliases):
                    self.methods_by_name.setdefault(n, []).append(c)
        self._mro = {}
        self._tl = {}

    # -- indexing
    def _index(self, m):
        def visit(node, cls, qual):
            for ch in ast.iter_child_nodes(node):
                if isinstance(ch, ast.ClassDef):
                    ci = ClassInfo(ch, m)
                    if cls is None and not qual:
                        m.classes[ch.name] = ci
                        self.classes.setdefault(ch.name, []).append(ci)
                    visit_class(ch, ci)
                elif isinstance(ch, (ast.FunctionDef, ast.AsyncFunctionDef)):
                    if cls is None and not qual:
                        fi = FuncInfo(ch, m, None, ch.name)
                        m.funcs[ch.name] = fi
                        self.funcs_by_name.setdefault(ch.name, []).append(fi)

        def visit_class(cnode, ci):
            for st in cnode.body:
                if isinstance(st, (ast.FunctionDef, ast.AsyncFunctionDef)):
                    fi = FuncInfo(st, m, ci, f"{ci.name}.{st.name}")
                    if st.name in ci.methods and fi.is_property:
                        continue  # property setter/deleter: keep the getter
                    ci.methods[st.name] = fi
                elif isinstance(st, ast.Assign) and len(st.targets) == 1 and isinstance(st.targets[0], ast.Name):
                    al = _alias_of(st.value)
                    if al:
                        ci.aliases[st.targets[0].id] = al

        visit(m.tree, None, [])
        pkgparts = m.rel.split("/")[:-1]
        for n in ast.walk(m.tree):
            if isinstance(n, ast.ImportFrom):
                if n.level:
                    baseparts = pkgparts[: len(pkgparts) - (n.level - 1)]
                    modparts = baseparts + (n.module.split(".") if n.module else [])
                elif n.module and n.module.startswith("quimb"):
                    modparts = n.module.split(".")
                else:
                    continue
                for a in n.names:
                    m.imports[a.asname or a.name] = ("/".join(modparts), a.name)
        for st in m.tree.body:
            if isinstance(st, ast.Assign) and len(st.targets) == 1 and isinstance(st.targets[0], ast.Name):
                if isinstance(st.value, ast.Dict):
                    m.dispatch[st.targets[0].id] = [v.id for v in st.value.values if isinstance(v, ast.Name)]
                elif isinstance(st.value, ast.Call):
                    al = _alias_of(st.value)
                    if al and not any(FLAG_RE.match(k) for k in al[1]):
                        m.funcalias[st.targets[0].id] = al
        # module-level attachments  Class.attr = f / functools.partialmethod(f, ...)
        for st in m.tree.body:
            if isinstance(st, ast.Assign) and len(st.targets) == 1 and isinstance(st.targets[0], ast.Attribute) and \
                    isinstance(st.targets[0].value, ast.Name) and st.targets[0].value.id in m.classes:
                al = _alias_of(st.value)
                if al:
                    m.classes[st.targets[0].value.id].aliases[st.targets[0].attr] = al

    # -- lookup
    def module_for(self, path):
        for cand in (path + ".py", path + "/__init__.py"):
            if cand in self.mods:
                return self.mods[cand]
        return None

    def lookup_name(self, mod, name, depth=0):
        """module-level name -> FuncInfo | ClassInfo | None (through quimb-internal imports and re-exports)"""
        if name in mod.funcs:
            return mod.funcs[name]
        if name in mod.classes:
            return mod.classes[name]
        if name in mod.funcalias and depth < 5 and mod.funcalias[name][0] != name:
            r = self.lookup_name(mod, mod.funcalias[name][0], depth + 1)
            if isinstance(r, FuncInfo):
                return r
        if name in mod.imports and depth < 5:
            path, orig = mod.imports[name]
            tm = self.module_for(path)
            if tm is not None:
                r = self.lookup_name(tm, orig, depth + 1)
                if r is not None:
                    return r
            sub = self.module_for(path + "/" + orig)
            if sub is not None:
                return sub
        if depth == 0:
            fs = self.funcs_by_name.get(name, [])
            if len(fs) == 1 and (name in mod.imports):
                return fs[0]
            cs = self.classes.get(name, [])
            if len(cs) == 1 and (name in mod.imports):
                return cs[0]
        return None

    def dispatch_targets(self, mod, expr):
        """functions a dispatch expression  TABLE[key] / TABLE.get(key, ...)  may evaluate to (module-level dict
        literal of functions), else None"""
        tab = None
        if isinstance(expr, ast.Subscript) and isinstance(expr.value, ast.Name):
            tab = expr.value.id
        elif isinstance(expr, ast.Call) and isinstance(expr.func, ast.Attribute) and expr.func.attr == "get" and \
                isinstance(expr.func.value, ast.Name):
            tab = expr.func.value.id
        if tab is None:
            return None
        m = mod
        if tab not in m.dispatch and tab in m.imports:
            m = self.module_for(m.imports[tab][0]) or mod
            tab = mod.imports[tab][1]
        if tab not in m.dispatch:
            return None
        out = []
        for n in m.dispatch[tab]:
            f = self.lookup_name(m, n)
            if isinstance(f, FuncInfo) and f not in out:
                out.append(f)
        return out

    def class_named(self, name, mod=None):
        if mod is not None:
            r = self.lookup_name(mod, name)
            if isinstance(r, ClassInfo):
                return r
        cs = self.classes.get(name, [])
        return cs[0] if len(cs) == 1 else None

    def mro(self, ci):
        if ci.fid in self._mro:
            return self._mro[ci.fid]
        self._mro[ci.fid] = [ci]  # cycle guard
        seqs = []
        bases = [b for b in (self.class_named(n, ci.mod) for n in ci.bases) if b is not None]
        for b in bases:
            seqs.append(list(self.mro(b)))
        seqs.append(list(bases))
        out = [ci]
        while any(seqs):
            seqs = [s for s in seqs if s]
            for s in seqs:
                h = s[0]
                if not any(h in t[1:] for t in seqs):
                    break
            else:
                h = seqs[0][0]  # inconsistent: fall back to DFS order
            out.append(h)
            seqs = [[x for x in s if x is not h] for s in seqs]
        self._mro[ci.fid] = out
        return out

    def all_subclasses(self, ci, acc=None):
        acc = acc if acc is not None else []
        for s in self.subclasses.get(ci.name, []):
            if s not in acc:
                acc.append(s)
                self.all_subclasses(s, acc)
        return acc

    def own(self, ci, name, presets=None, depth=0):
        """definition of `name` in the class body itself -> (FuncInfo, presets) | None"""
        presets = dict(presets or {})
        if name in ci.methods:
            return ci.methods[name], presets
        if name in ci.aliases and depth < 4:
            tgt, pre = ci.aliases[name]
            pre = {**pre, **presets}
            if tgt != name:
                r = self.resolve_in(ci, tgt, pre, depth + 1, own_first=True)
                if r:
                    return r
            f = self.lookup_name(ci.mod, tgt)
            if isinstance(f, FuncInfo):
                return f, pre
        return None

    def resolve_in(self, ci, name, presets=None, depth=0, own_first=False, skip_self=False):
        for c in self.mro(ci)[1 if skip_self else 0:]:
            r = self.own(c, name, presets, depth)
            if r:
                return r
        return None

    def candidates(self, ci, name, mode):
        """possible callees of  <instance of ci or a subclass>.name  -> list[(FuncInfo, presets)]"""
        out = []
        if mode == "super":
            r = self.resolve_in(ci, name, skip_self=True)
            return [r] if r else []
        r = self.resolve_in(ci, name)
        if r:
            out.append(r)
        if mode == "class":
            return out
        for s in self.all_subclasses(ci):
            o = self.own(s, name)
            if o and all(o[0] is not x[0] or o[1] != x[1] for x in out):
                out.append(o)
        return out

    def is_tensorlike(self, ci):
        """class in the Tensor / TensorNetwork families (the only quimb classes a part of a receiver can be)"""
        r = self._tl.get(ci.fid)
        if r is None:
            r = self._tl[ci.fid] = any(c.name in ("Tensor", "TensorNetwork") for c in self.mro(ci))
        return r

    def candidates_any(self, name, tensorlike=False):
        out = []
        for c in self.methods_by_name.get(name, []):
            if tensorlike and not self.is_tensorlike(c):
                continue
            o = self.own(c, name)
            if o and all(o[0] is not x[0] for x in out):
                out.append(o)
        return out


# ---------------------------------------------------------------------------------------------- summaries
class Summary:
    def __init__(self):
        self.lvl = OTHER          # OTHER = pure, SAFE = modifies iff flags, ORIG = modifies
        self.flags = frozenset()
        self.plvl = OTHER         # same, restricted to writes that reach *parts* of the parameter (depth >= 1):
        self.pflags = frozenset()  # what matters when the argument is a fresh holder (list / view / BP object) of parts
        self.ret = OTHERV
        self.ret_tuple = None     # per-position abstract values when every `return` is a tuple literal of one arity
        self.uncertain = False

    def key(self):
        return (self.lvl, tuple(sorted(self.flags)), self.plvl, tuple(sorted(self.pflags)), self.ret.key(),
                self.uncertain,
                tuple(v.key() for v in self.ret_tuple) if self.ret_tuple else None)

    def text(self):
        if self.lvl == OTHER:
            return "pure-on-receiver"
        if self.lvl == ORIG:
            return "modifies-receiver"
        return "modifies-receiver-iff-" + "|".join(sorted(self.flags))


class Event:
    __slots__ = ("kind", "line", "src", "lvl", "flags", "certain", "note", "file", "depth")

    def __init__(self, kind, line, src, val, certain, note, file):
        self.kind, self.line, self.src, self.lvl, self.flags = kind, line, src, val.lvl, val.flags
        self.depth = val.depth
        self.certain, self.note, self.file = certain, note, file

    def to_json(self):
        return dict(file=self.file, line=self.line, source=self.src, kind=self.kind, note=self.note)


class Analyzer:
    def __init__(self, prog):
        self.prog = prog
        self.summ = {}
        self.results = {}      # key -> Intra of the last round
        self.visiting = set()
        self.done = set()
        self.changed = False
        self.assumed_global = set()

    def summary(self, fi, param):
        key = (fi.fid, param)
        if key in self.done or key in self.visiting:
            return self.summ.get(key) or Summary()
        self.visiting.add(key)
        it = Intra(self, fi, param)
        try:
            it.run()
        finally:
            self.visiting.discard(key)
        s = it.summarise()
        old = self.summ.get(key)
        if old is None or old.key() != s.key():
            self.changed = True
        self.summ[key] = s
        self.results[key] = it
        self.done.add(key)
        return s

    def solve(self, roots, max_rounds=10):
        rounds = 0
        while True:
            rounds += 1
            self.changed = False
            self.done = set()
            for fi, p in roots:
                self.summary(fi, p)
            # keys reached in earlier rounds but not this one keep their value
            if not self.changed or rounds >= max_rounds:
                break
        return rounds


def _absent_attrs(test):
    """{(root, attr)} such that `test` being true implies root.attr is unset/None (memoisation guard)"""
    out = set()
    for n in ast.walk(test):
        if isinstance(n, ast.Compare) and len(n.ops) == 1 and isinstance(n.ops[0], ast.Is) and \
                isinstance(n.comparators[0], ast.Constant) and n.comparators[0].value is None:
            x = n.left
            if isinstance(x, ast.Attribute) and isinstance(x.value, ast.Name):
                out.add((x.value.id, x.attr))
            elif isinstance(x, ast.Call) and isinstance(x.func, ast.Name) and x.func.id == "getattr" and \
                    len(x.args) >= 2 and isinstance(x.args[0], ast.Name) and isinstance(x.args[1], ast.Constant):
                out.add((x.args[0].id, x.args[1].value))
        elif isinstance(n, ast.UnaryOp) and isinstance(n.op, ast.Not) and isinstance(n.operand, ast.Call) and \
                isinstance(n.operand.func, ast.Name) and n.operand.func.id == "hasattr" and \
                len(n.operand.args) == 2 and isinstance(n.operand.args[0], ast.Name) and \
                isinstance(n.operand.args[1], ast.Constant):
            out.add((n.operand.args[0].id, n.operand.args[1].value))
    return out


def _unobservable(node):
    """the access path goes through a declared bookkeeping field (Tensor._owners)"""
    while True:
        if isinstance(node, ast.Attribute):
            if node.attr in UNOBSERVABLE_FIELDS:
                return True
            node = node.value
        elif isinstance(node, ast.Subscript):
            node = node.value
        elif isinstance(node, ast.Call):
            node = node.func
        else:
            return False


def _declared_effect(name):
    return name in DECLARED_MODIFIES


class Intra:
    """one pass of the intraprocedural abstract interpreter for (function, tracked parameter)"""

    def __init__(self, az, fi, param):
        self.az, self.prog, self.fi, self.P = az, az.prog, fi, param
        self.mod = fi.mod
        self.events = []
        self._evkeys = set()
        self.ret = OTHERV
        self.ret_tuple = "unset"
        self.tuples = {}        # id(call node) -> per-position values of a tuple-returning callee
        self.assumed = set()
        self.delegations = []   # (line, callee text, verified?)
        self.idioms = []        # lines of copy idioms on P
        self.callsites = 0
        self.flags = set(fi.flagparams)
        self.dirty = set()
        self.loopstack = []
        self.selfname = fi.params[0] if fi.kind in ("method", "classmethod") and fi.params else None
        self.localfuncs = {}
        self._init_exits = []
        self.fnvars = {}        # local name -> [FuncInfo] it may hold (taken from a module-level dispatch table)
        self.vartype = {}       # local name -> ClassInfo it was constructed as (name = ClassName(...))
        self.memo = []          # stack of {(root name, attribute)} tested for absence by an enclosing `if`

    # -- driver
    def run(self):
        d = 3 if self.P == self.fi.vararg else 0
        st = State({self.P: Val(ORIG, depth=d)})
        end = self.block(self.fi.node.body, st)
        if self.fi.name == "__init__" and self.selfname and self.P != self.selfname:
            # a constructor call evaluates to the object under construction: whatever was stored into it
            for s_ in [end] + self._init_exits:
                if s_ is not None:
                    self.ret = join(self.ret, refine(s_.env.get(self.selfname, OTHERV), s_.facts, s_.disj))
            self.ret_tuple = None

    def summarise(self):
        s = Summary()
        for e in self.events:
            if not e.certain:
                if e.lvl == ORIG:
                    s.uncertain = True
                continue
            if e.lvl == ORIG:
                s.lvl = ORIG
            elif e.lvl == SAFE and s.lvl != ORIG:
                s.lvl = SAFE
                s.flags = s.flags | e.flags
            if e.depth >= 1:
                if e.lvl == ORIG:
                    s.plvl = ORIG
                elif e.lvl == SAFE and s.plvl != ORIG:
                    s.plvl = SAFE
                    s.pflags = s.pflags | e.flags
        allowed = set(self.fi.flagparams) | set(self.fi.vflags)
        if s.lvl == SAFE and not (s.flags <= allowed):
            s.lvl, s.flags = ORIG, frozenset()
        if s.plvl == SAFE and not (s.pflags <= allowed):
            s.plvl, s.pflags = ORIG, frozenset()
        if s.lvl == ORIG:
            s.flags = frozenset()
        if s.plvl == ORIG:
            s.pflags = frozenset()
        s.ret = self.ret
        s.ret_tuple = tuple(self.ret_tuple) if isinstance(self.ret_tuple, list) else None
        if self.fi.name in DECLARED_FRESH:
            s.ret, s.ret_tuple = OTHERV, None
        if _declared_effect(self.fi.name) and self.P == self.fi.recv_param:
            s.lvl, s.flags = ORIG, frozenset()
            if self.fi.name in ("modify", "_set_data", "set_params", "apply_to_arrays", "_apply_function"):
                s.plvl, s.pflags = ORIG, frozenset()
        return s

    def event(self, kind, node, val, certain=True, note=""):
        if val.lvl == OTHER or val.depth == 3:
            return
        if val.depth == 2 and kind in ("container-mutation", "subscript-assignment", "del", "augmented-assignment"):
            return   # value that travelled through a fresh container: only resolved mutator methods count
        ln = getattr(node, "lineno", 0)
        k = (kind, ln, val.lvl, val.flags, certain, note)
        if k in self._evkeys:
            return
        self._evkeys.add(k)
        self.events.append(Event(kind, ln, self.mod.line(ln), val, certain, note, self.mod.rel))

    # -- flags
    def eval_flag(self, e, st):
        if isinstance(e, ast.Constant) and isinstance(e.value, bool):
            return ("T",) if e.value else ("F",)
        if isinstance(e, ast.Name) and e.id in self.flags and e.id not in self.dirty:
            if e.id in st.facts:
                return ("T",) if st.facts[e.id] else ("F",)
            return ("P", e.id)
        if isinstance(e, ast.UnaryOp) and isinstance(e.op, ast.Not):
            v = self.eval_flag(e.operand, st)
            if v[0] == "P":
                return ("N", v[1])      # the negation of the caller's own flag
            if v[0] == "N":
                return ("P", v[1])
            return {"T": ("F",), "F": ("T",)}.get(v[0], ("U",))
        return ("U",)

    def _atom(self, t):
        """(key, polarity) of an atomic test we track, else None"""
        if isinstance(t, ast.Name):
            if t.id in self.flags:
                return None if t.id in self.dirty else (t.id, True)
            if t.id in self.fi.allparams:
                return (t.id, True)
        if isinstance(t, ast.Compare) and len(t.ops) == 1 and isinstance(t.ops[0], (ast.Is, ast.IsNot)) and \
                isinstance(t.left, ast.Name) and isinstance(t.comparators[0], ast.Constant) and \
                t.comparators[0].value is None and t.left.id not in self.flags:
            return (t.left.id + " is None", isinstance(t.ops[0], ast.Is))
        return None

    def cond(self, t):
        """-> (tconj, fconj, tdisj, fdisj): facts implied by the test being true / false, as a conjunction
        (dict atom->bool) and as a disjunction (set of literals, None = nothing known)"""
        a = self._atom(t)
        if a is not None:
            k, pol = a
            return {k: pol}, {k: not pol}, frozenset([lit(k, pol)]), frozenset([lit(k, not pol)])
        if isinstance(t, ast.UnaryOp) and isinstance(t.op, ast.Not):
            tc, fc, td, fd = self.cond(t.operand)
            return fc, tc, fd, td
        if isinstance(t, ast.BoolOp):
            parts = [self.cond(v) for v in t.values]
            if isinstance(t.op, ast.And):
                tc = {}
                for p in parts:
                    tc.update(p[0])
                fd = frozenset().union(*[p[3] for p in parts]) if all(p[3] is not None for p in parts) else None
                return tc, {}, None, fd
            fc = {}
            for p in parts:
                fc.update(p[1])
            td = frozenset().union(*[p[2] for p in parts]) if all(p[2] is not None for p in parts) else None
            return {}, fc, td, None
        return {}, {}, None, None

    def cond_facts(self, t):
        tc, fc, td, fd = self.cond(t)
        return (tc, td), (fc, fd)

    def with_facts(self, st, cf):
        facts, disj = cf
        s = st.copy()
        for q, b in facts.items():
            if q in s.facts and s.facts[q] is not b:
                return None  # infeasible
            s.facts[q] = b
        if disj is not None and len(disj) > 1 and not facts:
            s.env = s.normalised_env()
            s.disj = disj
        return s

    # -- statements
    def block(self, stmts, st):
        for s in stmts:
            if st is None:
                return None
            st = self.stmt(s, st)
        return st

    def stmt(self, s, st):
        m = getattr(self, "s_" + type(s).__name__, None)
        if m is None:
            for ch in ast.iter_child_nodes(s):
                if isinstance(ch, ast.expr):
                    self.ev(ch, st)
            return st
        return m(s, st)

    def s_Expr(self, s, st):
        self.ev(s.value, st)
        return st

    def s_Pass(self, s, st):
        return st

    def s_Return(self, s, st):
        if s.value is None and self.fi.name == "__init__":
            self._init_exits.append(st)
        if s.value is not None:
            self.ret = join(self.ret, self.ev(s.value, st))
            if isinstance(s.value, ast.Tuple) and not any(isinstance(x, ast.Starred) for x in s.value.elts):
                vs = [self.ev(x, st, quiet=True) for x in s.value.elts]
                if self.ret_tuple == "unset":
                    self.ret_tuple = vs
                elif self.ret_tuple is not None and len(self.ret_tuple) == len(vs):
                    self.ret_tuple = [join(a, b) for a, b in zip(self.ret_tuple, vs)]
                else:
                    self.ret_tuple = None
            elif isinstance(s.value, ast.Call) and id(s.value) in self.tuples:
                vs = self.tuples[id(s.value)]
                if self.ret_tuple == "unset":
                    self.ret_tuple = list(vs)
                elif self.ret_tuple is not None and len(self.ret_tuple) == len(vs):
                    self.ret_tuple = [join(a, b) for a, b in zip(self.ret_tuple, vs)]
                else:
                    self.ret_tuple = None
            else:
                self.ret_tuple = None
        return None

    def s_Raise(self, s, st):
        if s.exc is not None:
            self.ev(s.exc, st)
        return None

    def s_Continue(self, s, st):
        if self.loopstack:
            self.loopstack[-1]["cont"].append(st)
        return None

    def s_Break(self, s, st):
        if self.loopstack:
            self.loopstack[-1]["brk"].append(st)
        return None

    def s_Assign(self, s, st):
        if len(s.targets) == 1 and isinstance(s.targets[0], ast.Name):
            fs = self.prog.dispatch_targets(self.mod, s.value)
            if fs is not None:
                self.fnvars[s.targets[0].id] = fs
            else:
                self.fnvars.pop(s.targets[0].id, None)
            self.vartype.pop(s.targets[0].id, None)
            if isinstance(s.value, ast.Call):
                fn = s.value.func
                tgt = None
                if isinstance(fn, ast.Name) and fn.id not in st.env:
                    tgt = self.prog.lookup_name(self.mod, fn.id)
                elif isinstance(fn, ast.Attribute) and isinstance(fn.value, ast.Name) and fn.value.id not in st.env:
                    mm = self.prog.lookup_name(self.mod, fn.value.id)
                    if isinstance(mm, ModuleInfo):
                        tgt = self.prog.lookup_name(mm, fn.attr)
                if isinstance(tgt, ClassInfo):
                    self.vartype[s.targets[0].id] = tgt
        v = self.ev(s.value, st)
        for t in s.targets:
            self.bind(t, v, st, s.value, s)
        return st

    def s_AnnAssign(self, s, st):
        if s.value is not None:
            v = self.ev(s.value, st)
            self.bind(s.target, v, st, s.value, s)
        return st

    def s_AugAssign(self, s, st):
        self.ev(s.value, st)
        t = s.target
        if isinstance(t, ast.Name):
            v = self.name_val(t.id, st)
            if t.id in self.flags:
                self.dirty.add(t.id)
            if v.lvl != OTHER and v.depth == 0:
                self.event("augmented-assignment", s, v, note=f"in-place operator on `{t.id}`")
            elif v.lvl == ORIG and v.depth == 1:
                self.assumed.add(f"augmented assignment to `{t.id}` (a part of the receiver) rebinds, does not write "
                                 f"in place")
        else:
            root = self.ev(t.value, st)
            self.event("augmented-assignment", s, root, note=f"target `{ast.unparse(t)}`")
        return st

    def s_Delete(self, s, st):
        for t in s.targets:
            if isinstance(t, ast.Name):
                st.env.pop(t.id, None)
            elif isinstance(t, (ast.Attribute, ast.Subscript)):
                root = self.ev(t.value, st)
                if not _unobservable(t):
                    self.event("del", s, root, note=f"del `{ast.unparse(t)}`")
        return st

    def s_If(self, s, st):
        self.ev(s.test, st)
        tf, ff = self.cond_facts(s.test)
        a = self.with_facts(st, tf)
        b = self.with_facts(st, ff)
        pre = dict(st.env)
        self.memo.append(_absent_attrs(s.test))
        a = self.block(s.body, a) if a is not None else None
        self.memo.pop()
        b = self.block(s.orelse, b) if b is not None else None
        # statement-level copy idiom:  if not inplace: P = P.copy()   (census only)
        for facts, body, post in ((tf[0], s.body, a), (ff[0], s.orelse, b)):
            if post is not None and facts and any(FLAG_RE.match(q) and not v for q, v in facts.items()):
                for x in body:
                    if isinstance(x, ast.Assign) and isinstance(x.targets[0], ast.Name) and \
                            pre.get(x.targets[0].id, OTHERV).lvl == ORIG and \
                            post.env.get(x.targets[0].id, OTHERV).lvl == OTHER and ".copy(" in ast.unparse(x.value):
                        self.idioms.append(x.lineno)
        return join_states([a, b])

    def _loop(self, body, orelse, st, setup):
        frame = {"cont": [], "brk": []}
        self.loopstack.append(frame)
        cur = st
        out_body = None
        for _ in range(2):
            s0 = cur.copy()
            setup(s0)
            out_body = self.block(body, s0)
            cur2 = join_states([cur, out_body] + frame["cont"])
            frame["cont"] = []
            if cur2 is None:
                break
            cur = cur2
        self.loopstack.pop()
        ex = cur
        if orelse and ex is not None:
            ex = self.block(orelse, ex.copy())
        return join_states([ex] + frame["brk"])

    def s_For(self, s, st):
        it = self.ev(s.iter, st)

        def setup(s0):
            self.bind(s.target, self.element(it), s0, None, s)
        return self._loop(s.body, s.orelse, st, setup)

    s_AsyncFor = s_For

    def s_While(self, s, st):
        tf, ff = self.cond_facts(s.test)

        def setup(s0):
            self.ev(s.test, s0)
            for q, b in tf[0].items():
                if q not in s0.facts:
                    s0.facts[q] = b
        out = self._loop(s.body, s.orelse, st, setup)
        return out

    def s_With(self, s, st):
        for it in s.items:
            v = self.ev(it.context_expr, st)
            if it.optional_vars is not None:
                self.bind(it.optional_vars, v, st, None, s)
        return self.block(s.body, st)

    s_AsyncWith = s_With

    def s_Try(self, s, st):
        pre = st.copy()
        a = self.block(s.body, st)
        outs = []
        for h in s.handlers:
            hs = join_states([pre.copy(), a.copy() if a is not None else None])
            if h.name:
                hs.env[h.name] = OTHERV
            outs.append(self.block(h.body, hs))
        if a is not None and s.orelse:
            a = self.block(s.orelse, a)
        out = join_states([a] + outs)
        if s.finalbody:
            fin = out if out is not None else pre.copy()
            r = self.block(s.finalbody, fin)
            return r if out is not None else None
        return out

    s_TryStar = s_Try

    def s_FunctionDef(self, s, st):
        # closure: analysed at its definition point with the captured environment (as if called)
        inner = st.copy()
        for a in s.args.posonlyargs + s.args.args + s.args.kwonlyargs:
            inner.env[a.arg] = OTHERV
        if s.args.vararg:
            inner.env[s.args.vararg.arg] = OTHERV
        if s.args.kwarg:
            inner.env[s.args.kwarg.arg] = OTHERV
        saved_ret, saved_loops, saved_rt = self.ret, self.loopstack, self.ret_tuple
        self.loopstack = []
        self.ret = OTHERV
        self.block(s.body, inner)
        self.localfuncs[s.name] = self.ret
        self.ret, self.loopstack, self.ret_tuple = saved_ret, saved_loops, saved_rt
        st.env[s.name] = OTHERV
        return st

    s_AsyncFunctionDef = s_FunctionDef

    def s_ClassDef(self, s, st):
        return st

    def s_Assert(self, s, st):
        self.ev(s.test, st)
        return st

    def s_Import(self, s, st):
        return st

    s_ImportFrom = s_Global = s_Nonlocal = s_Import

    def s_Match(self, s, st):
        self.ev(s.subject, st)
        outs = []
        for c in s.cases:
            outs.append(self.block(c.body, st.copy()))
        return join_states(outs + [st])

    # -- binding
    def element(self, v):
        return v.elem()

    def bind(self, t, v, st, valnode, stmt):
        if isinstance(t, ast.Name):
            if t.id in self.flags:
                self.dirty.add(t.id)
            st.invalidate(t.id)
            st.env[t.id] = v
            # option dictionaries carrying a flag
            if valnode is not None:
                if isinstance(valnode, ast.Dict):
                    st.kwf[t.id] = {k.value: self.eval_flag(x, st) for k, x in zip(valnode.keys, valnode.values)
                                    if isinstance(k, ast.Constant) and isinstance(k.value, str)
                                    and FLAG_RE.match(k.value)}
                    st.kwf[t.id]["__local__"] = ("T",)
                elif isinstance(valnode, ast.Call) and isinstance(valnode.func, ast.Name) and \
                        valnode.func.id == "dict":
                    st.kwf[t.id] = {k.arg: self.eval_flag(k.value, st) for k in valnode.keywords
                                    if k.arg and FLAG_RE.match(k.arg)}
                    if not any(k.arg is None for k in valnode.keywords) and not valnode.args:
                        st.kwf[t.id]["__local__"] = ("T",)
                else:
                    st.kwf.pop(t.id, None)
        elif isinstance(t, (ast.Tuple, ast.List)):
            if isinstance(valnode, (ast.Tuple, ast.List)) and len(valnode.elts) == len(t.elts) and \
                    not any(isinstance(e, ast.Starred) for e in list(t.elts) + list(valnode.elts)):
                for te, ve in zip(t.elts, valnode.elts):
                    self.bind(te, self.ev(ve, st, quiet=True), st, ve, stmt)
            elif valnode is not None and id(valnode) in self.tuples and \
                    len(self.tuples[id(valnode)]) == len(t.elts) and \
                    not any(isinstance(x, ast.Starred) for x in t.elts):
                for te, ve in zip(t.elts, self.tuples[id(valnode)]):
                    self.bind(te, ve, st, None, stmt)
            else:
                for te in t.elts:
                    self.bind(te, self.element(v), st, None, stmt)
        elif isinstance(t, ast.Starred):
            self.bind(t.value, v, st, None, stmt)
        elif isinstance(t, ast.Attribute):
            root = self.ev(t.value, st)
            if isinstance(t.value, ast.Name) and any((t.value.id, t.attr) in ms for ms in self.memo):
                # write-once initialisation of a lazily computed attribute, under a test that it is unset
                if root.lvl == ORIG:
                    self.assumed.add(f"lazy cache initialisation `{ast.unparse(t)}` (under a test that it is unset) is "
                                     f"not an observable modification")
                return
            if not _unobservable(t):
                self.event("attribute-assignment", stmt, root, note=f"target `{ast.unparse(t)}`")
            if isinstance(t.value, ast.Name) and v.lvl and root.lvl == OTHER:
                st.env[t.value.id] = join(st.env.get(t.value.id, OTHERV), v.part(3))
        elif isinstance(t, ast.Subscript):
            root = self.ev(t.value, st)
            self.ev(t.slice, st)
            if _unobservable(t):
                return
            if isinstance(t.value, ast.Name) and isinstance(t.slice, ast.Constant) and \
                    isinstance(t.slice.value, str) and FLAG_RE.match(t.slice.value) and valnode is not None:
                st.kwf.setdefault(t.value.id, {})[t.slice.value] = self.eval_flag(valnode, st)
            self.event("subscript-assignment", stmt, root, note=f"target `{ast.unparse(t)}`")
            # storing the receiver into a local container: the container now holds it
            if isinstance(t.value, ast.Name) and v.lvl and root.lvl == OTHER:
                st.env[t.value.id] = join(st.env.get(t.value.id, OTHERV), v.part(3))

    # -- expressions
    def name_val(self, id, st):
        return refine(st.env.get(id, OTHERV), st.facts, st.disj)

    def ev(self, e, st, quiet=False):
        if quiet:
            saved, savedk = len(self.events), set(self._evkeys)
            v = self.ev(e, st)
            del self.events[saved:]
            self._evkeys = savedk
            return v
        m = getattr(self, "e_" + type(e).__name__, None)
        if m is None:
            vs = [self.ev(ch, st) for ch in ast.iter_child_nodes(e) if isinstance(ch, ast.expr)]
            return OTHERV
        return m(e, st)

    def e_Name(self, e, st):
        return self.name_val(e.id, st)

    def e_Constant(self, e, st):
        return OTHERV

    def e_Attribute(self, e, st):
        v = self.ev(e.value, st)
        if e.attr in IMMUTABLE_ATTRS:
            return OTHERV
        return self.element(v)

    def e_Subscript(self, e, st):
        v = self.ev(e.value, st)
        self.ev(e.slice, st)
        return self.element(v)

    def e_Starred(self, e, st):
        return self.ev(e.value, st)

    def e_IfExp(self, e, st):
        self.ev(e.test, st)
        tf, ff = self.cond_facts(e.test)
        sa, sb = self.with_facts(st, tf), self.with_facts(st, ff)
        va = self.ev(e.body, sa) if sa is not None else OTHERV
        vb = self.ev(e.orelse, sb) if sb is not None else OTHERV
        # recognised copy idiom on the tracked parameter (census only; soundness comes from the values)
        if (tf[0] or ff[0] or tf[1] or ff[1]) and \
                ({va.lvl, vb.lvl} == {SAFE, OTHER} or (va.lvl == OTHER and vb.lvl == OTHER)):
            txt = ast.unparse(e)
            if ".copy(" in txt:
                self.idioms.append(e.lineno)
        return join(va, vb)

    def e_BoolOp(self, e, st):
        return joinall([self.ev(v, st) for v in e.values])

    def e_BinOp(self, e, st):
        a, b = self.ev(e.left, st), self.ev(e.right, st)
        if isinstance(e.op, ast.BitOr):   # TN | TN is a *virtual* combination: the tensors are shared
            return self.element(join(a, b))
        return OTHERV

    def e_UnaryOp(self, e, st):
        self.ev(e.operand, st)
        return OTHERV

    def e_Compare(self, e, st):
        self.ev(e.left, st)
        for c in e.comparators:
            self.ev(c, st)
        return OTHERV

    def _container(self, elts, st):
        v = joinall([self.ev(x, st) for x in elts if x is not None])
        return v.part(3) if v.lvl else v

    def e_Tuple(self, e, st):
        return self._container(e.elts, st)

    e_List = e_Set = e_Tuple

    def e_Dict(self, e, st):
        return self._container(list(e.keys) + list(e.values), st)

    def e_JoinedStr(self, e, st):
        for v in e.values:
            self.ev(v, st)
        return OTHERV

    def e_FormattedValue(self, e, st):
        self.ev(e.value, st)
        return OTHERV

    def e_NamedExpr(self, e, st):
        v = self.ev(e.value, st)
        self.bind(e.target, v, st, e.value, e)
        return v

    def e_Lambda(self, e, st):
        inner = st.copy()
        for a in e.args.posonlyargs + e.args.args + e.args.kwonlyargs:
            inner.env[a.arg] = OTHERV
        self.ev(e.body, inner)
        return OTHERV

    def e_Await(self, e, st):
        return self.ev(e.value, st)

    def e_Yield(self, e, st):
        if e.value is not None:
            self.ret = join(self.ret, self.ev(e.value, st).elem())
        return OTHERV

    def e_YieldFrom(self, e, st):
        self.ret = join(self.ret, self.ev(e.value, st).elem())
        return OTHERV

    def _comp(self, e, elts, st):
        inner = st.copy()
        for g in e.generators:
            it = self.ev(g.iter, inner)
            self.bind(g.target, self.element(it), inner, None, e)
            for c in g.ifs:
                self.ev(c, inner)
        v = joinall([self.ev(x, inner) for x in elts])
        return v.part(3) if v.lvl else v

    def e_ListComp(self, e, st):
        return self._comp(e, [e.elt], st)

    e_SetComp = e_GeneratorExp = e_ListComp

    def e_DictComp(self, e, st):
        return self._comp(e, [e.key, e.value], st)

    # -- calls
    def e_Call(self, e, st):
        f = e.func
        argvals = [self.ev(a, st) for a in e.args]
        kwvals = [(k.arg, self.ev(k.value, st)) for k in e.keywords]
        allv = argvals + [v for _, v in kwvals]
        self.callsites += 1
        lams = [a for a in list(e.args) + [k.value for k in e.keywords] if isinstance(a, ast.Lambda)]
        if lams and any(v.lvl for v in allv):
            # a lambda handed to map / sorted / ... together with receiver-derived data: it is applied to its elements
            ev_ = joinall(allv).elem()
            for lam in lams:
                inner = st.copy()
                for a in lam.args.posonlyargs + lam.args.args + lam.args.kwonlyargs:
                    inner.env[a.arg] = ev_
                self.ev(lam.body, inner)
        for a in list(e.args) + [k.value for k in e.keywords]:
            # a bound method of a receiver-derived object handed over as a callback: assume it gets called
            if isinstance(a, ast.Attribute) and not isinstance(a.ctx, ast.Store):
                bv = self.ev(a.value, st, quiet=True)
                cs = self.prog.candidates_any(a.attr, tensorlike=True)
                if bv.lvl and ((cs and not any(c[0].is_property for c in cs)) or a.attr in DECLARED_MODIFIES or
                               (a.attr in CONTAINER_MUTATORS and not cs)):
                    fake = ast.Call(func=a, args=[], keywords=[])
                    ast.copy_location(fake, e)
                    self.method_call(fake, st, a.attr, a.value, bv, [], [])
        # ---- method-style call
        if isinstance(f, ast.Attribute):
            m = f.attr
            base = f.value
            # super().m(...)
            if isinstance(base, ast.Call) and isinstance(base.func, ast.Name) and base.func.id == "super":
                if len(base.args) == 2:
                    # super(C, x) is a proxy for x: the receiver is the value of x, resolved in the MRO after C
                    rv = self.ev(base.args[1], st)
                    start = None
                    if isinstance(base.args[0], ast.Name):
                        start = self.prog.lookup_name(self.mod, base.args[0].id)
                        if not isinstance(start, ClassInfo):
                            start = self.fi.cls if base.args[0].id == "__class__" else None
                    if start is not None:
                        cands = self.prog.candidates(start, m, "super")
                    else:
                        cands = self.prog.candidates_any(m, tensorlike=True)
                else:
                    rv = self.name_val(self.selfname, st) if self.selfname else OTHERV
                    cands = self.prog.candidates(self.fi.cls, m, "super") if self.fi.cls else []
                if not cands and rv.lvl:
                    if m.endswith("_") and not m.endswith("__"):
                        self.event("call", e, rv, note=f"unresolved `super().{m}`: trailing underscore => modifies")
                    elif rv.lvl == ORIG:
                        self.assumed.add(f"super().{m}()")
                out = self.apply(e, st, cands, rv, argvals, bound=True, label=f"super().{m}")
                if m == "__init__" and out.lvl and self.selfname and rv.lvl == OTHER:
                    # the base constructor stored (part of) the argument into the object under construction
                    st.env[self.selfname] = join(st.env.get(self.selfname, OTHERV), out.part(3))
                return out
            # ClassName.m(x, ...)   /  module.f(...)
            if isinstance(base, ast.Name) and base.id not in st.env:
                tgt = self.prog.lookup_name(self.mod, base.id)
                if tgt is None and base.id not in self.fi.allparams and base.id[:1].isupper():
                    tgt = self.prog.class_named(base.id)     # a class of the package referred to by its unique name
                if isinstance(tgt, ClassInfo):
                    cands = self.prog.candidates(tgt, m, "class")
                    if cands:
                        bound = cands[0][0].kind == "classmethod"
                        return self.apply(e, st, cands, OTHERV, argvals, bound=bound, label=f"{base.id}.{m}")
                elif isinstance(tgt, ModuleInfo):
                    fn = self.prog.lookup_name(tgt, m)
                    if isinstance(fn, FuncInfo):
                        return self.apply(e, st, [(fn, {})], OTHERV, argvals, bound=False, label=f"{base.id}.{m}")
                    if isinstance(fn, ClassInfo):
                        return self.construct(e, fn, allv, st, argvals)
            rv = self.ev(base, st)
            return self.method_call(e, st, m, base, rv, argvals, allv)
        # ---- plain call
        if isinstance(f, ast.Name):
            n = f.id
            if n in self.localfuncs and n in st.env:
                return join(self.localfuncs[n], OTHERV)
            if n == "setattr" and argvals:
                self.event("setattr", e, argvals[0], note="setattr on the receiver")
                return OTHERV
            if n in ("isinstance", "hasattr", "len", "type", "id", "repr", "str", "int", "float", "bool", "hash",
                     "print", "range", "callable", "issubclass", "abs", "sum", "all", "any", "round"):
                return OTHERV
            if n == "super":
                if len(argvals) == 2:
                    return argvals[1]
                return self.name_val(self.selfname, st) if self.selfname else OTHERV
            if n in self.fnvars:
                if self.fnvars[n]:
                    return self.apply(e, st, [(f_, {}) for f_ in self.fnvars[n]], OTHERV, argvals, bound=False,
                                      label=n)
                return OTHERV
            if n in st.env and st.env[n].lvl == OTHER:
                # calling a local variable (callback): arguments escape into unknown code
                if any(v.lvl == ORIG for v in allv):
                    self.assumed.add(f"callback `{n}(...)` does not modify the receiver passed to it")
                return OTHERV
            tgt = self.prog.lookup_name(self.mod, n)
            if isinstance(tgt, FuncInfo):
                return self.apply(e, st, [(tgt, {})], OTHERV, argvals, bound=False, label=n)
            if isinstance(tgt, ClassInfo):
                return self.construct(e, tgt, allv, st, argvals)
            if n in PASS_THROUGH:
                v = joinall(allv)
                if n in PASS_ELEMENT:
                    return self.element(v)
                return v.part(3) if v.lvl else v
            if n in PASS_ELEMENT:
                return self.element(joinall(allv))
            if n in ("deepcopy", "copy"):
                return OTHERV
            if any(v.lvl == ORIG for v in allv):
                self.assumed.add(f"{n}(<receiver>)")
            return OTHERV
        # ---- computed callee:  TABLE[key](...), self.__class__(...), getattr(x, name)(...), fns[i](...)
        fs = self.prog.dispatch_targets(self.mod, f)
        if fs is not None:
            if fs:
                return self.apply(e, st, [(f_, {}) for f_ in fs], OTHERV, argvals, bound=False,
                                  label=ast.unparse(f)[:40])
            return OTHERV
        fv = self.ev(f, st)
        if isinstance(f, ast.Call) and isinstance(f.func, ast.Name) and f.func.id == "getattr" and len(f.args) >= 2:
            rv = self.ev(f.args[0], st, quiet=True)
            pat = f.args[1]
            names = None
            if isinstance(pat, ast.Constant) and isinstance(pat.value, str):
                names = [pat.value]
            elif isinstance(pat, ast.JoinedStr):
                rx = "".join(re.escape(p.value) if isinstance(p, ast.Constant) else r"\w+" for p in pat.values)
                names = [k for k in self.prog.methods_by_name if re.fullmatch(rx, k)]
            if names:
                out = OTHERV
                for nm in names:
                    out = join(out, self.method_call(e, st, nm, f.args[0], rv, argvals, allv))
                return out
            if rv.lvl == ORIG:
                self.event("dynamic-call", e, rv, certain=False, note="getattr(receiver, <computed name>)(...)")
            return OTHERV
        if any(v.lvl == ORIG for v in allv) or fv.lvl == ORIG:
            self.assumed.add(f"{ast.unparse(f)[:40]}(...)")
        # self.__class__(...) / type(self)(...)  constructors: virtual=True shares the tensors
        return self.construct(e, None, allv)

    def construct(self, e, ci, allv, st=None, argvals=None):
        out = OTHERV
        if ci is not None and st is not None and any(v.lvl for v in allv):
            init = self.prog.candidates(ci, "__init__", "class")
            if init:
                # the new object holds whatever its __init__ stores into it
                out = self.apply(e, st, init, OTHERV, argvals or [], bound=True, label=f"{ci.name}.__init__")
                if out.lvl:
                    out = out.part(3)
        virt = [k for k in e.keywords if k.arg == "virtual"]
        v = joinall(allv)
        if v.lvl and virt and not (isinstance(virt[0].value, ast.Constant) and virt[0].value.value is False):
            return join(out, v.elem())
        return out

    def method_call(self, e, st, m, basenode, rv, argvals, allv):
        if m in DECLARED_FRESH:
            if rv.lvl and isinstance(basenode, ast.Attribute) and basenode.attr in SHARED_CONTAINER_FIELDS:
                return rv.part(3)    # shallow copy of a map of the receiver: new container, same tensors
            return OTHERV
        if rv.lvl == OTHER:
            # other.m(..., <receiver>, ...): local container aliasing, else by-name resolution for the arguments
            if m in CONTAINER_ADDERS and isinstance(basenode, ast.Name) and any(v.lvl for v in allv):
                st.env[basenode.id] = join(st.env.get(basenode.id, OTHERV), joinall(allv).part(3))
                return OTHERV
            if m == "setdefault" and isinstance(basenode, ast.Name) and len(e.args) == 2 and \
                    isinstance(e.args[0], ast.Constant) and isinstance(e.args[0].value, str) and \
                    FLAG_RE.match(e.args[0].value):
                st.kwf.setdefault(basenode.id, {})[e.args[0].value] = self.eval_flag(e.args[1], st)
                return OTHERV
            if not any(v.lvl for v in allv):
                return OTHERV
            if isinstance(basenode, ast.Name) and basenode.id in self.vartype:
                cands = self.prog.candidates(self.vartype[basenode.id], m, "class")
            else:
                cands = self.prog.candidates_any(m)
            if not cands:
                if any(v.lvl == ORIG for v in allv):
                    self.assumed.add(f"{ast.unparse(basenode)[:30]}.{m}(<receiver>)")
                return OTHERV
            return self.apply(e, st, cands, OTHERV, argvals, bound=True, label=f"<other>.{m}")
        # receiver-derived base
        cands = []
        if rv.depth == 0 and self.fi.cls is not None and isinstance(basenode, ast.Name) and \
                self.fi.kind == "method" and self.P == self.selfname:
            cands = self.prog.candidates(self.fi.cls, m, "self")
        if not cands and isinstance(basenode, ast.Name) and basenode.id in self.vartype:
            cands = self.prog.candidates(self.vartype[basenode.id], m, "class")
        if not cands and rv.depth == 3:
            # a fresh holder (helper object built around the receiver, e.g. a belief propagation object): any class
            cands = self.prog.candidates_any(m)
        if not cands:
            # a value reached from a tensor / network receiver is a tensor, a network or a builtin container
            cands = self.prog.candidates_any(m, tensorlike=True)
        if not cands and m not in CONTAINER_MUTATORS and m not in ACCESSORS:
            # ... or a helper object of the package whose method name is unique (e.g. PArray.add_function)
            allc = self.prog.candidates_any(m)
            if len(allc) == 1:
                cands = allc
        if rv.depth in (1, 2) and m in CONTAINER_MUTATORS and not _unobservable(basenode):
            self.event("container-mutation", e, rv, note=f"`{ast.unparse(e.func)}(...)` on a part of the receiver")
        if cands:
            out = self.apply(e, st, cands, rv, argvals, bound=True, label=f".{m}")
            if m in ACCESSORS:
                out = join(out, self.element(rv))
            if m in DECLARED_VIEWS:
                virt = [k for k in e.keywords if k.arg == "virtual"]
                fv = self.eval_flag(virt[0].value, st) if virt else ("T",)
                if fv[0] in ("T", "U", "N"):
                    out = join(out, rv.part(2))
                elif fv[0] == "P":
                    out = join(out, Val(SAFE, frozenset([fv[1]]), 2) if rv.lvl == ORIG else rv.part(2))
            return out
        if m.endswith("_") and not m.endswith("__"):
            self.event("call", e, rv, note=f"unresolved `{m}`: trailing underscore => modifies its receiver "
                                           f"(declared naming convention)")
            return rv
        if m in DECLARED_MODIFIES:
            self.event("call", e, rv, note=f"declared leaf `{m}` modifies its receiver")
            return OTHERV
        if m in ACCESSORS or rv.depth >= 1 and m in ("copy",):
            return self.element(rv)
        if rv.lvl == ORIG and m not in CONTAINER_MUTATORS:
            self.assumed.add(f".{m}()")
        return OTHERV

    def flag_at_call(self, q, fi, presets, explicit, e, st):
        if q in explicit:
            return explicit[q]
        if q in presets:
            return self.eval_flag(presets[q], State())
        for k in e.keywords:
            if k.arg is None:
                d = k.value
                if isinstance(d, ast.Name):
                    rec = st.kwf.get(d.id, {})
                    if q in rec:
                        return rec[q]
                    if d.id == self.fi.kwarg and q not in self.fi.allparams:
                        # the flag travels through this function's own **kwargs: it behaves like a parameter of it
                        dflt = fi.defaults.get(q)
                        dv = self.eval_flag(dflt, State()) if isinstance(dflt, ast.Constant) else \
                            fi.vflags.get(q, ("U",))
                        if q in self.fi.vflags and self.fi.vflags[q] != dv:
                            dv = ("U",)
                        self.fi.vflags[q] = dv
                        self.flags.add(q)
                        if q in st.facts:
                            return ("T",) if st.facts[q] else ("F",)
                        return ("P", q)
                    if d.id == self.fi.kwarg or "__local__" in rec:
                        continue   # caller's own **kwargs (cannot hold a named parameter) / local literal
                self.az.assumed_global.add("option dictionaries passed as **opts do not carry a flag (inplace=...) "
                                           "unless the function itself stores one in them")
                continue
        dflt = fi.defaults.get(q)
        if dflt is None:
            return fi.vflags.get(q, ("U",))
        return self.eval_flag(dflt, State()) if isinstance(dflt, ast.Constant) else ("U",)

    def apply(self, e, st, cands, rv, argvals, bound, label):
        """apply callee summaries: events on receiver-derived arguments, abstract result"""
        out = OTHERV
        tuple_parts, tuple_ok = [], True
        if len(cands) > 1:
            # by-name resolution: drop candidates whose signature cannot accept this call (would raise TypeError)
            ok = [c for c in cands if self.compatible(c[0], e, bound)]
            cands = ok or cands
        for fi, presets in cands:
            pos = list(fi.params)
            off = 0
            binding = {}   # param -> Val
            explicit = {}  # flag param -> flag value
            if bound and fi.kind in ("method", "classmethod"):
                off = 1
                if fi.kind == "method" and pos:
                    binding[pos[0]] = rv
            elif bound and fi.kind == "function" and pos:
                # a module-level function attached to a class (Class.name = function)
                off = 1
                binding[pos[0]] = rv
            star_seen = False
            for i, (a, v) in enumerate(zip(e.args, argvals)):
                if isinstance(a, ast.Starred):
                    star_seen = True
                    if v.lvl:
                        for p in pos[off + i:] + ([fi.vararg] if fi.vararg else []):
                            if not FLAG_RE.match(p):
                                binding[p] = join(binding.get(p, OTHERV), self.element(v))
                    continue
                idx = off + i
                if star_seen:
                    tgt = fi.vararg
                else:
                    tgt = pos[idx] if idx < len(pos) else fi.vararg
                if tgt is None:
                    continue
                if FLAG_RE.match(tgt):
                    explicit[tgt] = self.eval_flag(a, st)
                elif v.lvl:
                    binding[tgt] = join(binding.get(tgt, OTHERV), v)
            for k in e.keywords:
                if k.arg is None:
                    continue
                if FLAG_RE.match(k.arg) and (k.arg in fi.allparams or fi.kwarg):
                    explicit[k.arg] = self.eval_flag(k.value, st)
                elif k.arg in fi.allparams:
                    v = self.ev(k.value, st, quiet=True)
                    if v.lvl:
                        binding[k.arg] = join(binding.get(k.arg, OTHERV), v)
            for p, v in binding.items():
                if v.lvl == OTHER:
                    continue
                s = self.az.summary(fi, p)
                callee = f"{fi.qual}({p})"
                s_lvl, s_flags = s.lvl, s.flags
                if v.depth == 3:
                    # a fresh holder (list / view / helper object) of parts: only writes that reach the parts count
                    s_lvl, s_flags, v = s.plvl, s.pflags, v.elem()
                if s.uncertain and v.lvl == ORIG:
                    self.event("call", e, v, certain=False, note=f"callee {callee} has an undecided effect")
                if s_lvl == ORIG:
                    self.event("call", e, v, note=f"callee {callee} summary: modifies-receiver")
                elif s_lvl == SAFE:
                    for q in sorted(s_flags):
                        fv = self.flag_at_call(q, fi, presets, explicit, e, st)
                        if fv[0] == "T":
                            self.event("call", e, v, note=f"callee {callee} modifies iff {q}; called with {q}=True")
                        elif fv[0] == "N":
                            self.event("call", e, v, note=f"callee {callee} modifies iff {q}; called with "
                                                          f"{q}=not {fv[1]}")
                        elif fv[0] == "P":
                            if v.lvl == ORIG:
                                self.delegations.append((e.lineno, callee, q))
                                self.event("call", e, Val(SAFE, frozenset([fv[1]]), v.depth),
                                           note=f"delegation {q}={fv[1]} to {callee}")
                            else:
                                self.event("call", e, v, note=f"callee {callee} {q}={fv[1]}")
                        elif fv[0] == "U":
                            if v.lvl == ORIG:
                                self.event("call", e, v, certain=False,
                                           note=f"callee {callee} modifies iff {q}; value of {q} at this call unknown")
                            else:
                                self.event("call", e, v, note=f"callee {callee} {q}=?")
                if s.lvl != SAFE and v.lvl == ORIG:
                    # delegation to a function that keeps the receiver untouched but hands back `p if flag else copy`
                    for q in sorted(s.ret.flags if s.ret.lvl == SAFE else ()):
                        if FLAG_RE.match(q) and self.flag_at_call(q, fi, presets, explicit, e, st)[0] == "P":
                            self.delegations.append((e.lineno, callee, q))
                # result
                out = join(out, self.map_ret(s.ret, v, fi, presets, explicit, e, st))
                if s.ret_tuple is not None:
                    mapped = [self.map_ret(r, v, fi, presets, explicit, e, st) for r in s.ret_tuple]
                    tuple_parts.append(mapped)
                elif s.ret.lvl:
                    tuple_ok = False
        if tuple_ok and tuple_parts and len({len(x) for x in tuple_parts}) == 1:
            self.tuples[id(e)] = [joinall(col) for col in zip(*tuple_parts)]
        else:
            self.tuples.pop(id(e), None)
        return out

    @staticmethod
    def compatible(fi, e, bound):
        off = 1 if (bound and fi.kind in ("method", "classmethod", "function")) else 0
        if fi.kwarg is None:
            for k in e.keywords:
                if k.arg is not None and k.arg not in fi.allparams:
                    return False
        npos = sum(1 for a in e.args if not isinstance(a, ast.Starred))
        if fi.vararg is None and npos + off > len(fi.params):
            return False
        return True

    def map_ret(self, r, v, fi, presets, explicit, e, st):
        """callee's abstract return value (relative to its parameter) -> value in the caller (argument value v)"""
        if r.lvl == ORIG:
            return self._ret_map(v, r)
        out = OTHERV
        if r.lvl == SAFE:
            for q in sorted(r.flags):
                fv = self.flag_at_call(q, fi, presets, explicit, e, st)
                if fv[0] in ("T", "U", "N"):
                    out = join(out, self._ret_map(v, r))
                elif fv[0] == "P":
                    if v.lvl == ORIG:
                        out = join(out, Val(SAFE, frozenset([fv[1]]), self._ret_map(v, r).depth))
                    else:
                        out = join(out, self._ret_map(v, r))
        return out

    @staticmethod
    def _ret_map(v, r):
        if r.depth == 0:
            d = v.depth
        elif r.depth == 3:
            d = 3
        elif v.depth <= 1:
            d = r.depth
        else:
            d = 2
        return Val(v.lvl, v.flags, d)


# ---------------------------------------------------------------------------------------------- obligations
def _receivers(fi):
    """parameters subject to the `inplace` contract of fi"""
    names = [p for p in fi.params + ([fi.vararg] if fi.vararg else []) if not FLAG_RE.match(p)]
    if fi.kind == "classmethod":
        names = names[1:]
    found = []
    for n in ast.walk(fi.node):
        if isinstance(n, (ast.IfExp, ast.If)):
            t = ast.unparse(n.test)
            if re.search(r"\binplace\b", t):
                body = ast.unparse(n) if isinstance(n, ast.IfExp) else "\n".join(ast.unparse(x) for x in n.body + n.orelse)
                for p in names:
                    if re.search(r"\b%s\.copy\(" % re.escape(p), body) or \
                            (p == fi.vararg and re.search(r"\.copy\(\) for \w+ in %s\b" % re.escape(p), body)):
                        if p not in found:
                            found.append(p)
        elif isinstance(n, ast.Call):
            for k in n.keywords:
                if k.arg and FLAG_RE.match(k.arg) and isinstance(k.value, ast.Name) and k.value.id == "inplace":
                    cand = None
                    if n.args and isinstance(n.args[0], ast.Name):
                        cand = n.args[0].id
                    if isinstance(n.func, ast.Attribute) and isinstance(n.func.value, ast.Name) and \
                            n.func.value.id in names and cand != fi.recv_param:
                        cand = n.func.value.id
                    if isinstance(n.func, ast.Attribute) and isinstance(n.func.value, ast.Call) and \
                            ast.unparse(n.func.value) == "super()" and fi.kind == "method" and fi.name != "__init__":
                        cand = fi.params[0]
                    if cand is None:
                        for kk in n.keywords:
                            if kk.arg and isinstance(kk.value, ast.Name) and kk.value.id in names and \
                                    kk.value.id == fi.recv_param:
                                cand = kk.value.id
                    if cand in names and cand not in found:
                        found.append(cand)
    if fi.name == "__init__" and fi.kind == "method":
        found = [p for p in found if p != fi.params[0]]   # the object under construction is not a receiver
        if not found:
            return names[1:2]
    if not found:
        return [fi.recv_param] if fi.recv_param else names[:1]
    if fi.recv_param in found:
        return [fi.recv_param]
    return found[:2]


def analyse(root):
    prog = Program(root)
    az = Analyzer(prog)
    subjects = []
    for rel, m in sorted(prog.mods.items()):
        fis = list(m.funcs.values())
        for c in m.classes.values():
            fis.extend(c.methods.values())
        for fi in sorted(fis, key=lambda x: x.node.lineno):
            if "inplace" in fi.allparams:
                subjects.append(fi)
    roots = []
    for fi in subjects:
        for p in _receivers(fi):
            roots.append((fi, p))
    # declared leaves that exist in the source: derive them too (O4 consistency)
    leaves = []
    for name in sorted(DECLARED_MODIFIES):
        for fi, presets in prog.candidates_any(name):
            if fi.recv_param and fi.kind == "method":
                leaves.append((name, fi, presets))
                roots.append((fi, fi.recv_param))
    sys.setrecursionlimit(max(sys.getrecursionlimit(), 20000))
    rounds = az.solve(roots)
    return prog, az, subjects, leaves, rounds


def _classify(its):
    idiom = any(it.idioms for it in its)
    deleg = any(it.delegations for it in its)
    guarded = any(e.lvl == SAFE and e.certain and not e.note.startswith("delegation") for it in its for e in it.events)
    if idiom:
        return "idiom"
    if deleg:
        return "delegates"
    if guarded:
        return "guarded"
    return "neither"


def frame_obligations(root):
    t0 = time.time()
    prog, az, subjects, leaves, rounds = analyse(root)
    obs = []
    census = dict(methods=0, idiom=0, delegates=0, guarded=0, constructs_new=0, neither=0, failed=0, unknown=0)
    census_anch = dict(census)
    all_assumed = set()
    ncalls = 0
    per = (time.time() - t0) / max(1, len(subjects))
    for fi in subjects:
        its = [az.results[(fi.fid, p)] for p in _receivers(fi) if (fi.fid, p) in az.results]
        rule = _classify(its)
        bad = [e for it in its for e in it.events if e.certain and
               (e.lvl == ORIG or (e.lvl == SAFE and not e.flags <= {"inplace"}))]
        unk = [e for it in its for e in it.events if (not e.certain) and e.lvl == ORIG]
        assumed = sorted(set().union(*[it.assumed for it in its])) if its else []
        all_assumed.update(assumed)
        ncalls += sum(it.callsites for it in its)
        summ = [az.summ[(fi.fid, it.P)] for it in its]
        if rule == "neither" and not bad and not unk:
            # third recognised pattern: builds a new object, never a mutating use of the receiver at all
            if all(not [e for e in it.events if e.lvl != OTHER] for it in its) and its:
                rule = "constructs-new"
        escapes = fi.name == "__init__" and any(s_.ret.lvl == ORIG for s_ in summ)
        if bad:
            status = "failed"
        elif escapes:
            status = "unknown"
        elif unk or not its:
            status = "unknown"
        elif rule == "neither":
            status = "unknown"
        else:
            status = "discharged"
        dflt = fi.defaults.get("inplace")
        detail = dict(rule=rule, receivers=[it.P for it in its], summary=[s.text() for s in summ],
                      returns=[repr(s.ret) for s in summ],
                      default_inplace=(ast.unparse(dflt) if dflt is not None else None),
                      idiom_lines=sorted({ln for it in its for ln in it.idioms}),
                      delegates_to=sorted({f"{c} [{q}] @{ln}" for it in its for ln, c, q in it.delegations}),
                      call_sites_checked=sum(it.callsites for it in its),
                      assumed_pure=assumed)
        model = None
        if bad:
            model = dict(bad[0].to_json(), function=f"{fi.mod.rel}::{fi.qual}", receiver=[it.P for it in its],
                         flag="inplace=False", all_offending=[e.to_json() for e in bad[:8]], n_offending=len(bad))
            detail["why"] = "receiver may be modified although the flag is false: " + "; ".join(
                f"{e.file}:{e.line} `{e.src}` ({e.kind}: {e.note})" for e in bad[:3])
        elif escapes:
            detail["why"] = "the constructor keeps a reference to the ORIGINAL argument whatever the flag (no copy idiom)"
        elif unk:
            detail["why"] = "undecided: " + "; ".join(f"{e.file}:{e.line} `{e.src}` ({e.note})" for e in unk[:3])
        elif status == "unknown":
            detail["why"] = "pattern not recognised: no copy idiom, no delegation, no guarded mutation"
        oid = f"{fi.mod.rel}::{fi.qual}::frame-{rule}"
        obs.append(ObResult(id=oid, kind="frame", status=status, backend="ast", solver_s=per,
                            function=f"{fi.mod.rel}::{fi.qual}", model=model, line=fi.node.lineno,
                            detail=json.dumps(detail), engine="E4"))
        for cz in ([census, census_anch] if fi.mod.rel in ANCHORED else [census]):
            cz["methods"] += 1
            cz[rule.replace("-", "_")] += 1
            if status != "discharged":
                cz[status] += 1
    # O4: declared leaf summaries vs derived ones
    seen = set()
    for name, fi, presets in leaves:
        if (name, fi.fid) in seen:
            continue
        seen.add((name, fi.fid))
        it = az.results.get((fi.fid, fi.recv_param))
        if it is None:
            continue
        true_presets = {k for k, v in presets.items() if isinstance(v, ast.Constant) and v.value is True}
        ok, how = False, "pure-on-receiver"
        for e in it.events:
            if e.certain and e.lvl == ORIG:
                ok, how = True, "modifies-receiver"
            elif e.certain and e.lvl == SAFE and e.flags and e.flags <= true_presets and not ok:
                ok, how = True, "modifies-receiver-iff-" + "|".join(sorted(e.flags)) + " (alias presets it True)"
        cls_name = fi.qual.split(".")[0] if "." in fi.qual else ""
        disp = fi.qual if name == fi.name else f"{cls_name}.{name}->{fi.qual}"
        obs.append(ObResult(id=f"{fi.mod.rel}::{disp}::leaf-summary-consistent", kind="frame",
                            status="discharged" if ok else "unknown", backend="ast", solver_s=0.0,
                            function=f"{fi.mod.rel}::{fi.qual}", line=fi.node.lineno, engine="E4",
                            detail=json.dumps(dict(declared=f"{name}: modifies-receiver", derived=how))))
    cdetail = dict(all=census, anchored_files=census_anch, fixpoint_rounds=rounds,
                   summaries_derived=len(az.summ), call_sites_checked=ncalls,
                   assumed_pure=sorted(all_assumed), assumed_global=sorted(az.assumed_global),
                   wall_s=round(time.time() - t0, 2))
    bad_c = census_anch["methods"] < 150 or census["neither"] > 0 or rounds >= 10
    obs.append(ObResult(id=f"{PKG}::inplace-census", kind="frame", status="unknown" if bad_c else "discharged",
                        backend="ast", solver_s=0.0, function=f"{PKG}::inplace-census", engine="E4",
                        detail=json.dumps(cdetail)))
    return obs, cdetail


# ---------------------------------------------------------------------------------------------- O3 reflection
def _reflect(root):
    """alias pairing by reflection over the live classes (run with `root` first on sys.path)"""
    import functools
    import importlib
    import inspect
    import pkgutil

    if root not in sys.path[:1]:
        sys.path.insert(0, root)
    import quimb.tensor as qtn

    qroot = os.path.realpath(os.path.dirname(os.path.dirname(os.path.dirname(qtn.__file__))))
    if qroot != os.path.realpath(root):
        return dict(error=f"quimb imported from {qroot}, expected {root}")
    mods = []
    for mi in pkgutil.walk_packages(qtn.__path__, "quimb.tensor."):
        try:
            mods.append(importlib.import_module(mi.name))
        except Exception:  # optional dependency missing: skip that module
            continue
    classes = {}
    for mod in mods:
        for name, obj in vars(mod).items():
            if inspect.isclass(obj) and getattr(obj, "__module__", "").startswith("quimb.tensor"):
                classes[obj.__module__ + "." + obj.__qualname__] = obj

    def where(fn):
        try:
            f = inspect.unwrap(fn)
            return f"{getattr(f, '__qualname__', repr(f))} ({os.path.relpath(inspect.getsourcefile(f), root)}:" \
                   f"{f.__code__.co_firstlineno})"
        except Exception:
            return repr(fn)

    def underlying(x):
        pre = {}
        for _ in range(6):
            if isinstance(x, (functools.partialmethod, functools.partial)):
                pre = {**x.keywords, **pre}
                x = x.func
            elif isinstance(x, (classmethod, staticmethod)):
                x = x.__func__
            elif hasattr(x, "__wrapped__") and callable(getattr(x, "__wrapped__", None)):
                # a functools.wraps decorator (e.g. ``deprecated(fn, old, new)``, which warns and delegates): the two
                # spellings are paired on the function they both delegate to (assumption: wrappers forward arguments)
                x = x.__wrapped__
            else:
                break
        return x, pre

    def static_lookup(cls, name):
        for k in cls.__mro__:
            if name in k.__dict__:
                return k, k.__dict__[name]
        return None, None

    rows = []
    for cname, cls in sorted(classes.items()):
        names = set()
        for k in cls.__mro__:
            for n, v in k.__dict__.items():
                if n.endswith("_") and not n.endswith("__") and isinstance(v, functools.partialmethod) and \
                        v.keywords.get("inplace") is True:
                    names.add(n)
        for n_ in sorted(names):
            kdef_, v_ = static_lookup(cls, n_)
            if not isinstance(v_, functools.partialmethod):
                continue  # overridden by a plain def in a subclass: not an alias here
            f_, pre_ = underlying(v_)
            plain = n_[:-1]
            kdef, v = static_lookup(cls, plain)
            f, pre = underlying(v) if v is not None else (None, {})
            extra_ = {k: x for k, x in pre_.items() if k != "inplace"}
            ok = f is not None and f is f_ and extra_ == pre
            own = (n_ in cls.__dict__) or (plain in cls.__dict__)
            inherited_same = False
            for b in cls.__mro__[1:]:
                kb_, vb_ = static_lookup(b, n_)
                kb, vb = static_lookup(b, plain)
                if vb_ is v_ and vb is v and vb_ is not None:
                    inherited_same = True
                    break
            if not own and inherited_same:
                continue
            if not own and ok:
                continue
            try:
                file = os.path.relpath(inspect.getsourcefile(cls), root)
            except Exception:
                file = cls.__module__
            rows.append(dict(cls=cls.__qualname__, file=file, alias=n_, ok=bool(ok),
                             alias_defined_in=kdef_.__qualname__, alias_wraps=where(f_),
                             plain_defined_in=kdef.__qualname__ if kdef else None,
                             plain_is=where(f) if f is not None else None,
                             presets_alias={k: repr(x) for k, x in pre_.items()},
                             presets_plain={k: repr(x) for k, x in pre.items()}))
    return dict(rows=rows, nclasses=len(classes))


def alias_obligations(root):
    t0 = time.time()
    data = None
    inproc = True
    if "quimb" in sys.modules:
        qf = os.path.realpath(os.path.dirname(os.path.dirname(sys.modules["quimb"].__file__)))
        inproc = qf == os.path.realpath(root)
    if inproc:
        try:
            data = _reflect(root)
            if "error" in data:
                data = None
        except Exception as ex:  # noqa
            data = None
    if data is None:
        env = dict(os.environ)
        env["PYTHONPATH"] = root + os.pathsep + os.path.dirname(os.path.dirname(os.path.abspath(__file__)))
        env.setdefault("NUMBA_CACHE_DIR", "/tmp/numba-cache-c03-" + re.sub(r"\W", "_", root))
        r = subprocess.run([sys.executable, "-W", "ignore", os.path.abspath(__file__), "--reflect", root],
                           capture_output=True, text=True, env=env, timeout=300)
        try:
            data = json.loads(r.stdout.strip().splitlines()[-1])
        except Exception:
            data = dict(error=(r.stderr or r.stdout)[-600:])
    if "error" in data:
        return [ObResult(id=f"{PKG}::alias-pairing[reflection]", kind="frame", status="unknown", backend="inspect",
                         solver_s=time.time() - t0, function=f"{PKG}::alias-pairing", engine="E4",
                         detail=data["error"])]
    obs = []
    per = (time.time() - t0) / max(1, len(data["rows"]))
    for r in data["rows"]:
        oid = f"{r['file']}::alias-pairing[{r['cls']}.{r['alias']}]"
        detail = (f"{r['cls']}.{r['alias']} (bound in {r['alias_defined_in']}) wraps {r['alias_wraps']} "
                  f"presets {r['presets_alias']}; {r['cls']}.{r['alias'][:-1]} resolves to {r['plain_is']} "
                  f"(defined in {r['plain_defined_in']}) presets {r['presets_plain']}")
        model = None
        if not r["ok"]:
            model = dict(cls=r["cls"], in_place_spelling=r["alias"], in_place_spelling_wraps=r["alias_wraps"],
                         plain_spelling_resolves_to=r["plain_is"], file=r["file"])
        obs.append(ObResult(id=oid, kind="frame", status="discharged" if r["ok"] else "failed", backend="inspect",
                            solver_s=per, function=f"{r['file']}::{r['cls']}.{r['alias']}", model=model,
                            detail=detail, engine="E4"))
    if len(obs) < 100:
        obs.append(ObResult(id=f"{PKG}::alias-pairing[vacuity]", kind="frame", status="unknown", backend="inspect",
                            solver_s=0.0, function=f"{PKG}::alias-pairing", engine="E4",
                            detail=f"only {len(obs)} alias pairs found by reflection (expected > 100)"))
    return obs


# ---------------------------------------------------------------------------------------------- provider
def _root():
    return os.path.realpath(os.environ.get("VERIF_REPO", "/repo"))


def provider_frame(tier="quick"):
    obs, _ = frame_obligations(_root())
    return obs


def provider_alias(tier="quick"):
    return alias_obligations(_root())


def provider(tier="quick"):
    return provider_frame(tier) + provider_alias(tier)


if __name__ == "__main__":
    if len(sys.argv) >= 3 and sys.argv[1] == "--reflect":
        try:
            out = _reflect(os.path.realpath(sys.argv[2]))
        except Exception as ex:  # noqa
            import traceback
            out = dict(error=traceback.format_exc()[-800:])
        print(json.dumps(out))
    else:
        sys.path.insert(0, os.path.dirname(os.path.dirname(os.path.abspath(__file__))))
        from vf.framework import ObResult  # noqa
        t0 = time.time()
        res = provider()
        for o in res:
            if o.status != "discharged":
                print(o.status.upper(), o.id, (o.detail or "")[:400])
        print(len(res), "obligations", sum(o.status == "discharged" for o in res), "discharged",
              round(time.time() - t0, 2), "s")
