"""C20 -- the DISCRETE skeleton of the entanglement / information measures of quimb/calc.py and of the lazy partial-trace
operators of quimb/linalg/approx_spectral.py.

The numerical content (eigenvalues, logarithms, optimisation) is decided by the bounded run-time driver drivers/c20.py.
What is put under contract here is what those numbers are computed FROM: which subsystems are traced out, how the
subsystem indices are renumbered after a partial trace, which dimension list is handed on, which index of an einsum /
tensor network is summed, which digit base labels an outcome, whether an integer is read as a count or as a proportion.

Approach (as contracts/c15_kron.py): *structure-bounded, value-unbounded*.  The NUMBER of subsystems K is fixed per case
(K <= 4, K <= 3 where the case table would explode), the subsystem sets are enumerated (every subset / every disjoint pair
of subsets, for order-sensitive arguments every ordered tuple), every DIMENSION and every scalar parameter stays a symbolic
integer / real.  Numerical leaves (ptr, entropy, eigvalsh, tr_sqrt, ikron, expec, array_contract ...) are uninterpreted
function symbols whose ARGUMENTS encode the leaf's documented meaning canonically:

  ptr(p, dims, keep)          -> ptr<K>(p, d_0..d_{K-1}, m_0..m_{K-1})     m_q = (q in keep): the leaf keeps the SET of
                                 subsystems `keep`, ordered by increasing index (so the argument order of `keep` is
                                 immaterial; position r of the result is the r-th smallest kept index)
  entropy_subsys / tr_sqrt_subsys / logneg_subsys_approx(psi, dims, sysa[, sysb])  -> the same encoding by membership
  logneg / partial_transpose(rho, dims, sysa)                                     -> the same encoding by membership

so "the (dims, sysa, sysb) handed to the callee denote the same physical subsystems as the arguments" is an equality of
terms.  A subsystem-set argument (`sysa` given as an int, a tuple or any sequence in any order) is the abstract value
``SysSet`` (membership per position); ``int2tup`` and ``in`` only read membership.

Facts about quantum states that the shortcut paths rely on are NOT derived; they are stated once (``pure_axioms``), listed
in TRUSTED, and only ever used as hypotheses of a post-condition:
  (P1) for a pure state a spectral function of the reduced state of X equals that of the complement of X (Schmidt),
  (P2) adding / removing a subsystem of dimension 1 to / from X changes nothing,  (P3) the reduced state of nothing has
  entropy 0 (the state is normalised).

fdx / E4 providers (bottom of the file): simulate_counts labelling, the Pauli-string enumeration and normalisation of
pauli_decomp, the argument plumbing of pauli_correlations, correlation on a complete small grid with the REAL ikron.

Known failures on the unchanged tree (real defects, reproduced natively by ``replay``): see the report / index entry.
"""

import ast
import itertools
import os
import time

import z3

from vf.pyvc import (And, Arr, Contract, If, Implies, Loop, Max, Min, NS, Not, Opaque, Or, PyRaise, R, Unsupported, V, I, Z,
                     is_int, is_num, is_z3, register, REGISTRY)
from vf import lemmas
import vf.pyvc as P

CALC = "quimb/calc.py"
APX = "quimb/linalg/approx_spectral.py"
PID = ("C20",)
REAL = z3.RealSort()


# =====================================================================================================================
# abstract values and term encoders
# =====================================================================================================================


class SysSet:
    """a subsystem-set argument (int, tuple or any sequence, any order): membership per position 0..K-1"""

    def __init__(self, mem):
        self.mem = list(mem)

    def __repr__(self):
        return "SysSet{" + ",".join(str(q) for q, m in enumerate(self.mem) if m is True) + "}"


class St:
    """a state / operator value: V-term + (optionally) its matrix size and the physical subsystem sitting at each position"""

    def __init__(self, z, size=None, order=None, isvec=None):
        self.z, self.size, self.order, self.isvec = z, size, order, isvec

    def __repr__(self):
        return f"St({self.z})"


def unz(x):
    if isinstance(x, St):
        return x.z
    return Z(x)


def U(name, args, sort=V):
    """application of an uninterpreted leaf symbol (same name + argument sorts -> same symbol)"""
    zs = [unz(a) for a in args]
    return z3.Function(name, *[z.sort() for z in zs], sort)(*zs)


def PROD(xs):
    r = 1
    for x in reversed(list(xs)):
        r = x if (isinstance(r, int) and r == 1) else x * r
    return r


def zeq(a, b):
    if not is_z3(a) and not is_z3(b):
        return a == b
    return Z(a) == Z(b)


def mvec(x, K):
    """membership vector (per position) of a subsystem-set value: SysSet, int, or a sequence of ints"""
    if isinstance(x, SysSet):
        return list(x.mem)  # (a callee handed a dims list of another length gets a term over another symbol: never equal)
    if is_int(x):
        x = (x,)
    if isinstance(x, (tuple, list)) and all(is_int(e) for e in x):
        out = []
        for q in range(K):
            cs = [zeq(e, q) for e in x]
            out.append(True if any(c is True for c in cs) else (Or(*cs) if any(is_z3(c) for c in cs) else False))
        return out
    raise Unsupported(f"not a subsystem set: {x!r}")


def subsets(K, nonempty=False, proper=False):
    for bits in itertools.product((False, True), repeat=K):
        if nonempty and not any(bits):
            continue
        if proper and all(bits):
            continue
        yield bits


def sname(bits):
    return ".".join(str(q) for q, b in enumerate(bits) if b) or "-"


def t_ptr(p, dims, keep):
    return U(f"ptr{len(dims)}", [p, *dims, *keep])


def pure_axioms(dims, fn):
    """(P1)-(P3) for the spectral function  fn(membership vector) -> Real  of the reduced states of ONE pure state"""
    K = len(dims)
    ax = []
    for m in subsets(K):
        ax.append(fn(m) == fn(tuple(not x for x in m)))
        for q in range(K):
            m2 = tuple((not x) if j == q else x for j, x in enumerate(m))
            if m < m2:
                ax.append(Implies(dims[q] == 1, fn(m) == fn(m2)))
    return ax


def mark_case(cx, **kv):
    """mirror the case's concrete data in named constants, so that a failed obligation's model can be replayed"""
    for k, v in kv.items():
        if isinstance(v, bool):
            cx.assume(z3.Bool(f"case!{k}") == v)
        elif isinstance(v, int):
            cx.assume(z3.Int(f"case!{k}") == v)


def model_int(model, name, default=None):
    v = model.get(name)
    if v is None:
        return default
    try:
        return int(str(v))
    except ValueError:
        return default


class Base(Contract):
    """hooks shared by all contracts.  Products of dimensions are kept as MONOMIALS (multisets of the dimension symbols):
    ``prod`` registers its result, a product of two monomials is a monomial, and the floor division of a monomial by a
    sub-monomial is the exact quotient monomial (side condition ``dividend == divisor * quotient`` emitted as an ``enc``
    obligation; the divisor being non-zero is the engine's own ``divzero`` obligation).  This keeps the path conditions
    free of the general (sign-aware) floor-division encoding."""

    property_ids = PID
    nonlinear_hooks = True

    @staticmethod
    def _mono_table(cx):
        return cx.ghost.setdefault("_mono", {})

    def mono_of(self, cx, t):
        if isinstance(t, int) and t == 1:
            return ()
        if is_z3(t):
            e = self._mono_table(cx).get(t.get_id())
            if e is not None:
                return e[1]
        return None

    def mono_make(self, cx, factors):
        factors = tuple(sorted(factors, key=lambda f: str(f)))
        t = PROD(factors)
        if is_z3(t):
            self._mono_table(cx)[t.get_id()] = (t, factors)
        return t

    def call(self, cx, name, args, kwargs, node):
        if name == "prod":
            fs = list(args[0])
            if all(is_z3(f) and z3.is_const(f) and z3.is_int(f) for f in fs):
                return self.mono_make(cx, fs)
            return PROD(fs)
        if name == "__nlmul__":
            ma, mb = self.mono_of(cx, args[0]), self.mono_of(cx, args[1])
            if ma is not None and mb is not None:
                return self.mono_make(cx, ma + mb)
            return NotImplemented
        if name == "__nldivmod__":
            ma, mb = self.mono_of(cx, args[0]), self.mono_of(cx, args[1])
            if ma is None or mb is None:
                return NotImplemented
            rest = list(ma)
            for f in mb:
                hit = [k for k, g in enumerate(rest) if g.eq(f)]
                if not hit:
                    return NotImplemented
                rest.pop(hit[0])
            q = self.mono_make(cx, rest)
            cx.oblige(f"enc@{node.lineno}:exact-monomial-division", "enc", Z(args[0]) == Z(args[1]) * Z(q), node.lineno)
            return q, 0
        if name == "int2tup":
            # [leaf] an int becomes a 1-tuple, any other sequence a tuple: membership and order are unchanged
            x = args[0]
            return (x,) if is_int(x) else (tuple(x) if isinstance(x, list) else x)
        if name == "__contains__" and isinstance(args[0], SysSet):
            q = args[1]
            if isinstance(q, int):
                return args[0].mem[q] if 0 <= q < len(args[0].mem) else False
            return Or(*[And(q == j, m) for j, m in enumerate(args[0].mem)])
        if name == "__binop__" and args[0] == "Add" and isinstance(args[1], SysSet) and isinstance(args[2], SysSet):
            # concatenation of two index sequences: membership is the union
            return SysSet([(a is True or b is True) if not (is_z3(a) or is_z3(b)) else Or(a, b)
                           for a, b in zip(args[1].mem, args[2].mem)])
        if name == "check_dims_and_indices":
            return None  # own contract (CheckDimsAndIndices): raises iff an index is out of range -- SysSet indices are in range
        if name == "__isinstance__":
            v, cname = args
            if cname in ("numbers.Integral", "int", "numbers.Number"):
                return is_int(v) if cname != "numbers.Number" else is_num(v)
        if name == "ptr":
            p, dims, keep = args
            K = len(dims)
            m = mvec(keep, K)
            return St(t_ptr(p, dims, m), size=PROD([d for d, b in zip(dims, m) if b is True]) if all(
                isinstance(b, bool) for b in m) else None, isvec=False)
        # a local closure (nested def) being called by name
        if name in cx.env and isinstance(cx.env[name], tuple) and len(cx.env[name]) == 3 and cx.env[name][0] == "def":
            return cx.call_closure(cx.env[name], args, kwargs)
        return NotImplemented


def dims_inputs(cx, K):
    return [cx.Int(f"d{i}") for i in range(K)]


def dims_ge1(dims):
    return And(*[d >= 1 for d in dims])


def opts_case(cx):
    """the **approx_opts of the shortcut functions: one arbitrary option (pass-through is what is checked)"""
    return {"some_opt": cx.Opaque("some_opt")}


def thresh_cases():
    return ("None", "int")


def dims_from_model(model, K, lo=1):
    out = []
    for i in range(K):
        v = model_int(model, f"d{i}", None)
        out.append(max(lo, v) if v is not None else 2)
    return out


# =====================================================================================================================
# check_dims_and_indices
# =====================================================================================================================


@register
class CheckDimsAndIndices(Base):
    """raises ValueError iff some index of some tuple is outside range(len(dims)); otherwise returns None"""

    target = f"{CALC}::check_dims_and_indices"
    floor = 4

    def cases(self):
        return [NS(name=f"K={k},lens={la}+{lb}", K=k, la=la, lb=lb) for k in (1, 3) for la in (0, 1, 2) for lb in (1, 2)]

    def inputs(self, cx, case):
        self.idx = [cx.Int(f"a{i}") for i in range(case.la)] + [cx.Int(f"b{i}") for i in range(case.lb)]
        return dict(dims=dims_inputs(cx, case.K), syss=(tuple(self.idx[:case.la]), tuple(self.idx[case.la:])))

    def in_range(self, a):
        return And(*[And(0 <= i, i < len(a.dims)) for t in a.syss for i in t])

    def ensures(self, a, r, cx, case):
        return {"returns-None-only-when-all-in-range": And(r is None, self.in_range(a))}

    def ensures_raise(self, a, exc, cx, case):
        return {"raises-ValueError-only-when-some-index-out-of-range": And(exc == "ValueError", Not(self.in_range(a)))}


# =====================================================================================================================
# gen_bipartite_spectral_fn.bipartite_spectral_fn  (entropy_subsys, tr_sqrt_subsys)
# =====================================================================================================================


class ShortcutBase(Base):
    """shared by the subsystem-shortcut functions: K, the set A as a case, symbolic dims, approx_thresh None | int"""

    KS = (1, 2, 3, 4)

    def cases(self):
        return [NS(name=f"K={k},A={sname(A)},thresh={t}", K=k, A=A, thresh=t) for k in self.KS for A in subsets(k)
                for t in thresh_cases()]

    def base_inputs(self, cx, case):
        mark_case(cx, K=case.K, **{f"A{q}": b for q, b in enumerate(case.A)})
        return dict(dims=dims_inputs(cx, case.K), sysa=SysSet(case.A),
                    approx_thresh=None if case.thresh == "None" else cx.Int("approx_thresh"), approx_opts=opts_case(cx))

    def requires(self, a, case):
        return {"dims>=1": dims_ge1(a.dims)}


@register
class BipartiteSpectralFn(ShortcutBase):
    """returns  pure_default only when the complement of A is trivial (all its dimensions 1);  otherwise
    exact_fn(ptr(psi, dims, X)) or approx_fn(psi, dims, X, **approx_opts) with X = A or X = complement of A (same non-zero
    spectrum, P1), the approximate route exactly when a threshold is given and the size of the chosen side reaches it"""

    target = f"{APX}::gen_bipartite_spectral_fn.bipartite_spectral_fn"
    floor = 40

    def inputs(self, cx, case):
        d = self.base_inputs(cx, case)
        d["psi_ab"] = cx.Opaque("psi_ab")
        return d

    def attr(self, cx, base, attr, node):
        if base is None and attr == "pure_default":
            return cx.ghost.setdefault("pure_default", z3.Real("pure_default"))
        return NotImplemented

    def call(self, cx, name, args, kwargs, node):
        if name == "exact_fn":
            return ("exact", args, kwargs)
        if name == "approx_fn":
            return ("approx", args, kwargs)
        return super().call(cx, name, args, kwargs, node)

    def ensures(self, a, r, cx, case):
        K, A = case.K, list(case.A)
        notA = [not b for b in A]
        if is_z3(r):
            return {"default-value-returned": zeq(r, cx.ghost.get("pure_default", z3.Real("pure_default"))),
                    "default-only-when-the-complement-is-trivial": And(*[a.dims[q] == 1 for q in range(K) if not A[q]])}
        ok = isinstance(r, tuple) and len(r) == 3 and r[0] in ("exact", "approx")
        d = {"returns-exact-or-approx-value": ok}
        if not ok:
            return d
        kind, args, kw = r
        size = lambda m: PROD([a.dims[q] for q in range(K) if m[q]])
        if kind == "exact":
            st = args[0] if len(args) == 1 and isinstance(args[0], St) else None
            d["exact_fn-of-the-reduced-state-only"] = st is not None and not kw
            if st is None:
                return d
            alts = [(m, t_ptr(a.psi_ab, a.dims, m)) for m in (A, notA)]
            d["reduced-state-of-A-or-of-its-complement"] = Or(*[st.z == t for m, t in alts])
            if a.approx_thresh is not None:
                d["exact-only-below-threshold"] = Or(*[And(st.z == t, size(m) < a.approx_thresh) for m, t in alts])
            return d
        ok = len(args) == 3 and isinstance(args[0], Opaque)
        d["approx_fn(psi, dims, sys, **opts)"] = ok
        if not ok:
            return d
        m = mvec(args[2], K)
        d["same-state"] = args[0].z == a.psi_ab.z
        d["same-dims"] = isinstance(args[1], (list, tuple)) and len(args[1]) == K and And(*[zeq(x, y) for x, y in zip(args[1], a.dims)])
        d["subsystem-is-A-or-its-complement"] = m == A or m == notA
        d["options-passed-through"] = set(kw) == set(a.approx_opts) and all(kw[k] is a.approx_opts[k] for k in kw)
        d["approx-only-with-threshold-reached"] = a.approx_thresh is not None and size(m) >= a.approx_thresh
        return d


# =====================================================================================================================
# mutinf_subsys / mutinf
# =====================================================================================================================


def disjoint_pairs(K):
    """all (A, B): disjoint, both non-empty"""
    for A in subsets(K, nonempty=True):
        for B in subsets(K, nonempty=True):
            if not any(x and y for x, y in zip(A, B)):
                yield A, B


def union(A, B):
    return [bool(x or y) for x, y in zip(A, B)]


def t_SP(psi, dims, m):
    """[leaf entropy_subsys] entropy of the reduced state of the pure state psi on the subsystem SET m"""
    return U(f"entropy_subsys{len(dims)}", [psi, *dims, *m], REAL)


def same_dims(x, dims):
    return isinstance(x, (list, tuple)) and len(x) == len(dims) and And(*[zeq(u, v) for u, v in zip(x, dims)])


def same_opts(kw, expect):
    """keyword arguments handed on are exactly `expect` (identity for opaque values, equality for numbers)"""
    if set(kw) != set(expect):
        return False
    cs = []
    for k in kw:
        u, v = kw[k], expect[k]
        if u is v:
            continue
        if u is None or v is None or isinstance(u, Opaque) or isinstance(v, Opaque):
            return False
        cs.append(zeq(u, v))
    return And(*cs)


class PairBase(Base):
    KS = (2, 3, 4)

    def cases(self):
        return [NS(name=f"K={k},A={sname(A)},B={sname(B)},thresh={t}", K=k, A=A, B=B, thresh=t)
                for k in self.KS for A, B in disjoint_pairs(k) for t in thresh_cases()]

    def inputs(self, cx, case):
        mark_case(cx, K=case.K, **{f"A{q}": b for q, b in enumerate(case.A)}, **{f"B{q}": b for q, b in enumerate(case.B)})
        return dict(psi_abc=cx.Opaque("psi_abc"), dims=dims_inputs(cx, case.K), sysa=SysSet(case.A), sysb=SysSet(case.B),
                    approx_thresh=None if case.thresh == "None" else cx.Int("approx_thresh"), approx_opts=opts_case(cx))

    def requires(self, a, case):
        return {"dims>=1": dims_ge1(a.dims)}

    def all_opts(self, a):
        return dict(approx_thresh=a.approx_thresh, **a.approx_opts)


@register
class MutinfSubsys(PairBase):
    """result == S(A) + S(B) - S(A u B)  (entropies of the reduced states of the SAME pure state on the SAME dims; with
    P1-P3 as hypotheses for the route taken when everything outside A u B is trivial); every entropy_subsys call gets the
    state, the dims and approx_thresh / **approx_opts unchanged"""

    target = f"{CALC}::mutinf_subsys"
    floor = 100

    def call(self, cx, name, args, kwargs, node):
        if name == "entropy_subsys":
            psi, dims, sys_ = args
            cx.events.append(("entropy_subsys", psi, dims, kwargs))
            return t_SP(psi, dims, mvec(sys_, len(dims)))
        return super().call(cx, name, args, kwargs, node)

    def ensures(self, a, r, cx, case):
        A, B = list(case.A), list(case.B)
        S = lambda m: t_SP(a.psi_abc, a.dims, m)
        calls = [e for e in cx.events if e[0] == "entropy_subsys"]
        d = {"entropies-of-the-same-state": bool(calls) and all(e[1] is a.psi_abc for e in calls),
             "same-dims": And(*[same_dims(e[2], a.dims) for e in calls]),
             "threshold-and-options-passed-to-every-call": And(*[same_opts(e[3], self.all_opts(a)) for e in calls]),
             "S(A)+S(B)-S(AB)": Implies(And(*pure_axioms(a.dims, S), S((False,) * case.K) == 0),
                                        R(r) == S(A) + S(B) - S(union(A, B)))}
        return d


@register
class Mutinf(Base):
    """operator: H(ptr A) + H(ptr complement of A) - H(p, rank=rank);  ket: 2 S(A) = S(A) + S(B) - S(AB) under P1-P3"""

    target = f"{CALC}::mutinf"
    floor = 60

    def cases(self):
        return [NS(name=f"K={k},A={sname(A)},{kind}", K=k, A=A, isop=kind != "ket", rank=kind == "op,rank")
                for k in (1, 2, 3, 4) for A in subsets(k, nonempty=True) for kind in ("ket", "op", "op,rank")]

    def inputs(self, cx, case):
        return dict(p=cx.Opaque("p"), dims=dims_inputs(cx, case.K), sysa=SysSet(case.A),
                    rank=cx.Int("rank") if case.rank else None)

    def requires(self, a, case):
        return {"dims>=1": dims_ge1(a.dims)}

    @staticmethod
    def H(x, rank=None):
        """[leaf entropy] von Neumann entropy of an operator (rank: hint for a partial eigen-decomposition)"""
        return U("entropy", [x], REAL) if rank is None else U("entropy_rank", [x, rank], REAL)

    def call(self, cx, name, args, kwargs, node):
        if name == "isop":
            return cx.case.isop
        if name == "entropy":
            if len(args) != 1 or set(kwargs) - {"rank"}:
                raise Unsupported("entropy call shape")
            return self.H(args[0], kwargs.get("rank"))
        if name == "entropy_subsys":
            psi, dims, sys_ = args
            if kwargs or psi is not cx.old.p or same_dims(dims, cx.old.dims) is False:
                raise Unsupported("entropy_subsys call shape")
            cx.oblige(f"call-pre@{node.lineno}:entropy_subsys:same-dims", "call-pre", same_dims(dims, cx.old.dims), node.lineno)
            return t_SP(psi, dims, mvec(sys_, len(dims)))
        return super().call(cx, name, args, kwargs, node)

    def ensures(self, a, r, cx, case):
        A = list(case.A)
        notA = [not b for b in A]
        if case.isop:
            return {"H(A)+H(B)-H(AB,rank)": R(r) == self.H(t_ptr(a.p, a.dims, A)) + self.H(t_ptr(a.p, a.dims, notA)) - self.H(a.p, a.rank)}
        S = lambda m: t_SP(a.p, a.dims, m)
        return {"S(A)+S(B)-S(AB)-of-a-pure-state": Implies(And(*pure_axioms(a.dims, S), S((False,) * case.K) == 0),
                                                         R(r) == S(A) + S(notA) - S([True] * case.K))}


# =====================================================================================================================
# schmidt_gap
# =====================================================================================================================


class EigList:
    """result of eigvalsh(rho, k=k, which=which): min(k, size of rho) eigenvalues"""

    def __init__(self, rho, k, which, n):
        self.rho, self.k, self.which, self.n = rho, k, which, n


def clip_dims(ds):
    """dimensions of a solver model made small: 1 stays 1, anything larger becomes 2 or 3 (order relations between two
    dimensions are not preserved; the defects replayed depend on 'is 1' / 'is larger than 1' only)"""
    return [1 if d <= 1 else (2 if d == 2 else 3) for d in ds]


@register
class SchmidtGap(Base):
    """|l_0 - l_1| of eigvalsh(ptr(psi, dims, X), k=2, which='LM') with X = A or X = complement of A (P1); the constant 1.0
    only when one side is trivial; reading l_1 requires that the reduced state has at least two eigenvalues"""

    target = f"{CALC}::schmidt_gap"
    floor = 40
    bounded = ("entropies",)

    def cases(self):
        return [NS(name=f"K={k},A={sname(A)}", K=k, A=A) for k in (1, 2, 3, 4) for A in subsets(k, nonempty=True)]

    def inputs(self, cx, case):
        mark_case(cx, K=case.K, **{f"A{q}": b for q, b in enumerate(case.A)})
        return dict(psi_ab=cx.Opaque("psi_ab"), dims=dims_inputs(cx, case.K), sysa=SysSet(case.A))

    def requires(self, a, case):
        return {"dims>=1": dims_ge1(a.dims)}

    @staticmethod
    def EV(rho, k, which, idx):
        return U(f"eigvalsh_{which}", [rho, k, idx], REAL)

    def call(self, cx, name, args, kwargs, node):
        if name == "eigvalsh":
            rho = args[0]
            if not isinstance(rho, St) or rho.size is None or set(kwargs) != {"k", "which"}:
                raise Unsupported("eigvalsh call shape")
            # [leaf] partial eigen-decomposition: min(k, size) eigenvalues, ordered by the rule `which`
            return EigList(rho, kwargs["k"], kwargs["which"], Min(kwargs["k"], rho.size))
        if name == "__getitem__" and isinstance(args[0], EigList):
            el, idx = args
            cx.oblige(f"index@{node.lineno}:eigenvalue-{idx}-exists", "safety", And(idx >= -el.n, idx < el.n), node.lineno)
            return self.EV(el.rho, el.k, el.which, idx)
        return super().call(cx, name, args, kwargs, node)

    def ensures(self, a, r, cx, case):
        K, A = case.K, list(case.A)
        notA = [not b for b in A]
        if not is_z3(r):
            return {"constant-is-1": r == 1.0,
                    "constant-only-when-one-side-is-trivial": Or(And(*[a.dims[q] == 1 for q in range(K) if not A[q]]),
                                                                 And(*[a.dims[q] == 1 for q in range(K) if A[q]]))}
        alts = []
        for m in (A, notA):
            rho = t_ptr(a.psi_ab, a.dims, m)
            x = self.EV(rho, 2, "LM", 0) - self.EV(rho, 2, "LM", 1)
            alts.append(R(r) == If(x >= 0, x, -x))
        return {"gap-of-the-two-largest-eigenvalues-of-the-reduced-state-of-A-or-its-complement": Or(*alts)}

    def replay(self, model):
        import numpy as np
        import quimb as qu

        K = model_int(model, "case!K")
        if K is None:
            return dict(note="no case data in the model", reproduced=False)
        A = [q for q in range(K) if str(model.get(f"case!A{q}")) == "True"]
        dims = clip_dims(dims_from_model(model, K))
        D = int(np.prod(dims))
        psi = qu.qarray((np.arange(1, D + 1) * (1 + 0.5j)).reshape(-1, 1))
        psi = psi / np.linalg.norm(psi)
        call = f"schmidt_gap(psi[{D}], dims={dims}, sysa={tuple(A)})"
        rho = psi @ psi.conj().T
        t = np.asarray(rho).reshape(dims + dims)
        keep = A
        lam = None
        try:
            from drivers.c20 import ptrace
            lam = np.sort(np.linalg.eigvalsh(ptrace(np.asarray(psi), dims, keep)))[::-1]
        except Exception:  # noqa
            pass
        ref = float(lam[0] - (lam[1] if len(lam) > 1 else 0.0)) if lam is not None else None
        try:
            got = qu.schmidt_gap(psi, dims, tuple(A))
        except Exception as e:  # noqa
            return dict(call=call, observed=f"{type(e).__name__}: {e}", expected=ref, reproduced=True)
        bad = ref is not None and abs(float(got) - ref) > 1e-8
        return dict(call=call, observed=float(got), expected=ref, reproduced=bool(bad))


# =====================================================================================================================
# partial_transpose_norm / logneg / negativity / logneg_subsys
# =====================================================================================================================


def t_ptrans(p, dims, m):
    """[callee partial_transpose, contract in C15] the partial transpose of p over the subsystem SET m"""
    return U(f"partial_transpose{len(dims)}", [p, *dims, *m])


def t_PTN(p, dims, m):
    """[callee partial_transpose_norm] trace norm of the partial transpose of p over the subsystem SET m"""
    return U(f"partial_transpose_norm{len(dims)}", [p, *dims, *m], REAL)


def t_log2(x):
    return U("log2", [R(x)], REAL)


@register
class PartialTransposeNorm(Base):
    """ket: tr_sqrt(ptr(p, dims, X)) ** 2 with X = A or its complement (P1);  operator:
    norm_trace_dense(partial_transpose(p, dims, A), isherm=True)"""

    target = f"{CALC}::partial_transpose_norm"
    floor = 40

    def cases(self):
        return [NS(name=f"K={k},A={sname(A)},{kind}", K=k, A=A, isvec=kind == "ket")
                for k in (1, 2, 3, 4) for A in subsets(k, nonempty=True) for kind in ("ket", "op")]

    def inputs(self, cx, case):
        return dict(p=cx.Opaque("p"), dims=dims_inputs(cx, case.K), sysa=SysSet(case.A))

    def requires(self, a, case):
        return {"dims>=1": dims_ge1(a.dims)}

    def call(self, cx, name, args, kwargs, node):
        if name == "isvec":
            return cx.case.isvec
        if name == "tr_sqrt" and len(args) == 1 and not kwargs:
            return U("tr_sqrt", [args[0]], REAL)
        if name == "partial_transpose" and len(args) == 3 and not kwargs:
            p, dims, sysa = args
            cx.oblige(f"call-pre@{node.lineno}:partial_transpose:same-dims", "call-pre", same_dims(dims, cx.old.dims), node.lineno)
            return St(t_ptrans(p, cx.old.dims, mvec(sysa, len(dims))))
        if name == "norm_trace_dense" and len(args) == 1:
            return U("norm_trace_dense:" + ",".join(f"{k}={v}" for k, v in sorted(kwargs.items())), [args[0]], REAL)
        return super().call(cx, name, args, kwargs, node)

    def ensures(self, a, r, cx, case):
        A = list(case.A)
        notA = [not b for b in A]
        if case.isvec:
            alts = []
            for m in (A, notA):
                t = U("tr_sqrt", [t_ptr(a.p, a.dims, m)], REAL)
                alts.append(R(r) == t * t)
            return {"(tr sqrt of the reduced state of A or its complement)^2": Or(*alts)}
        return {"trace-norm-of-the-partial-transpose-over-A-or-its-complement": Or(*[
            R(r) == U("norm_trace_dense:isherm=True", [t_ptrans(a.p, a.dims, m)], REAL) for m in (A, notA)])}


class NegBase(Base):
    """logneg / negativity: one call of partial_transpose_norm with (p, dims, sysa) unchanged"""

    floor = 3

    def cases(self):
        return [NS(name=f"K={k}", K=k) for k in (1, 2, 3)]

    def inputs(self, cx, case):
        return dict(p=cx.Opaque("p"), dims=dims_inputs(cx, case.K),
                    sysa=SysSet([cx.Bool(f"inA{q}") for q in range(case.K)]))

    def call(self, cx, name, args, kwargs, node):
        if name == "partial_transpose_norm" and len(args) == 3 and not kwargs:
            p, dims, sysa = args
            if not isinstance(dims, (list, tuple)):
                raise Unsupported("dims argument")
            return t_PTN(p, dims, mvec(sysa, len(dims)))
        if name == "log2":
            return t_log2(args[0])
        return super().call(cx, name, args, kwargs, node)


@register
class Logneg(NegBase):
    target = f"{CALC}::logneg"

    def ensures(self, a, r, cx, case):
        x = t_log2(t_PTN(a.p, a.dims, a.sysa.mem))
        return {"max(0, log2 ||rho^T_A||)": R(r) == If(x >= 0, x, 0)}


@register
class Negativity(NegBase):
    target = f"{CALC}::negativity"

    def ensures(self, a, r, cx, case):
        x = (t_PTN(a.p, a.dims, a.sysa.mem) - 1) / 2
        return {"max(0, (||rho^T_A|| - 1) / 2)": R(r) == If(x >= 0, x, 0)}


class PyIter:
    """iter(<concrete sequence>): a python iterator consumed by next()"""

    def __init__(self, items):
        self.items = list(items)


@register
class LognegSubsys(PairBase):
    """three routes.  C trivial (all dimensions outside A u B are 1):  max(log2(tr_sqrt_subsys(psi, dims, A)^2), 0);
    threshold reached: logneg_subsys_approx(psi, dims, A, B, **opts); otherwise logneg(ptr(psi, dims, A u B), nd, na) where
    nd lists the dimensions of the kept subsystems in increasing index order and na the POSITIONS of A's members in that
    list -- i.e. the callee is asked for the same physical bipartition A | B of the reduced state"""

    target = f"{CALC}::logneg_subsys"
    floor = 100
    KS = (2, 3, 4)

    def call(self, cx, name, args, kwargs, node):
        if name == "tr_sqrt_subsys":
            psi, dims, sys_ = args
            cx.events.append(("tr_sqrt_subsys", psi, dims, kwargs))
            return U(f"tr_sqrt_subsys{len(dims)}", [psi, *dims, *mvec(sys_, len(dims))], REAL)
        if name == "logneg_subsys_approx":
            psi, dims, sa, sb = args
            cx.events.append(("logneg_subsys_approx", psi, dims, kwargs))
            K = len(dims)
            return U(f"logneg_subsys_approx{K}", [psi, *dims, *mvec(sa, K), *mvec(sb, K)], REAL)
        if name == "logneg":
            rho, nd, ns = args
            if kwargs or not isinstance(nd, (list, tuple)):
                raise Unsupported("logneg call shape")
            cx.events.append(("logneg", rho, nd, ns))
            return U(f"logneg{len(nd)}", [rho, *nd, *mvec(ns, len(nd))], REAL)
        if name == "log2":
            return t_log2(args[0])
        if name == "iter" and len(args) == 1 and isinstance(args[0], (range, list, tuple)):
            return PyIter(args[0])
        if name == "next" and len(args) == 1 and isinstance(args[0], PyIter):
            if not args[0].items:
                raise PyRaise("StopIteration", node.lineno)
            return args[0].items.pop(0)
        return super().call(cx, name, args, kwargs, node)

    def ensures(self, a, r, cx, case):
        K, A, B = case.K, list(case.A), list(case.B)
        AB = union(A, B)
        C_trivial = And(*[a.dims[q] == 1 for q in range(K) if not AB[q]])
        sz_ab = PROD([a.dims[q] for q in range(K) if AB[q]])
        reached = False if a.approx_thresh is None else sz_ab >= a.approx_thresh
        ev = [e for e in cx.events if e[0] in ("tr_sqrt_subsys", "logneg_subsys_approx", "logneg")]
        d = {"one-leaf-call": len(ev) == 1}
        if len(ev) != 1:
            return d
        e = ev[0]
        if e[0] == "tr_sqrt_subsys":
            t = U(f"tr_sqrt_subsys{K}", [a.psi_abc, *a.dims, *A], REAL)
            x = t_log2(t * t)
            d.update({"pure-bipartition-route-only-when-C-is-trivial": C_trivial,
                      "same-state": e[1] is a.psi_abc, "same-dims": same_dims(e[2], a.dims),
                      "threshold-and-options-passed": same_opts(e[3], self.all_opts(a)),
                      "max(log2((tr sqrt rho_A)^2), 0)": R(r) == If(x >= 0, x, 0)})
        elif e[0] == "logneg_subsys_approx":
            d.update({"approx-route-only-when-C-non-trivial-and-threshold-reached": And(Not(C_trivial), reached),
                      "same-state": e[1] is a.psi_abc, "same-dims": same_dims(e[2], a.dims),
                      "options-passed": same_opts(e[3], a.approx_opts),
                      "logneg_subsys_approx(psi, dims, A, B)": R(r) == U(f"logneg_subsys_approx{K}", [a.psi_abc, *a.dims, *A, *B], REAL)})
        else:
            kept = [q for q in range(K) if AB[q]]
            nd = [a.dims[q] for q in kept]
            na = [A[q] for q in kept]
            rho = t_ptr(a.psi_abc, a.dims, AB)
            d.update({"exact-route-only-when-C-non-trivial-and-below-threshold": And(Not(C_trivial), Not(reached)),
                      "dims-of-the-kept-subsystems-in-index-order": isinstance(e[2], (list, tuple)) and len(e[2]) == len(nd)
                      and And(*[zeq(x, y) for x, y in zip(e[2], nd)]),
                      "A-renumbered-to-its-positions-among-the-kept": mvec(e[3], len(nd)) == na if len(e[2]) == len(nd) else False,
                      "logneg-of-the-reduced-state-across-A|B": R(r) == U(f"logneg{len(nd)}", [rho, *nd, *na], REAL)})
        return d


# =====================================================================================================================
# two-party measures: one_way_classical_information, quantum_discord
# =====================================================================================================================


def has_yield(node):
    """is this def a generator function (a yield in its own body, nested defs excluded)?"""
    stack = list(ast.iter_child_nodes(node))
    while stack:
        ch = stack.pop()
        if isinstance(ch, (ast.FunctionDef, ast.Lambda, ast.ClassDef)):
            continue
        if isinstance(ch, (ast.Yield, ast.YieldFrom)):
            return True
        stack.extend(ast.iter_child_nodes(ch))
    return False


class ClosureBase(Base):
    """calls of local closures by name; a generator closure is identified with the tuple of the values it yields"""

    def call(self, cx, name, args, kwargs, node):
        clo = cx.env.get(name)
        if isinstance(clo, tuple) and len(clo) == 3 and clo[0] == "def" and has_yield(clo[1]):
            saved = getattr(cx, "yielded", None)
            cx.yielded = []
            try:
                cx.call_closure(clo, args, kwargs)
                return tuple(cx.yielded)
            finally:
                if saved is None:
                    del cx.yielded
                else:
                    cx.yielded = saved
        return super().call(cx, name, args, kwargs, node)


def t_H(x):
    return U("entropy", [x], REAL)


@register
class OneWayClassicalInformation(ClosureBase):
    """J(A|B) for the projectors {prj_j}:  H(rho_A) - sum_j q_j H(rho_A|j)  with  M_j = 1 (x) prj_j  acting on the SECOND
    party,  q_j = tr(M_j rho),  rho_A|j = ptr(M_j rho, (2,2), keep the FIRST party) / q_j;  precomp_func=True returns the
    function of the projectors"""

    target = f"{CALC}::one_way_classical_information"
    floor = 4

    def cases(self):
        return [NS(name=f"M={m},precomp_func={pc}", M=m, pc=pc) for m in (1, 2, 3) for pc in (False, True)]

    def inputs(self, cx, case):
        prjs = tuple(cx.Opaque(f"prj{j}") for j in range(case.M))
        cx.ghost["prjs"] = prjs
        return dict(p_ab=cx.Opaque("p_ab"), prjs=None if case.pc else prjs, precomp_func=case.pc)

    def call(self, cx, name, args, kwargs, node):
        if name == "entropy" and len(args) == 1 and not kwargs:
            return t_H(args[0])
        if name == "eye" and args == [2] and not kwargs:
            return St(U("eye2", []))
        if name == "__binop__" and args[0] == "BitAnd":
            return St(U("kron", [args[1], args[2]]))  # [leaf] `a & b` of quimb arrays is the Kronecker product
        if name == "__binop__" and args[0] == "Div" and isinstance(args[1], St) and is_z3(args[2]):
            return St(U("divide_by", [args[1], R(args[2])]))
        if name == "dot" and len(args) == 2:
            return St(U("dot", args))
        if name == "tr" and len(args) == 1:
            return U("tr", args, REAL)
        return super().call(cx, name, args, kwargs, node)

    def spec(self, p_ab, prjs):
        tot = 0
        for prj in prjs:
            pj = U("dot", [U("kron", [U("eye2", []), prj]), p_ab])
            q = U("tr", [pj], REAL)
            tot = tot + q * t_H(U("divide_by", [t_ptr(pj, (2, 2), (True, False)), q]))
        return t_H(t_ptr(p_ab, (2, 2), (True, False))) - tot

    def ensures(self, a, r, cx, case):
        prjs = cx.ghost["prjs"]
        if case.pc:
            ok = isinstance(r, tuple) and len(r) == 3 and r[0] == "def"
            d = {"returns-a-function-of-the-projectors": ok}
            if not ok:
                return d
            r = cx.call_closure(r, [prjs])
        if not is_z3(r):
            return {"returns-a-number": False}
        return {"H(A) - sum_j q_j H(A|j), measured party = second, entropies of the first": R(r) == self.spec(a.p_ab, prjs)}


@register
class QuantumDiscord(ClosureBase):
    """the two-party state handed to mutual_information and one_way_classical_information is the reduced state of the pair
    {sysa, sysb} (the state itself for two subsystems) with sysa as its FIRST party and sysb as its SECOND (measured) party --
    D(A|B) = min over projective measurements on B of I(A:B) - J(A|B); the objective is I - J for the complementary
    projectors of a Bloch direction; the optimiser's value is returned, ValueError only when it reports failure"""

    target = f"{CALC}::quantum_discord"
    floor = 12
    bounded = ("two-qubit",)
    raises = {"ValueError": True}

    def cases(self):
        return [NS(name=f"K={k}", K=k) for k in (2, 3, 4)]

    def inputs(self, cx, case):
        mark_case(cx, K=case.K)
        return dict(p=cx.Opaque("p"), dims=dims_inputs(cx, case.K), sysa=cx.Int("sysa"), sysb=cx.Int("sysb"),
                    method="COBYLA", tol=cx.Real("tol"), maxiter=cx.Int("maxiter"))

    def requires(self, a, case):
        K = case.K
        return {"dims>=1": dims_ge1(a.dims), "two-distinct-subsystems": And(0 <= a.sysa, a.sysa < K, 0 <= a.sysb, a.sysb < K,
                                                                            a.sysa != a.sysb)}

    def attr(self, cx, base, attr, node):
        if base is None and attr == "pi":
            import math
            return math.pi
        return NotImplemented

    def call(self, cx, name, args, kwargs, node):
        if name == "ptr":
            p, dims, keep = args
            st = super().call(cx, name, args, kwargs, node)
            if isinstance(keep, tuple) and len(keep) == 2:
                # [leaf ptr] the kept subsystems appear in increasing index order
                st.order = [Min(keep[0], keep[1]), Max(keep[0], keep[1])]
            return st
        if name == "qu" and len(args) == 2 and args[1] == "dop":
            return St(U("dop", [args[0]]), order=[0, 1])
        if name == "mutual_information" and len(args) == 1 and not kwargs and isinstance(args[0], St):
            cx.events.append(("mutinf", args[0]))
            return U("mutinf_2x2", [args[0]], REAL)
        if name == "one_way_classical_information":
            ok = len(args) == 2 and isinstance(args[0], St) and args[1] is None and kwargs == {"precomp_func": True}
            if not ok:
                raise Unsupported("one_way_classical_information call shape")
            cx.events.append(("owci", args[0]))
            return ("owci-fn", args[0])
        if name == "owci" and isinstance(cx.env.get("owci"), tuple) and cx.env["owci"][0] == "owci-fn":
            prjs = args[0]
            if not (isinstance(prjs, tuple) and len(prjs) == 2):
                raise Unsupported("owci argument")
            # [callee one_way_classical_information] J(first | second measured with the projectors)
            return U("owci", [cx.env["owci"][1], prjs[0], prjs[1]], REAL)
        if name in ("sin", "cos") and len(args) == 1:
            return U(name, [R(args[0])], REAL)
        if name == "bloch_state" and len(args) == 3 and not kwargs:
            return St(U("bloch_state", [R(x) for x in args]))
        if name == "eye" and args == [2] and not kwargs:
            return St(U("eye2", []))
        if name == "__binop__" and args[0] == "Sub" and isinstance(args[1], St) and isinstance(args[2], St):
            return St(U("minus", [args[1], args[2]]))
        if name == "minimize":
            obj = args[0]
            ok = isinstance(obj, tuple) and len(obj) == 3 and obj[0] == "def"
            if not ok:
                raise Unsupported("minimize objective")
            cx.ghost["objective"] = obj
            cx.ghost["opt_fun"] = cx.Real("opt_fun")
            return NS(success=cx.Bool("opt_success"), fun=cx.ghost["opt_fun"], message=cx.Opaque("opt_message"))
        return super().call(cx, name, args, kwargs, node)

    def ensures(self, a, r, cx, case):
        ev = {e[0]: e[1] for e in cx.events}
        ok = "mutinf" in ev and "owci" in ev and "objective" in cx.ghost
        d = {"mutual-information, one-way-information and an optimisation": ok}
        if not ok:
            return d
        st = ev["owci"]
        d["mutual-information-of-the-same-state"] = ev["mutinf"].z == st.z
        if case.K > 2:
            d["reduced-state-of-the-pair"] = st.z == t_ptr(a.p, a.dims, mvec((a.sysa, a.sysb), case.K))
        else:
            d["the-state-itself-as-operator"] = st.z == U("dop", [a.p])
        d["first-party-is-sysa"] = st.order is not None and zeq(st.order[0], a.sysa)
        d["second-(measured)-party-is-sysb"] = st.order is not None and zeq(st.order[1], a.sysb)
        # the objective, evaluated on arbitrary angles
        th, ph = z3.Real("theta!obj"), z3.Real("phi!obj")
        val = cx.call_closure(cx.ghost["objective"], [(th, ph)])
        s, c = (lambda x: U("sin", [x], REAL)), (lambda x: U("cos", [x], REAL))
        prj = U("bloch_state", [s(th) * c(ph), s(th) * s(ph), c(th)])
        d["objective = I - J over a projector of the Bloch sphere and its complement"] = is_z3(val) and R(val) == \
            U("mutinf_2x2", [st], REAL) - U("owci", [st, prj, U("minus", [U("eye2", []), prj])], REAL)
        d["returns-the-optimum-found"] = is_z3(r) and r.eq(cx.ghost["opt_fun"])
        return d

    def replay(self, model):
        import numpy as np
        import quimb as qu

        K, sa, sb = model_int(model, "case!K"), model_int(model, "sysa"), model_int(model, "sysb")
        if None in (K, sa, sb) or sa == sb or not (0 <= sa < K and 0 <= sb < K):
            return dict(note="no usable (K, sysa, sysb) in the model", reproduced=False)
        # classical on B: rho = 1/2 |0><0| (x) |0><0|_B + 1/2 |+><+| (x) |1><1|_B  ->  D(A|B) = 0 exactly, D(B|A) > 0
        k0, k1 = np.array([[1, 0], [0, 0]], dtype=complex), np.array([[0, 0], [0, 1]], dtype=complex)
        plus = np.full((2, 2), 0.5, dtype=complex)
        rho = 0
        for a_op, b_op in ((k0, k0), (plus, k1)):
            t = np.ones((1, 1), dtype=complex)
            for q in range(K):
                t = np.kron(t, a_op if q == sa else (b_op if q == sb else k0))
            rho = rho + 0.5 * t
        call = f"quantum_discord(rho_classical_on_B, dims={[2] * K}, sysa={sa}, sysb={sb})"
        try:
            got = float(qu.quantum_discord(qu.qarray(rho), [2] * K, sa, sb))
        except Exception as e:  # noqa
            return dict(call=call, observed=f"{type(e).__name__}: {e}", expected=0.0, reproduced=True)
        return dict(call=call, observed=got, expected=0.0, note="B = sysb carries an orthogonal classical register: D(A|B) = 0",
                    reproduced=bool(abs(got) > 1e-3))
